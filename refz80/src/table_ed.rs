//! ED-prefixed table. Both M1 cycles (ED and the opcode) are already done by `step` when
//! `exec_ed` runs, so `self.pc` points past the opcode and `self.ir()` already includes both
//! R increments.

use crate::alu::*;
use crate::{Index, RBus, RefZ80};

impl RefZ80 {
    /// BC DE HL SP by bits 5..4.
    #[inline]
    fn ed_rp(&self, code: u8) -> u16 {
        match code & 3 {
            0 => self.bc(),
            1 => self.de(),
            2 => self.hl(),
            _ => self.sp,
        }
    }

    #[inline]
    fn ed_set_rp(&mut self, code: u8, v: u16) {
        match code & 3 {
            0 => self.set_bc(v),
            1 => self.set_de(v),
            2 => self.set_hl(v),
            _ => self.sp = v,
        }
    }

    /// Returns true when a block instruction decided to repeat (PC moved back by 2).
    pub(crate) fn exec_ed<B: RBus>(&mut self, bus: &mut B, op: u8) -> bool {
        let mut repeated = false;
        match op {
            // IN r,(C): m1 m1 input(bc). S Z P from the value, H = N = 0, C kept. MEMPTR = BC+1.
            // ED 70: IN (C) — flags only.
            0x40 | 0x48 | 0x50 | 0x58 | 0x60 | 0x68 | 0x70 | 0x78 => {
                let bc = self.bc();
                let v = bus.input(bc);
                self.memptr = bc.wrapping_add(1);
                if op != 0x70 {
                    self.set_reg8(op >> 3, Index::HL, v);
                }
                let f = (self.f & CF) | szxyp(v);
                self.set_f(f);
            }

            // OUT (C),r: m1 m1 output(bc). MEMPTR = BC+1. ED 71: OUT (C),0 on NMOS.
            0x41 | 0x49 | 0x51 | 0x59 | 0x61 | 0x69 | 0x71 | 0x79 => {
                let bc = self.bc();
                let v = if op == 0x71 { 0 } else { self.reg8(op >> 3, Index::HL) };
                bus.output(bc, v);
                self.memptr = bc.wrapping_add(1);
            }

            // SBC HL,rr: m1 m1 delay(IR,7). MEMPTR = HL(before)+1
            0x42 | 0x52 | 0x62 | 0x72 => {
                bus.delay(self.ir(), 7);
                let hl = self.hl();
                let (res, f) = sbc16(hl, self.ed_rp(op >> 4), self.f & CF != 0);
                self.memptr = hl.wrapping_add(1);
                self.set_hl(res);
                self.set_f(f);
            }

            // ADC HL,rr: m1 m1 delay(IR,7). MEMPTR = HL(before)+1
            0x4A | 0x5A | 0x6A | 0x7A => {
                bus.delay(self.ir(), 7);
                let hl = self.hl();
                let (res, f) = adc16(hl, self.ed_rp(op >> 4), self.f & CF != 0);
                self.memptr = hl.wrapping_add(1);
                self.set_hl(res);
                self.set_f(f);
            }

            // LD (nn),rr: m1 m1 read read write(nn) write(nn+1). MEMPTR = nn+1
            0x43 | 0x53 | 0x63 | 0x73 => {
                let nn = self.imm16(bus);
                let [hi, lo] = self.ed_rp(op >> 4).to_be_bytes();
                bus.write(nn, lo);
                bus.write(nn.wrapping_add(1), hi);
                self.memptr = nn.wrapping_add(1);
            }

            // LD rr,(nn): m1 m1 read read read(nn) read(nn+1). MEMPTR = nn+1
            0x4B | 0x5B | 0x6B | 0x7B => {
                let nn = self.imm16(bus);
                let lo = bus.read(nn);
                let hi = bus.read(nn.wrapping_add(1));
                self.ed_set_rp(op >> 4, u16::from_le_bytes([lo, hi]));
                self.memptr = nn.wrapping_add(1);
            }

            // NEG and its mirrors: m1 m1
            0x44 | 0x4C | 0x54 | 0x5C | 0x64 | 0x6C | 0x74 | 0x7C => {
                let (res, f) = sub8(0, self.a, false);
                self.a = res;
                self.set_f(f);
            }

            // RETN / RETI and mirrors: m1 m1 read(sp) read(sp+1). iff1 = iff2 for all eight.
            // MEMPTR = PC.
            0x45 | 0x4D | 0x55 | 0x5D | 0x65 | 0x6D | 0x75 | 0x7D => {
                self.pc = self.pop16(bus);
                self.memptr = self.pc;
                self.iff1 = self.iff2;
            }

            // IM 0 / IM 1 / IM 2 and mirrors (4E/6E "IM 0/1" behave as IM 0): m1 m1
            0x46 | 0x4E | 0x66 | 0x6E => self.im = 0,
            0x56 | 0x76 => self.im = 1,
            0x5E | 0x7E => self.im = 2,

            // LD I,A / LD R,A: m1 m1 delay(IR,1). LD R,A writes all eight bits.
            // The delay shows IR as it is before the load (R after this instruction's M1s).
            0x47 => {
                bus.delay(self.ir(), 1);
                self.i = self.a;
            }
            0x4F => {
                bus.delay(self.ir(), 1);
                self.r = self.a;
            }

            // LD A,I / LD A,R: m1 m1 delay(IR,1). S Z from A, H = N = 0, PV = IFF2, C kept.
            0x57 | 0x5F => {
                bus.delay(self.ir(), 1);
                self.a = if op == 0x57 { self.i } else { self.r };
                let f = (self.f & CF) | szxy(self.a) | if self.iff2 { PF } else { 0 };
                self.set_f(f);
            }

            // RRD / RLD: m1 m1 read(hl) delay(hl,4) write(hl). MEMPTR = HL+1.
            // S Z P from new A, H = N = 0, C kept.
            0x67 | 0x6F => {
                let hl = self.hl();
                let v = bus.read(hl);
                bus.delay(hl, 4);
                let (new_a, new_v) = if op == 0x67 {
                    // RRD: A.lo -> (HL).hi, (HL).hi -> (HL).lo, (HL).lo -> A.lo
                    ((self.a & 0xF0) | (v & 0x0F), (self.a << 4) | (v >> 4))
                } else {
                    // RLD: A.lo -> (HL).lo, (HL).lo -> (HL).hi, (HL).hi -> A.lo
                    ((self.a & 0xF0) | (v >> 4), (v << 4) | (self.a & 0x0F))
                };
                bus.write(hl, new_v);
                self.a = new_a;
                self.memptr = hl.wrapping_add(1);
                let f = (self.f & CF) | szxyp(new_a);
                self.set_f(f);
            }

            // ------------------------------------------------------------ block transfer
            // LDI LDD LDIR LDDR: m1 m1 read(hl) write(de) delay(de,2) [delay(de,5)]
            // (de = the address just written).
            0xA0 | 0xA8 | 0xB0 | 0xB8 => {
                let hl = self.hl();
                let de = self.de();
                let v = bus.read(hl);
                bus.write(de, v);
                bus.delay(de, 2);
                let step: u16 = if op & 0x08 == 0 { 1 } else { 0xFFFF };
                self.set_hl(hl.wrapping_add(step));
                self.set_de(de.wrapping_add(step));
                let bc = self.bc().wrapping_sub(1);
                self.set_bc(bc);
                // S Z C kept, H = N = 0, PV = (BC != 0), F3 = bit 3 and F5 = bit 1 of (A + value).
                let n = self.a.wrapping_add(v);
                let mut f = (self.f & (SF | ZF | CF)) | (n & XF) | ((n << 4) & YF) | if bc != 0 { PF } else { 0 };
                let repeat = op & 0x10 != 0 && bc != 0;
                if repeat {
                    bus.delay(de, 5);
                    self.pc = self.pc.wrapping_sub(2);
                    // Repeating: MEMPTR = instruction address + 1, and F3/F5 are taken from
                    // bits 11/13 of PC (the instruction's own address) instead.
                    self.memptr = self.pc.wrapping_add(1);
                    f = (f & !(XF | YF)) | ((self.pc >> 8) as u8 & (XF | YF));
                }
                self.set_f(f);
                repeated = repeat;
            }

            // ------------------------------------------------------------ block compare
            // CPI CPD CPIR CPDR: m1 m1 read(hl) delay(hl,5) [delay(hl,5)] (hl = address compared).
            0xA1 | 0xA9 | 0xB1 | 0xB9 => {
                let hl = self.hl();
                let v = bus.read(hl);
                bus.delay(hl, 5);
                let step: u16 = if op & 0x08 == 0 { 1 } else { 0xFFFF };
                self.set_hl(hl.wrapping_add(step));
                self.memptr = self.memptr.wrapping_add(step);
                let bc = self.bc().wrapping_sub(1);
                self.set_bc(bc);
                // S Z H from A - value, N = 1, C kept, PV = (BC != 0),
                // F3 = bit 3 and F5 = bit 1 of (A - value - H).
                let res = self.a.wrapping_sub(v);
                let half = (self.a ^ v ^ res) & HF;
                let n = res.wrapping_sub(half >> 4);
                let mut f = (self.f & CF)
                    | NF
                    | (res & SF)
                    | if res == 0 { ZF } else { 0 }
                    | half
                    | (n & XF)
                    | ((n << 4) & YF)
                    | if bc != 0 { PF } else { 0 };
                let repeat = op & 0x10 != 0 && bc != 0 && res != 0;
                if repeat {
                    bus.delay(hl, 5);
                    self.pc = self.pc.wrapping_sub(2);
                    self.memptr = self.pc.wrapping_add(1);
                    f = (f & !(XF | YF)) | ((self.pc >> 8) as u8 & (XF | YF));
                }
                self.set_f(f);
                repeated = repeat;
            }

            // ------------------------------------------------------------ block input
            // INI IND INIR INDR: m1 m1 delay(IR,1) input(bc) write(hl) [delay(hl,5)]
            // The port address carries B *before* the decrement. MEMPTR = BC(before) +/- 1.
            0xA2 | 0xAA | 0xB2 | 0xBA => {
                bus.delay(self.ir(), 1);
                let bc = self.bc();
                let hl = self.hl();
                let v = bus.input(bc);
                bus.write(hl, v);
                let step: u16 = if op & 0x08 == 0 { 1 } else { 0xFFFF };
                self.memptr = bc.wrapping_add(step);
                self.b = self.b.wrapping_sub(1);
                self.set_hl(hl.wrapping_add(step));
                // k = value + ((C +/- 1) & 0xFF)
                let k = v as u16 + self.c.wrapping_add(step as u8) as u16;
                let f = self.block_io_flags(v, k);
                let repeat = op & 0x10 != 0 && self.b != 0;
                if repeat {
                    bus.delay(hl, 5);
                }
                repeated = self.finish_block_io(f, v, repeat);
            }

            // ------------------------------------------------------------ block output
            // OUTI OUTD OTIR OTDR: m1 m1 delay(IR,1) read(hl) output(bc) [delay(bc,5)]
            // B is decremented *before* the port address is formed. MEMPTR = BC(after) +/- 1.
            0xA3 | 0xAB | 0xB3 | 0xBB => {
                bus.delay(self.ir(), 1);
                let hl = self.hl();
                let v = bus.read(hl);
                self.b = self.b.wrapping_sub(1);
                let bc = self.bc();
                bus.output(bc, v);
                let step: u16 = if op & 0x08 == 0 { 1 } else { 0xFFFF };
                self.set_hl(hl.wrapping_add(step));
                self.memptr = bc.wrapping_add(step);
                // k = value + L (after HL was stepped)
                let k = v as u16 + self.l as u16;
                let f = self.block_io_flags(v, k);
                let repeat = op & 0x10 != 0 && self.b != 0;
                if repeat {
                    bus.delay(bc, 5);
                }
                repeated = self.finish_block_io(f, v, repeat);
            }

            // Everything else in the ED page is an 8 T two-byte NOP (m1 m1); F untouched, Q = 0.
            // This covers ED 00-3F, ED 77/7F, ED 80-9F, ED A4-A7/AC-AF/B4-B7/BC-BF, ED C0-FF.
            _ => {}
        }
        repeated
    }

    /// Flags common to INI/IND/OUTI/OUTD once B has been decremented:
    /// S Z F5 F3 from B, N = bit 7 of the transferred value, H = C = (k > 255),
    /// PV = parity((k & 7) ^ B).
    #[inline]
    fn block_io_flags(&self, v: u8, k: u16) -> u8 {
        szxy(self.b)
            | if v & 0x80 != 0 { NF } else { 0 }
            | if k > 0xFF { HF | CF } else { 0 }
            | parity((k as u8 & 7) ^ self.b)
    }

    /// Applies the extra flag changes of a *repeating* INIR/INDR/OTIR/OTDR iteration
    /// (B != 0) and moves PC back onto the instruction:
    ///   F3/F5 = bits 11/13 of PC (instruction address);
    ///   if C:  N set   -> PV ^= odd_parity((B-1) & 7), H = ((B & 0x0F) == 0x00)
    ///          N clear -> PV ^= odd_parity((B+1) & 7), H = ((B & 0x0F) == 0x0F)
    ///   else:  PV ^= odd_parity(B & 7)
    /// where odd_parity(x) = 1 when x has an odd number of 1 bits ("PF ^ Parity(x) ^ 1").
    #[inline]
    fn finish_block_io(&mut self, mut f: u8, v: u8, repeat: bool) -> bool {
        if repeat {
            self.pc = self.pc.wrapping_sub(2);
            f = (f & !(XF | YF)) | ((self.pc >> 8) as u8 & (XF | YF));
            let b = self.b;
            if f & CF != 0 {
                f &= !HF;
                if v & 0x80 != 0 {
                    f ^= parity(b.wrapping_sub(1) & 7) ^ PF;
                    if b & 0x0F == 0x00 {
                        f |= HF;
                    }
                } else {
                    f ^= parity(b.wrapping_add(1) & 7) ^ PF;
                    if b & 0x0F == 0x0F {
                        f |= HF;
                    }
                }
            } else {
                f ^= parity(b & 7) ^ PF;
            }
        }
        self.set_f(f);
        repeat
    }
}
