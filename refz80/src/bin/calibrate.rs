//! Calibration of the reference model against the public Z80 test suites, running ALONE
//! (no other CPU model is involved in execution).
//!
//! usage: calibrate [--bltst-screen <path>] [--verbose] [suite ...]
//!   suites: zexall z80full z80memptr z80ccf z80bltst   (default: all)
//!
//! Prints `CALIBRATION <name> PASS|FAIL <detail>` per suite; exit code 0 iff every selected
//! suite among zexall/z80full/z80memptr/z80ccf passed (z80bltst has no oracle of its own and
//! never fails the run unless it does not reach its exit point).

use refz80::{RBus, RefZ80, StepKind};
use std::io::Read;
use std::time::Instant;

const ZEXALL: &str = "/repo/rustzx-z80/tests/integration/assets/zexall.com";
const ROM48: &str = "/repo/rustzx-core/src/zx/roms/48.rom";
const TAP_DIR: &str = "/repo/rustzx-test/test_data";

const FRAME_T: u64 = 69888;
const INT_LEN_T: u64 = 32;

/// Flat 64 K machine with T-state counting. In `spectrum` mode the first 16 K are ROM,
/// /INT is asserted for 32 T every 69888 T, even ports read 0xBF (ULA, no key pressed) and
/// port xx1F reads 0x00 (idle Kempston joystick) and every other odd port reads 0xFF.
struct Machine {
    mem: Box<[u8; 0x10000]>,
    spectrum: bool,
    t: u64,
}

impl Machine {
    fn new(spectrum: bool) -> Self {
        Machine { mem: vec![0u8; 0x10000].into_boxed_slice().try_into().unwrap(), spectrum, t: 0 }
    }
    fn load(&mut self, addr: u16, data: &[u8]) {
        for (i, b) in data.iter().enumerate() {
            self.mem[(addr as usize + i) & 0xFFFF] = *b;
        }
    }
}

impl RBus for Machine {
    fn m1(&mut self, addr: u16) -> u8 {
        self.t += 4;
        self.mem[addr as usize]
    }
    fn read(&mut self, addr: u16) -> u8 {
        self.t += 3;
        self.mem[addr as usize]
    }
    fn write(&mut self, addr: u16, val: u8) {
        self.t += 3;
        if !(self.spectrum && addr < 0x4000) {
            self.mem[addr as usize] = val;
        }
    }
    fn delay(&mut self, _addr: u16, t: u32) {
        self.t += t as u64;
    }
    fn input(&mut self, port: u16) -> u8 {
        self.t += 4;
        if port & 1 == 0 {
            0xBF // ULA, no key pressed
        } else if port & 0xFF == 0x1F {
            // Idle Kempston joystick. z80bltst only runs its INIR/INDR rows when port 0x1F
            // reads with bit 7 clear, 0xFE with bit 7 set and 0xFF as 0xFF; the pinned repo
            // rendering (emulator with Kempston attached) has those rows.
            0x00
        } else {
            0xFF
        }
    }
    fn output(&mut self, _port: u16, _val: u8) {
        self.t += 4;
    }
    fn ack(&mut self, t: u32) {
        self.t += t as u64;
    }
    fn int_vector(&mut self) -> u8 {
        0xFF
    }
    fn int_line(&mut self) -> bool {
        self.spectrum && self.t % FRAME_T < INT_LEN_T
    }
    fn nmi_take(&mut self) -> bool {
        false
    }
}

// ------------------------------------------------------------------------------------ zexall

const ZEXALL_GROUPS: [&str; 67] = [
    "adc16", "add16", "add16x", "add16y", "alu8i", "alu8r", "alu8rx", "alu8x", "bitx", "bitz80", "cpd1",
    "cpi1", "daa", "inca", "incb", "incbc", "incc", "incd", "incde", "ince", "inch", "inchl", "incix",
    "inciy", "incl", "incm", "incsp", "incx", "incxh", "incxl", "incyh", "incyl", "ld161", "ld162",
    "ld163", "ld164", "ld165", "ld166", "ld167", "ld168", "ld16im", "ld16ix", "ld8bd", "ld8im", "ld8imx",
    "ld8ix1", "ld8ix2", "ld8ix3", "ld8ixy", "ld8rr", "ld8rrx", "lda", "ldd1", "ldd2", "ldi1", "ldi2", "neg",
    "rld", "rot8080", "rotxy", "rotz80", "srz80", "srzx", "st8ix1", "st8ix2", "st8ix3", "stabd",
];

/// Runs one zexall group (the test-pointer table at 0x013A is patched to hold just that
/// group, the same way the repo's own zexall test does). Returns the text it printed.
fn run_zexall_group(image: &[u8], group: usize) -> Result<String, String> {
    const TABLE: usize = 0x013A;
    let mut m = Machine::new(false);
    m.load(0x0100, image);
    m.mem[0x0005] = 0xC9; // BDOS entry: RET (the call is serviced below)
    m.mem[0x1DDA] = b'$'; // silence the "Z80 instruction exerciser" banner
    m.mem[0x1DF6] = b'$'; // silence "Tests complete"
    m.mem[0x0006] = 0x00; // top of TPA -> initial SP = 0xC000
    m.mem[0x0007] = 0xC0;
    let lo = m.mem[TABLE + group * 2];
    let hi = m.mem[TABLE + group * 2 + 1];
    if lo == 0 && hi == 0 {
        return Err(format!("group {group}: empty table slot"));
    }
    m.mem[TABLE] = lo;
    m.mem[TABLE + 1] = hi;
    m.mem[TABLE + 2] = 0;
    m.mem[TABLE + 3] = 0;

    let mut cpu = RefZ80::new();
    cpu.pc = 0x0100;
    let mut out = String::new();
    let budget: u64 = 400_000_000_000;
    loop {
        if cpu.index == refz80::Index::HL {
            match cpu.pc {
                0x0000 => break,
                0x0005 => match cpu.c {
                    2 => out.push(cpu.e as char),
                    9 => {
                        let mut a = cpu.de();
                        let mut n = 0;
                        while m.mem[a as usize] != b'$' && n < 200 {
                            out.push(m.mem[a as usize] as char);
                            a = a.wrapping_add(1);
                            n += 1;
                        }
                    }
                    _ => {}
                },
                _ => {}
            }
        }
        cpu.step(&mut m);
        if m.t > budget {
            return Err(format!("group {group}: T-state budget exhausted; output so far: {out:?}"));
        }
    }
    Ok(out)
}

fn run_zexall(verbose: bool) -> Result<String, String> {
    use std::sync::atomic::{AtomicUsize, Ordering};
    use std::sync::{Arc, Mutex};
    let image = Arc::new(std::fs::read(ZEXALL).map_err(|e| format!("{ZEXALL}: {e}"))?);
    // Work queue, heaviest groups first (the aluop groups are ~40 % of zexall's 46.7 G T-states),
    // so that the longest group does not end up running alone at the end.
    let heavy = ["alu8r", "alu8rx", "alu8x", "alu8i", "bitz80", "rotz80", "rotxy", "srz80", "srzx", "bitx"];
    let mut order: Vec<usize> = (0..ZEXALL_GROUPS.len()).collect();
    order.sort_by_key(|g| heavy.iter().position(|h| *h == ZEXALL_GROUPS[*g]).unwrap_or(heavy.len()));
    let order = Arc::new(order);
    let next = Arc::new(AtomicUsize::new(0));
    let results: Arc<Mutex<Vec<Option<(Result<String, String>, f64)>>>> =
        Arc::new(Mutex::new(vec![None; ZEXALL_GROUPS.len()]));
    let workers = std::thread::available_parallelism().map(|n| n.get()).unwrap_or(4).clamp(1, ZEXALL_GROUPS.len());
    let handles: Vec<_> = (0..workers)
        .map(|_| {
            let (image, order, next, results) = (image.clone(), order.clone(), next.clone(), results.clone());
            std::thread::spawn(move || loop {
                let i = next.fetch_add(1, Ordering::SeqCst);
                let Some(&g) = order.get(i) else { break };
                let t = Instant::now();
                let r = run_zexall_group(&image, g);
                results.lock().unwrap()[g] = Some((r, t.elapsed().as_secs_f64()));
            })
        })
        .collect();
    let mut panicked = false;
    for h in handles {
        panicked |= h.join().is_err();
    }
    let results = results.lock().unwrap();
    let mut failed = Vec::new();
    for (g, name) in ZEXALL_GROUPS.iter().enumerate() {
        match &results[g] {
            Some((Ok(out), secs)) => {
                // every group prints "<description>....  OK\n\r" on success
                let clean = out.replace(['\n', '\r'], " ");
                if verbose {
                    eprintln!("zexall {name:8} {secs:5.1} s  {}", clean.trim());
                }
                if !out.trim_end().ends_with("  OK") || out.contains("ERROR") {
                    failed.push(format!("{name}: {}", clean.trim()));
                }
            }
            Some((Err(e), _)) => failed.push(format!("{name}: {e}")),
            None => failed.push(format!("{name}: not run{}", if panicked { " (worker panicked)" } else { "" })),
        }
    }
    if failed.is_empty() {
        Ok(format!("{} of {} groups OK", ZEXALL_GROUPS.len(), ZEXALL_GROUPS.len()))
    } else {
        Err(format!("{} of {} groups failed: {}", failed.len(), ZEXALL_GROUPS.len(), failed.join(" | ")))
    }
}

// ------------------------------------------------------------------------------------ TAP / Spectrum

fn read_gz(path: &str) -> Result<Vec<u8>, String> {
    let f = std::fs::File::open(path).map_err(|e| format!("{path}: {e}"))?;
    let mut out = Vec::new();
    flate2::read::GzDecoder::new(f).read_to_end(&mut out).map_err(|e| format!("{path}: {e}"))?;
    Ok(out)
}

/// Returns (load address, bytes) of every CODE block in a TAP image.
fn tap_code_blocks(tap: &[u8]) -> Vec<(u16, Vec<u8>)> {
    let mut blocks = Vec::new();
    let mut p = 0;
    let mut pending: Option<u16> = None;
    while p + 2 <= tap.len() {
        let len = u16::from_le_bytes([tap[p], tap[p + 1]]) as usize;
        let body = &tap[p + 2..(p + 2 + len).min(tap.len())];
        p += 2 + len;
        if body.len() < 2 {
            continue;
        }
        if body[0] == 0x00 && body.len() == 19 {
            // header: flag, type, name[10], length, param1, param2, checksum
            pending = if body[1] == 3 { Some(u16::from_le_bytes([body[14], body[15]])) } else { None };
        } else if body[0] == 0xFF {
            if let Some(addr) = pending.take() {
                blocks.push((addr, body[1..body.len() - 1].to_vec()));
            }
        }
    }
    blocks
}

/// Boots the 48K ROM on the reference model until it sits in the editor's key-wait loop.
fn boot_spectrum() -> Result<(RefZ80, Machine), String> {
    let rom = std::fs::read(ROM48).map_err(|e| format!("{ROM48}: {e}"))?;
    if rom.len() != 0x4000 {
        return Err(format!("{ROM48}: unexpected size {}", rom.len()));
    }
    let mut m = Machine::new(true);
    m.load(0, &rom);
    let mut cpu = RefZ80::new();
    // ~3 s of machine time: the RAM test and initialisation take about 1.5 s.
    let settle = 150 * FRAME_T;
    let limit = 400 * FRAME_T;
    loop {
        let info = cpu.step(&mut m);
        // Stop at a quiet boundary outside the interrupt routine: interrupts enabled, IM 1,
        // IY = ERR_NR, a complete instruction just finished.
        if m.t > settle
            && info.kind == StepKind::Instr
            && cpu.iff1
            && !cpu.no_int
            && cpu.index == refz80::Index::HL
            && cpu.im == 1
            && cpu.iy == 0x5C3A
            && cpu.pc < 0x4000
        {
            break;
        }
        if m.t > limit {
            return Err("48K ROM did not reach its key-wait loop".into());
        }
    }
    // sanity: CHANS system variable initialised, ERR_NR = 0xFF, copyright line on screen
    let chans = u16::from_le_bytes([m.mem[0x5C4F], m.mem[0x5C50]]);
    if chans != 0x5CB6 {
        return Err(format!("ROM boot: unexpected system variables (CHANS={chans:04X} ERR_NR={:02X} pc={:04X} t={})", m.mem[0x5C3A], cpu.pc, m.t));
    }
    if m.mem[0x5000..0x5800].iter().all(|b| *b == 0) {
        return Err("ROM boot: copyright message not on screen".into());
    }
    Ok((cpu, m))
}

const SENTINEL: u16 = 0x7FF0;

/// Emulates `CLEAR 32767: LOAD ""CODE: RANDOMIZE USR 32768` on a booted machine.
fn enter_usr(cpu: &mut RefZ80, m: &mut Machine, tap_name: &str) -> Result<(), String> {
    let tap = read_gz(&format!("{TAP_DIR}/{tap_name}.tap.gz"))?;
    let blocks = tap_code_blocks(&tap);
    if blocks.is_empty() {
        return Err(format!("{tap_name}: no CODE block in tape"));
    }
    for (addr, data) in &blocks {
        m.load(*addr, data);
    }
    // return address -> a `JR $` sentinel just below the program
    m.mem[SENTINEL as usize] = 0x18;
    m.mem[SENTINEL as usize + 1] = 0xFE;
    cpu.sp = SENTINEL - 2;
    m.mem[cpu.sp as usize] = SENTINEL as u8;
    m.mem[cpu.sp as usize + 1] = (SENTINEL >> 8) as u8;
    cpu.pc = 0x8000;
    cpu.set_bc(0x8000); // USR enters with BC = address
    cpu.halted = false;
    Ok(())
}

fn find(mem: &[u8], pat: &[u8], from: usize, to: usize) -> Option<usize> {
    (from..to).find(|&a| &mem[a..a + pat.len()] == pat)
}

/// Runs a z80test 1.0 tape. Success = execution reaches the `call print` that precedes
/// "all tests passed".
fn run_z80test(name: &str, verbose: bool) -> Result<String, String> {
    let (mut cpu, mut m) = boot_spectrum()?;
    enter_usr(&mut cpu, &mut m, name)?;
    let text = find(&m.mem[..], b"all tests passed", 0x8000, 0x8400)
        .ok_or_else(|| format!("{name}: success message not found"))?;
    let pass_addr = (text - 3) as u16;
    if m.mem[pass_addr as usize] != 0xCD {
        return Err(format!("{name}: no CALL in front of the success message"));
    }
    let t0 = m.t;
    let budget = t0 + 100_000_000_000;
    let mut out = String::new();
    let mut passed = false;
    loop {
        if cpu.index == refz80::Index::HL {
            if cpu.pc == pass_addr {
                passed = true;
            } else if cpu.pc == SENTINEL {
                break;
            } else if cpu.pc == 0x0010 {
                // RST 10h: character in A. Keep the ROM from ever asking "scroll?".
                m.mem[0x5C8C] = 0xFF;
                match cpu.a {
                    13 => out.push('\n'),
                    c @ 32..=126 => out.push(c as char),
                    127 => out.push_str("(c)"),
                    _ => out.push('~'),
                }
            }
        }
        cpu.step(&mut m);
        if m.t > budget {
            return Err(format!("{name}: T-state budget exhausted; output:\n{out}"));
        }
    }
    let secs = (m.t - t0) as f64 / 3_500_000.0;
    if verbose {
        eprintln!("---- {name} output ----\n{out}\n----");
    }
    let failures: Vec<&str> = out.lines().filter(|l| l.contains("FAILED") || l.contains("CRC")).collect();
    let result_line = out.lines().rev().find(|l| l.contains("Result") || l.contains("tests")).unwrap_or("").trim();
    if passed {
        Ok(format!("\"{result_line}\" after {secs:.0} s of machine time"))
    } else {
        Err(format!("\"{result_line}\"; failing tests: {}", failures.join(" / ")))
    }
}

/// Runs z80bltst to its exit point and returns the 6912 screen bytes.
fn run_bltst(screen_path: Option<&str>) -> Result<String, String> {
    let (mut cpu, mut m) = boot_spectrum()?;
    enter_usr(&mut cpu, &mut m, "z80bltst")?;
    let exit = find(&m.mem[..], &[0xF3, 0x31, 0x00, 0x00], 0x8000, 0x8400)
        .ok_or_else(|| "z80bltst: exit pattern not found".to_string())? as u16;
    let t0 = m.t;
    let budget = t0 + 20_000_000_000;
    while !(cpu.pc == exit && cpu.index == refz80::Index::HL) {
        if cpu.pc == 0x0010 {
            m.mem[0x5C8C] = 0xFF;
        }
        cpu.step(&mut m);
        if m.t > budget {
            return Err("z80bltst: exit point not reached".into());
        }
    }
    let screen = &m.mem[0x4000..0x5B00];
    // Attribute statistics: the test paints result cells green (paper/ink 4) or red (2).
    let attrs = &screen[6144..];
    let mut red = 0;
    let mut green = 0;
    for a in attrs {
        let (ink, paper) = (a & 7, (a >> 3) & 7);
        if ink == 2 || paper == 2 {
            red += 1;
        }
        if ink == 4 || paper == 4 {
            green += 1;
        }
    }
    if let Some(p) = screen_path {
        std::fs::write(p, screen).map_err(|e| format!("{p}: {e}"))?;
    }
    Ok(format!(
        "exit reached after {:.1} s of machine time; attribute cells: {green} green, {red} red{}",
        (m.t - t0) as f64 / 3_500_000.0,
        screen_path.map(|p| format!("; screen written to {p}")).unwrap_or_default()
    ))
}

// ------------------------------------------------------------------------------------ main

fn main() {
    let mut screen_path: Option<String> = None;
    let mut verbose = false;
    let mut suites: Vec<String> = Vec::new();
    let mut args = std::env::args().skip(1);
    while let Some(a) = args.next() {
        match a.as_str() {
            "--bltst-screen" => screen_path = args.next(),
            "--verbose" | "-v" => verbose = true,
            s if ["zexall", "z80full", "z80memptr", "z80ccf", "z80bltst"].contains(&s) => suites.push(s.to_string()),
            other => {
                eprintln!("unknown argument {other:?}");
                std::process::exit(2);
            }
        }
    }
    if suites.is_empty() {
        suites = ["zexall", "z80full", "z80memptr", "z80ccf", "z80bltst"].iter().map(|s| s.to_string()).collect();
    }

    let start = Instant::now();
    let handles: Vec<_> = suites
        .iter()
        .cloned()
        .map(|name| {
            let screen_path = screen_path.clone();
            std::thread::spawn(move || {
                let t = Instant::now();
                let res = match name.as_str() {
                    "zexall" => run_zexall(verbose),
                    "z80bltst" => run_bltst(screen_path.as_deref()),
                    n => run_z80test(n, verbose),
                };
                (name, res, t.elapsed())
            })
        })
        .collect();

    let mut all_ok = true;
    for h in handles {
        match h.join() {
            Ok((name, Ok(detail), dt)) => println!("CALIBRATION {name} PASS {detail} [{:.1} s]", dt.as_secs_f64()),
            Ok((name, Err(detail), dt)) => {
                all_ok = false;
                println!("CALIBRATION {name} FAIL {detail} [{:.1} s]", dt.as_secs_f64());
            }
            Err(_) => {
                all_ok = false;
                println!("CALIBRATION ? FAIL thread panicked");
            }
        }
    }
    eprintln!("total wall time {:.1} s", start.elapsed().as_secs_f64());
    std::process::exit(if all_ok { 0 } else { 1 });
}
