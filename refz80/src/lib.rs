//! refz80 — an independent, deliberately plain reference model of the NMOS Zilog Z80.
//!
//! Written from the public descriptions of the chip (Zilog manual, "The Undocumented Z80
//! Documented", the MEMPTR note, Patrik Rak's SCF/CCF/Q notes, the ZX Spectrum contention
//! tables for the machine-cycle breakdown, and the research on the flags of repeating block
//! instructions). One flat `match` per opcode table; flags are computed arithmetically.
//!
//! The model is instruction-stepped; every machine cycle is reported to the [`RBus`] in the
//! order the silicon performs it, with the address that is on the address bus.

#![forbid(unsafe_code)]

pub mod alu;
mod table_cb;
mod table_ed;
mod table_main;

use alu::*;

pub trait RBus {
    /// M1 opcode fetch: 4 T-states with `addr` on the bus (includes refresh). Returns the byte.
    fn m1(&mut self, addr: u16) -> u8;
    /// 3 T-state memory read.
    fn read(&mut self, addr: u16) -> u8;
    /// 3 T-state memory write.
    fn write(&mut self, addr: u16, val: u8);
    /// `t` further single T-states during which `addr` is on the address bus without MREQ
    /// (the "addr:1 ×t" entries of the Spectrum contention tables). Called once per group, `t` ≥ 1.
    fn delay(&mut self, addr: u16, t: u32);
    /// 4 T-state port read (one call per I/O machine cycle).
    fn input(&mut self, port: u16) -> u8;
    /// 4 T-state port write (one call per I/O machine cycle).
    fn output(&mut self, port: u16, val: u8);
    /// T-states of interrupt acknowledge that are not memory cycles
    /// (IM0/IM1: 7, IM2: 7, NMI: 5).
    fn ack(&mut self, t: u32);
    /// Byte on the data bus during a maskable-interrupt acknowledge (IM 2 vector low byte).
    fn int_vector(&mut self) -> u8;
    /// Level of /INT sampled at the instruction boundary (true = asserted).
    fn int_line(&mut self) -> bool;
    /// True once per NMI edge (consumes the latched edge).
    fn nmi_take(&mut self) -> bool;
    /// M1 fetch performed while halted; `addr` = address of the HALT opcode.
    /// Default: same as `m1`. (Silicon puts PC+1 on the bus; the harness decides what to accept.)
    fn halt_m1(&mut self, addr: u16) -> u8 {
        self.m1(addr)
    }
}

#[derive(Clone, Copy, Debug, PartialEq, Eq, Hash, Default)]
pub enum Index {
    #[default]
    HL,
    IX,
    IY,
}

#[derive(Clone, Copy, Debug, PartialEq, Eq, Hash)]
pub enum StepKind {
    Instr,
    Prefix,
    HaltCycle,
    Int,
    Nmi,
}

#[derive(Clone, Copy, Debug, PartialEq, Eq, Hash)]
pub enum Table {
    None_,
    CB,
    ED,
    DD,
    FD,
    DDCB,
    FDCB,
}

#[derive(Clone, Copy, Debug, PartialEq, Eq, Hash)]
pub struct StepInfo {
    pub kind: StepKind,
    /// For `Instr`: the table the final opcode was decoded in (`None_` = unprefixed).
    /// `None_` for every other kind.
    pub table: Table,
    /// Final opcode byte (`Instr`), the DD/FD byte (`Prefix`), the byte returned by the halt
    /// fetch (`HaltCycle`), 0 for `Int`/`Nmi`.
    pub opcode: u8,
    /// Block instruction that decided to repeat (PC moved back onto the instruction).
    pub repeated: bool,
}

#[derive(Clone, Debug, PartialEq, Eq)]
pub struct RefZ80 {
    pub a: u8,
    pub f: u8,
    pub b: u8,
    pub c: u8,
    pub d: u8,
    pub e: u8,
    pub h: u8,
    pub l: u8,
    pub a_: u8,
    pub f_: u8,
    pub b_: u8,
    pub c_: u8,
    pub d_: u8,
    pub e_: u8,
    pub h_: u8,
    pub l_: u8,
    pub ix: u16,
    pub iy: u16,
    pub sp: u16,
    pub pc: u16,
    pub i: u8,
    pub r: u8,
    pub iff1: bool,
    pub iff2: bool,
    /// 0, 1, 2
    pub im: u8,
    /// WZ
    pub memptr: u16,
    /// = F if the previously executed instruction wrote F, else 0
    pub q: u8,
    /// while true, `pc` is the address of the HALT opcode
    pub halted: bool,
    /// previous step was EI/DI or a DD/FD prefix: no INT at this boundary
    pub no_int: bool,
    /// pending DD/FD prefix (mid prefix chain), Index::HL when none
    pub index: Index,
}

impl Default for RefZ80 {
    fn default() -> Self {
        Self::new()
    }
}

impl RefZ80 {
    /// All zero, IM 0, interrupts disabled — like after reset (AF/SP = 0xFFFF not modelled).
    pub fn new() -> Self {
        RefZ80 {
            a: 0,
            f: 0,
            b: 0,
            c: 0,
            d: 0,
            e: 0,
            h: 0,
            l: 0,
            a_: 0,
            f_: 0,
            b_: 0,
            c_: 0,
            d_: 0,
            e_: 0,
            h_: 0,
            l_: 0,
            ix: 0,
            iy: 0,
            sp: 0,
            pc: 0,
            i: 0,
            r: 0,
            iff1: false,
            iff2: false,
            im: 0,
            memptr: 0,
            q: 0,
            halted: false,
            no_int: false,
            index: Index::HL,
        }
    }

    // ---------------------------------------------------------------- register pairs

    #[inline]
    pub fn af(&self) -> u16 {
        u16::from_be_bytes([self.a, self.f])
    }
    #[inline]
    pub fn bc(&self) -> u16 {
        u16::from_be_bytes([self.b, self.c])
    }
    #[inline]
    pub fn de(&self) -> u16 {
        u16::from_be_bytes([self.d, self.e])
    }
    #[inline]
    pub fn hl(&self) -> u16 {
        u16::from_be_bytes([self.h, self.l])
    }
    #[inline]
    pub fn set_bc(&mut self, v: u16) {
        [self.b, self.c] = v.to_be_bytes();
    }
    #[inline]
    pub fn set_de(&mut self, v: u16) {
        [self.d, self.e] = v.to_be_bytes();
    }
    #[inline]
    pub fn set_hl(&mut self, v: u16) {
        [self.h, self.l] = v.to_be_bytes();
    }
    /// I:R as it appears on the address bus during refresh / internal cycles.
    #[inline]
    pub fn ir(&self) -> u16 {
        u16::from_be_bytes([self.i, self.r])
    }

    // ---------------------------------------------------------------- small helpers

    /// R: the low 7 bits count M1 cycles, bit 7 is only changed by LD R,A.
    #[inline]
    fn bump_r(&mut self) {
        self.r = (self.r & 0x80) | (self.r.wrapping_add(1) & 0x7F);
    }

    /// Writes F as an ALU result: this is what latches Q (Q = F after a flag-writing
    /// instruction; `step` has already zeroed `q` for the instructions that do not get here).
    /// POP AF and EX AF,AF' assign `self.f` directly and therefore leave Q = 0.
    #[inline]
    fn set_f(&mut self, f: u8) {
        self.f = f;
        self.q = f;
    }

    /// M1 cycle at PC: fetch, PC += 1, R += 1.
    #[inline]
    fn fetch_m1<B: RBus>(&mut self, bus: &mut B) -> u8 {
        let v = bus.m1(self.pc);
        self.pc = self.pc.wrapping_add(1);
        self.bump_r();
        v
    }

    /// Plain 3 T operand read at PC, PC += 1.
    #[inline]
    fn imm8<B: RBus>(&mut self, bus: &mut B) -> u8 {
        let v = bus.read(self.pc);
        self.pc = self.pc.wrapping_add(1);
        v
    }

    #[inline]
    fn imm16<B: RBus>(&mut self, bus: &mut B) -> u16 {
        let lo = self.imm8(bus);
        let hi = self.imm8(bus);
        u16::from_le_bytes([lo, hi])
    }

    /// Push: write high byte at SP-1, then low byte at SP-2.
    #[inline]
    fn push16<B: RBus>(&mut self, bus: &mut B, v: u16) {
        let [hi, lo] = v.to_be_bytes();
        self.sp = self.sp.wrapping_sub(1);
        bus.write(self.sp, hi);
        self.sp = self.sp.wrapping_sub(1);
        bus.write(self.sp, lo);
    }

    /// Pop: read low byte at SP, then high byte at SP+1.
    #[inline]
    fn pop16<B: RBus>(&mut self, bus: &mut B) -> u16 {
        let lo = bus.read(self.sp);
        self.sp = self.sp.wrapping_add(1);
        let hi = bus.read(self.sp);
        self.sp = self.sp.wrapping_add(1);
        u16::from_le_bytes([lo, hi])
    }

    /// Condition codes NZ Z NC C PO PE P M (bits 5..3 of the opcode).
    #[inline]
    fn cond(&self, cc: u8) -> bool {
        match cc & 7 {
            0 => self.f & ZF == 0,
            1 => self.f & ZF != 0,
            2 => self.f & CF == 0,
            3 => self.f & CF != 0,
            4 => self.f & PF == 0,
            5 => self.f & PF != 0,
            6 => self.f & SF == 0,
            _ => self.f & SF != 0,
        }
    }

    // ---------------------------------------------------------------- step

    /// One step; see SPEC.md. Exactly one of: NMI entry, INT entry, one halted M1 cycle,
    /// one DD/FD prefix byte, one complete instruction (one iteration of a repeating block
    /// instruction).
    pub fn step<B: RBus>(&mut self, bus: &mut B) -> StepInfo {
        // `no_int` is cleared at the start of every step; EI, DI and the DD/FD prefix step
        // set it again below.
        let blocked = self.no_int;
        self.no_int = false;

        // Interrupts are only looked at on a true instruction boundary: not right after
        // EI/DI, and not in the middle of a DD/FD prefix chain.
        if !blocked && self.index == Index::HL {
            if bus.nmi_take() {
                self.enter_nmi(bus);
                return StepInfo { kind: StepKind::Nmi, table: Table::None_, opcode: 0, repeated: false };
            }
            if self.iff1 && bus.int_line() {
                self.enter_int(bus);
                return StepInfo { kind: StepKind::Int, table: Table::None_, opcode: 0, repeated: false };
            }
        }

        if self.halted {
            // The halted CPU keeps executing M1 cycles (NOPs) without advancing PC.
            // `pc` stays at the HALT opcode; R counts; no flags are written so Q = 0.
            let byte = bus.halt_m1(self.pc);
            self.bump_r();
            self.q = 0;
            return StepInfo { kind: StepKind::HaltCycle, table: Table::None_, opcode: byte, repeated: false };
        }

        let op = self.fetch_m1(bus);

        if op == 0xDD || op == 0xFD {
            // A prefix only selects the index register for the next opcode byte and blocks
            // interrupt acceptance at the following boundary. Q is left untouched here: the
            // prefix is part of the instruction that follows.
            self.index = if op == 0xDD { Index::IX } else { Index::IY };
            self.no_int = true;
            return StepInfo { kind: StepKind::Prefix, table: Table::None_, opcode: op, repeated: false };
        }

        // A complete instruction. Q: remember the value at entry (SCF/CCF need it), then
        // clear it; `set_f` re-latches it if the instruction writes the flags.
        let q_in = self.q;
        self.q = 0;
        let idx = self.index;
        self.index = Index::HL;

        let (table, opcode, repeated) = match op {
            0xCB => match idx {
                Index::HL => {
                    let op2 = self.fetch_m1(bus);
                    self.exec_cb(bus, op2);
                    (Table::CB, op2, false)
                }
                _ => {
                    // DD CB d op: the displacement and the final opcode are plain reads
                    // (no M1, no R increment), followed by 2 T with PC+3 on the bus.
                    let d = self.imm8(bus) as i8;
                    let op2 = bus.read(self.pc);
                    bus.delay(self.pc, 2);
                    self.pc = self.pc.wrapping_add(1);
                    self.exec_xycb(bus, idx, d, op2);
                    (if idx == Index::IX { Table::DDCB } else { Table::FDCB }, op2, false)
                }
            },
            0xED => {
                // ED cancels a pending DD/FD: the ED table never uses IX/IY.
                let op2 = self.fetch_m1(bus);
                let rep = self.exec_ed(bus, op2);
                (Table::ED, op2, rep)
            }
            _ => {
                self.exec_main(bus, op, idx, q_in);
                let t = match idx {
                    Index::HL => Table::None_,
                    Index::IX => Table::DD,
                    Index::IY => Table::FD,
                };
                (t, op, false)
            }
        };
        StepInfo { kind: StepKind::Instr, table, opcode, repeated }
    }

    /// NMI: clears iff1 only (iff2 preserved), releases HALT, pushes the address of the next
    /// instruction to execute (HALT address + 1 when halted), PC = 0x0066, R += 1, 11 T:
    /// ack(5), write SP-1 (hi), write SP-2 (lo). MEMPTR = 0x0066. Q = 0.
    fn enter_nmi<B: RBus>(&mut self, bus: &mut B) {
        let ret = self.leave_halt();
        self.iff1 = false;
        self.bump_r();
        bus.ack(5);
        self.push16(bus, ret);
        self.pc = 0x0066;
        self.memptr = self.pc;
        self.q = 0;
    }

    /// INT (accepted only if int_line && iff1 && !no_int && index == HL, checked by `step`):
    /// clears iff1 and iff2, releases HALT, R += 1.
    /// IM0/IM1: ack(7), push PC -> 13 T, PC = 0x0038 (IM 0 is modelled as executing RST 38h,
    /// i.e. 0xFF on the data bus).
    /// IM2: ack(7), push PC, read word at (I<<8 | vector) -> 19 T.
    /// MEMPTR = new PC. Q = 0.
    fn enter_int<B: RBus>(&mut self, bus: &mut B) {
        let ret = self.leave_halt();
        self.iff1 = false;
        self.iff2 = false;
        self.bump_r();
        bus.ack(7);
        if self.im == 2 {
            let vec = bus.int_vector();
            self.push16(bus, ret);
            let table = u16::from_be_bytes([self.i, vec]);
            let lo = bus.read(table);
            let hi = bus.read(table.wrapping_add(1));
            self.pc = u16::from_le_bytes([lo, hi]);
        } else {
            self.push16(bus, ret);
            self.pc = 0x0038;
        }
        self.memptr = self.pc;
        self.q = 0;
    }

    /// Returns the address execution resumes at after an interrupt and releases HALT.
    fn leave_halt(&mut self) -> u16 {
        if self.halted {
            self.halted = false;
            self.pc.wrapping_add(1)
        } else {
            self.pc
        }
    }
}
