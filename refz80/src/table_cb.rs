//! CB-prefixed table (rotates/shifts, BIT, RES, SET) and its DDCB/FDCB variant.

use crate::alu::*;
use crate::{Index, RBus, RefZ80};

/// Result of a CB operation on value `v`: `Some(new value)` for the writing groups,
/// `None` for BIT. Flags are returned separately (None = flags untouched).
#[inline]
fn cb_op(op: u8, v: u8, f_in: u8) -> (Option<u8>, Option<u8>) {
    let n = (op >> 3) & 7;
    match op >> 6 {
        0 => {
            let (res, f) = rot_cb(n, v, f_in);
            (Some(res), Some(f))
        }
        1 => (None, None), // BIT: flags need the F3/F5 source, done by the caller
        2 => (Some(v & !(1 << n)), None),
        _ => (Some(v | (1 << n)), None),
    }
}

impl RefZ80 {
    /// CB op on a register: m1 m1.
    /// CB op on (HL): m1 m1 read(hl) delay(hl,1) [write(hl)] — BIT does not write.
    pub(crate) fn exec_cb<B: RBus>(&mut self, bus: &mut B, op: u8) {
        let r = op & 7;
        let n = (op >> 3) & 7;
        match op {
            // BIT n,(HL): F3/F5 come from the high byte of MEMPTR.
            0x46 | 0x4E | 0x56 | 0x5E | 0x66 | 0x6E | 0x76 | 0x7E => {
                let hl = self.hl();
                let v = bus.read(hl);
                bus.delay(hl, 1);
                let f = bit(n, v, (self.memptr >> 8) as u8, self.f);
                self.set_f(f);
            }
            // BIT n,r: F3/F5 come from the register itself.
            0x40..=0x7F => {
                let v = self.reg8(r, Index::HL);
                let f = bit(n, v, v, self.f);
                self.set_f(f);
            }
            // rot/RES/SET (HL)
            0x06 | 0x0E | 0x16 | 0x1E | 0x26 | 0x2E | 0x36 | 0x3E | 0x86 | 0x8E | 0x96 | 0x9E | 0xA6
            | 0xAE | 0xB6 | 0xBE | 0xC6 | 0xCE | 0xD6 | 0xDE | 0xE6 | 0xEE | 0xF6 | 0xFE => {
                let hl = self.hl();
                let v = bus.read(hl);
                bus.delay(hl, 1);
                let (res, f) = cb_op(op, v, self.f);
                if let Some(res) = res {
                    bus.write(hl, res);
                }
                if let Some(f) = f {
                    self.set_f(f);
                }
            }
            // rot/RES/SET r
            _ => {
                let v = self.reg8(r, Index::HL);
                let (res, f) = cb_op(op, v, self.f);
                if let Some(res) = res {
                    self.set_reg8(r, Index::HL, res);
                }
                if let Some(f) = f {
                    self.set_f(f);
                }
            }
        }
    }

    /// DD CB d op / FD CB d op. `step` has already done
    /// m1(DD) m1(CB) read(pc+2)=d read(pc+3)=op delay(pc+3,2); here:
    /// read(ix+d) delay(ix+d,1) [write(ix+d)] (BIT: no write).
    /// MEMPTR = IX+d. The result is also copied into register `op & 7` unless that is 6
    /// (plain B C D E H L A, never IXH/IXL). BIT ignores the register field entirely and
    /// takes F3/F5 from the high byte of the address.
    pub(crate) fn exec_xycb<B: RBus>(&mut self, bus: &mut B, idx: Index, d: i8, op: u8) {
        let base = if idx == Index::IX { self.ix } else { self.iy };
        let addr = base.wrapping_add(d as i16 as u16);
        self.memptr = addr;
        let v = bus.read(addr);
        bus.delay(addr, 1);
        match op {
            0x40..=0x7F => {
                let f = bit((op >> 3) & 7, v, (addr >> 8) as u8, self.f);
                self.set_f(f);
            }
            _ => {
                let (res, f) = cb_op(op, v, self.f);
                let res = res.expect("non-BIT CB operations produce a value");
                bus.write(addr, res);
                if op & 7 != 6 {
                    self.set_reg8(op & 7, Index::HL, res);
                }
                if let Some(f) = f {
                    self.set_f(f);
                }
            }
        }
    }
}
