//! Flag arithmetic of the Z80 ALU, computed arithmetically (no lookup tables).
//!
//! Every function is pure: it takes operand values and the incoming F where relevant and
//! returns the result and the complete new F register.

pub const CF: u8 = 0x01;
pub const NF: u8 = 0x02;
pub const PF: u8 = 0x04;
pub const XF: u8 = 0x08; // undocumented "F3"
pub const HF: u8 = 0x10;
pub const YF: u8 = 0x20; // undocumented "F5"
pub const ZF: u8 = 0x40;
pub const SF: u8 = 0x80;

/// PF value (0 or PF) for the parity of `v`: set when the number of 1 bits is even.
#[inline]
pub fn parity(v: u8) -> u8 {
    if v.count_ones() & 1 == 0 {
        PF
    } else {
        0
    }
}

#[inline]
fn flag(cond: bool, mask: u8) -> u8 {
    if cond {
        mask
    } else {
        0
    }
}

/// S, Z, F5, F3 taken from an 8-bit result.
#[inline]
pub fn szxy(v: u8) -> u8 {
    (v & (SF | YF | XF)) | flag(v == 0, ZF)
}

/// S, Z, F5, F3 and parity from an 8-bit result.
#[inline]
pub fn szxyp(v: u8) -> u8 {
    szxy(v) | parity(v)
}

/// ADD / ADC A,v
pub fn add8(a: u8, v: u8, carry_in: bool) -> (u8, u8) {
    let wide = a as u16 + v as u16 + carry_in as u16;
    let res = wide as u8;
    let f = szxy(res)
        | ((a ^ v ^ res) & HF)
        | flag((a ^ res) & (v ^ res) & 0x80 != 0, PF)
        | flag(wide > 0xFF, CF);
    (res, f)
}

/// SUB / SBC A,v (also NEG with a = 0). F3/F5 from the result.
pub fn sub8(a: u8, v: u8, carry_in: bool) -> (u8, u8) {
    let wide = (a as u16).wrapping_sub(v as u16).wrapping_sub(carry_in as u16);
    let res = wide as u8;
    let f = szxy(res)
        | ((a ^ v ^ res) & HF)
        | flag((a ^ v) & (a ^ res) & 0x80 != 0, PF)
        | NF
        | flag(wide > 0xFF, CF);
    (res, f)
}

/// CP v: like SUB but F3/F5 come from the operand, and A is not written.
pub fn cp8(a: u8, v: u8) -> u8 {
    let (_, f) = sub8(a, v, false);
    (f & !(XF | YF)) | (v & (XF | YF))
}

pub fn and8(a: u8, v: u8) -> (u8, u8) {
    let res = a & v;
    (res, szxyp(res) | HF)
}

pub fn xor8(a: u8, v: u8) -> (u8, u8) {
    let res = a ^ v;
    (res, szxyp(res))
}

pub fn or8(a: u8, v: u8) -> (u8, u8) {
    let res = a | v;
    (res, szxyp(res))
}

/// INC r: carry preserved.
pub fn inc8(v: u8, f_in: u8) -> (u8, u8) {
    let res = v.wrapping_add(1);
    let f = (f_in & CF) | szxy(res) | flag(v & 0x0F == 0x0F, HF) | flag(v == 0x7F, PF);
    (res, f)
}

/// DEC r: carry preserved.
pub fn dec8(v: u8, f_in: u8) -> (u8, u8) {
    let res = v.wrapping_sub(1);
    let f = (f_in & CF) | szxy(res) | flag(v & 0x0F == 0x00, HF) | flag(v == 0x80, PF) | NF;
    (res, f)
}

/// DAA, following the table in "The Undocumented Z80 Documented".
pub fn daa(a: u8, f_in: u8) -> (u8, u8) {
    let mut corr = 0u8;
    let mut carry = f_in & CF != 0;
    if f_in & HF != 0 || (a & 0x0F) > 9 {
        corr |= 0x06;
    }
    if carry || a > 0x99 {
        corr |= 0x60;
        carry = true;
    }
    let res = if f_in & NF != 0 { a.wrapping_sub(corr) } else { a.wrapping_add(corr) };
    let f = szxyp(res) | ((a ^ res) & HF) | (f_in & NF) | flag(carry, CF);
    (res, f)
}

/// The eight CB-prefixed rotate/shift operations (RLC RRC RL RR SLA SRA SLL SRL), selected
/// by bits 5..3 of the opcode.
pub fn rot_cb(kind: u8, v: u8, f_in: u8) -> (u8, u8) {
    let cin = f_in & CF;
    let (res, cout) = match kind & 7 {
        0 => (v.rotate_left(1), v >> 7),
        1 => (v.rotate_right(1), v & 1),
        2 => ((v << 1) | cin, v >> 7),
        3 => ((v >> 1) | (cin << 7), v & 1),
        4 => (v << 1, v >> 7),
        5 => ((v >> 1) | (v & 0x80), v & 1),
        6 => ((v << 1) | 1, v >> 7), // SLL / SL1 (undocumented)
        _ => (v >> 1, v & 1),
    };
    (res, szxyp(res) | cout)
}

/// RLCA / RRCA / RLA / RRA (kind 0..3): S, Z, PV preserved; H = N = 0; F3/F5 from new A.
pub fn rot_a(kind: u8, a: u8, f_in: u8) -> (u8, u8) {
    let cin = f_in & CF;
    let (res, cout) = match kind & 3 {
        0 => (a.rotate_left(1), a >> 7),
        1 => (a.rotate_right(1), a & 1),
        2 => ((a << 1) | cin, a >> 7),
        _ => ((a >> 1) | (cin << 7), a & 1),
    };
    (res, (f_in & (SF | ZF | PF)) | (res & (XF | YF)) | cout)
}

/// BIT n,v. `xy_src` supplies F3/F5 (the register itself, or the high byte of MEMPTR / IX+d).
pub fn bit(n: u8, v: u8, xy_src: u8, f_in: u8) -> u8 {
    let t = v & (1 << n);
    (f_in & CF) | HF | flag(t == 0, ZF | PF) | (t & SF) | (xy_src & (XF | YF))
}

/// ADD HL,rr: S, Z, PV preserved; H = carry from bit 11; C = carry from bit 15; F3/F5 from high byte.
pub fn add16(hl: u16, v: u16, f_in: u8) -> (u16, u8) {
    let wide = hl as u32 + v as u32;
    let res = wide as u16;
    let f = (f_in & (SF | ZF | PF))
        | ((((hl ^ v ^ res) >> 8) as u8) & HF)
        | (((res >> 8) as u8) & (XF | YF))
        | flag(wide > 0xFFFF, CF);
    (res, f)
}

pub fn adc16(hl: u16, v: u16, carry_in: bool) -> (u16, u8) {
    let wide = hl as u32 + v as u32 + carry_in as u32;
    let res = wide as u16;
    let hi = (res >> 8) as u8;
    let f = (hi & (SF | XF | YF))
        | flag(res == 0, ZF)
        | ((((hl ^ v ^ res) >> 8) as u8) & HF)
        | flag((hl ^ res) & (v ^ res) & 0x8000 != 0, PF)
        | flag(wide > 0xFFFF, CF);
    (res, f)
}

pub fn sbc16(hl: u16, v: u16, carry_in: bool) -> (u16, u8) {
    let wide = (hl as u32).wrapping_sub(v as u32).wrapping_sub(carry_in as u32);
    let res = wide as u16;
    let hi = (res >> 8) as u8;
    let f = (hi & (SF | XF | YF))
        | flag(res == 0, ZF)
        | ((((hl ^ v ^ res) >> 8) as u8) & HF)
        | flag((hl ^ v) & (hl ^ res) & 0x8000 != 0, PF)
        | NF
        | flag(wide > 0xFFFF, CF);
    (res, f)
}
