//! The unprefixed opcode table. DD/FD-prefixed opcodes share it: `idx` selects which
//! register plays the role of HL (HL, IX or IY).
//!
//! Index rules: an opcode that addresses memory through (HL) addresses (IX+d) instead and its
//! H/L *register* operand (if any) stays H/L; every other use of H, L or HL is replaced by
//! IXH, IXL, IX. EX DE,HL and EXX are not affected. Opcodes that do not involve HL at all
//! execute unchanged.
//!
//! The machine-cycle breakdown (the bus calls and the address carried by each delay) follows
//! the per-instruction tables of the ZX Spectrum contention documentation.

use crate::alu::*;
use crate::{Index, RBus, RefZ80};

impl RefZ80 {
    /// HL, IX or IY.
    #[inline]
    fn xy(&self, idx: Index) -> u16 {
        match idx {
            Index::HL => self.hl(),
            Index::IX => self.ix,
            Index::IY => self.iy,
        }
    }

    #[inline]
    fn set_xy(&mut self, idx: Index, v: u16) {
        match idx {
            Index::HL => self.set_hl(v),
            Index::IX => self.ix = v,
            Index::IY => self.iy = v,
        }
    }

    /// 8-bit register by its 3-bit code (B C D E H L - A). Code 6 is never passed here.
    /// With `idx` != HL, codes 4/5 mean the high/low half of IX/IY.
    #[inline]
    pub(crate) fn reg8(&self, code: u8, idx: Index) -> u8 {
        match code & 7 {
            0 => self.b,
            1 => self.c,
            2 => self.d,
            3 => self.e,
            4 => (self.xy(idx) >> 8) as u8,
            5 => self.xy(idx) as u8,
            7 => self.a,
            _ => unreachable!("register code 6 is (HL)"),
        }
    }

    #[inline]
    pub(crate) fn set_reg8(&mut self, code: u8, idx: Index, v: u8) {
        match code & 7 {
            0 => self.b = v,
            1 => self.c = v,
            2 => self.d = v,
            3 => self.e = v,
            4 => {
                let x = self.xy(idx);
                self.set_xy(idx, (x & 0x00FF) | ((v as u16) << 8));
            }
            5 => {
                let x = self.xy(idx);
                self.set_xy(idx, (x & 0xFF00) | v as u16);
            }
            7 => self.a = v,
            _ => unreachable!("register code 6 is (HL)"),
        }
    }

    /// Register pair by bits 5..4 of the opcode: BC DE HL SP (HL replaced by IX/IY).
    #[inline]
    fn rp(&self, code: u8, idx: Index) -> u16 {
        match code & 3 {
            0 => self.bc(),
            1 => self.de(),
            2 => self.xy(idx),
            _ => self.sp,
        }
    }

    #[inline]
    fn set_rp(&mut self, code: u8, idx: Index, v: u16) {
        match code & 3 {
            0 => self.set_bc(v),
            1 => self.set_de(v),
            2 => self.set_xy(idx, v),
            _ => self.sp = v,
        }
    }

    /// Address of the (HL) / (IX+d) memory operand for the "normal" operand forms.
    /// Indexed: read(pc) = d, then 5 T with the address of the displacement byte still on
    /// the bus, then PC moves on. Any (IX+d) access sets MEMPTR = IX+d.
    #[inline]
    fn operand_addr<B: RBus>(&mut self, bus: &mut B, idx: Index) -> u16 {
        match idx {
            Index::HL => self.hl(),
            _ => {
                let d = bus.read(self.pc) as i8;
                bus.delay(self.pc, 5);
                self.pc = self.pc.wrapping_add(1);
                let addr = self.xy(idx).wrapping_add(d as i16 as u16);
                self.memptr = addr;
                addr
            }
        }
    }

    /// The eight accumulator operations ADD ADC SUB SBC AND XOR OR CP (bits 5..3).
    #[inline]
    fn alu_a(&mut self, kind: u8, v: u8) {
        let carry = self.f & CF != 0;
        let (res, f) = match kind & 7 {
            0 => add8(self.a, v, false),
            1 => add8(self.a, v, carry),
            2 => sub8(self.a, v, false),
            3 => sub8(self.a, v, carry),
            4 => and8(self.a, v),
            5 => xor8(self.a, v),
            6 => or8(self.a, v),
            _ => (self.a, cp8(self.a, v)),
        };
        self.a = res;
        self.set_f(f);
    }

    /// Relative jump taken: 5 T with the displacement byte's address on the bus, then
    /// PC = PC + 1 + e. MEMPTR = target.
    #[inline]
    fn jr_taken<B: RBus>(&mut self, bus: &mut B, e: u8) {
        bus.delay(self.pc, 5);
        self.pc = self.pc.wrapping_add(1).wrapping_add(e as i8 as i16 as u16);
        self.memptr = self.pc;
    }

    /// Executes the opcode `op` (already fetched; PC points past it) from the unprefixed table.
    /// `q_in` is the Q latch as it was on entry to the instruction.
    pub(crate) fn exec_main<B: RBus>(&mut self, bus: &mut B, op: u8, idx: Index, q_in: u8) {
        match op {
            // ---------------------------------------------------------------- 0x00 - 0x3F
            0x00 => {} // NOP: m1

            // LD rr,nn: m1, read(pc+1), read(pc+2)
            0x01 | 0x11 | 0x21 | 0x31 => {
                let nn = self.imm16(bus);
                self.set_rp(op >> 4, idx, nn);
            }

            // LD (BC),A / LD (DE),A: m1, write(rr). MEMPTR = A : (rr+1)&0xFF
            0x02 | 0x12 => {
                let addr = if op == 0x02 { self.bc() } else { self.de() };
                bus.write(addr, self.a);
                self.memptr = u16::from_be_bytes([self.a, (addr as u8).wrapping_add(1)]);
            }

            // LD A,(BC) / LD A,(DE): m1, read(rr). MEMPTR = rr+1
            0x0A | 0x1A => {
                let addr = if op == 0x0A { self.bc() } else { self.de() };
                self.a = bus.read(addr);
                self.memptr = addr.wrapping_add(1);
            }

            // INC rr: m1, delay(IR,2)
            0x03 | 0x13 | 0x23 | 0x33 => {
                bus.delay(self.ir(), 2);
                let v = self.rp(op >> 4, idx).wrapping_add(1);
                self.set_rp(op >> 4, idx, v);
            }

            // DEC rr: m1, delay(IR,2)
            0x0B | 0x1B | 0x2B | 0x3B => {
                bus.delay(self.ir(), 2);
                let v = self.rp(op >> 4, idx).wrapping_sub(1);
                self.set_rp(op >> 4, idx, v);
            }

            // INC r / DEC r: m1
            0x04 | 0x0C | 0x14 | 0x1C | 0x24 | 0x2C | 0x3C => {
                let r = op >> 3;
                let (res, f) = inc8(self.reg8(r, idx), self.f);
                self.set_reg8(r, idx, res);
                self.set_f(f);
            }
            0x05 | 0x0D | 0x15 | 0x1D | 0x25 | 0x2D | 0x3D => {
                let r = op >> 3;
                let (res, f) = dec8(self.reg8(r, idx), self.f);
                self.set_reg8(r, idx, res);
                self.set_f(f);
            }

            // INC (HL) / DEC (HL): m1, read(hl), delay(hl,1), write(hl)
            // INC (IX+d): m1 m1 read(pc+2) delay(pc+2,5) read(ix+d) delay(ix+d,1) write(ix+d)
            0x34 | 0x35 => {
                let addr = self.operand_addr(bus, idx);
                let v = bus.read(addr);
                bus.delay(addr, 1);
                let (res, f) = if op == 0x34 { inc8(v, self.f) } else { dec8(v, self.f) };
                bus.write(addr, res);
                self.set_f(f);
            }

            // LD r,n: m1, read(pc+1)
            0x06 | 0x0E | 0x16 | 0x1E | 0x26 | 0x2E | 0x3E => {
                let n = self.imm8(bus);
                self.set_reg8(op >> 3, idx, n);
            }

            // LD (HL),n: m1, read(pc+1), write(hl)
            // LD (IX+d),n: m1 m1 read(pc+2) read(pc+3) delay(pc+3,2) write(ix+d)
            0x36 => match idx {
                Index::HL => {
                    let n = self.imm8(bus);
                    bus.write(self.hl(), n);
                }
                _ => {
                    let d = self.imm8(bus) as i8;
                    let n = bus.read(self.pc);
                    bus.delay(self.pc, 2);
                    self.pc = self.pc.wrapping_add(1);
                    let addr = self.xy(idx).wrapping_add(d as i16 as u16);
                    self.memptr = addr;
                    bus.write(addr, n);
                }
            },

            // RLCA RRCA RLA RRA: m1
            0x07 | 0x0F | 0x17 | 0x1F => {
                let (res, f) = rot_a(op >> 3, self.a, self.f);
                self.a = res;
                self.set_f(f);
            }

            // EX AF,AF': m1. F is loaded, not computed: Q stays 0.
            0x08 => {
                std::mem::swap(&mut self.a, &mut self.a_);
                std::mem::swap(&mut self.f, &mut self.f_);
            }

            // ADD HL,rr: m1, delay(IR,7). MEMPTR = HL(before)+1
            0x09 | 0x19 | 0x29 | 0x39 => {
                bus.delay(self.ir(), 7);
                let hl = self.xy(idx);
                let v = self.rp(op >> 4, idx);
                let (res, f) = add16(hl, v, self.f);
                self.memptr = hl.wrapping_add(1);
                self.set_xy(idx, res);
                self.set_f(f);
            }

            // DJNZ e: m1, delay(IR,1), read(pc+1), [delay(pc+1,5)]
            0x10 => {
                bus.delay(self.ir(), 1);
                let e = bus.read(self.pc);
                self.b = self.b.wrapping_sub(1);
                if self.b != 0 {
                    self.jr_taken(bus, e);
                } else {
                    self.pc = self.pc.wrapping_add(1);
                }
            }

            // JR e: m1, read(pc+1), delay(pc+1,5)
            0x18 => {
                let e = bus.read(self.pc);
                self.jr_taken(bus, e);
            }

            // JR cc,e (NZ Z NC C): m1, read(pc+1), [delay(pc+1,5)]
            0x20 | 0x28 | 0x30 | 0x38 => {
                let e = bus.read(self.pc);
                if self.cond((op >> 3) & 3) {
                    self.jr_taken(bus, e);
                } else {
                    self.pc = self.pc.wrapping_add(1);
                }
            }

            // LD (nn),HL: m1, read, read, write(nn), write(nn+1). MEMPTR = nn+1
            0x22 => {
                let nn = self.imm16(bus);
                let [hi, lo] = self.xy(idx).to_be_bytes();
                bus.write(nn, lo);
                bus.write(nn.wrapping_add(1), hi);
                self.memptr = nn.wrapping_add(1);
            }

            // LD HL,(nn): m1, read, read, read(nn), read(nn+1). MEMPTR = nn+1
            0x2A => {
                let nn = self.imm16(bus);
                let lo = bus.read(nn);
                let hi = bus.read(nn.wrapping_add(1));
                self.set_xy(idx, u16::from_le_bytes([lo, hi]));
                self.memptr = nn.wrapping_add(1);
            }

            // LD (nn),A: m1, read, read, write(nn). MEMPTR = A : (nn+1)&0xFF
            0x32 => {
                let nn = self.imm16(bus);
                bus.write(nn, self.a);
                self.memptr = u16::from_be_bytes([self.a, (nn as u8).wrapping_add(1)]);
            }

            // LD A,(nn): m1, read, read, read(nn). MEMPTR = nn+1
            0x3A => {
                let nn = self.imm16(bus);
                self.a = bus.read(nn);
                self.memptr = nn.wrapping_add(1);
            }

            // DAA: m1
            0x27 => {
                let (res, f) = daa(self.a, self.f);
                self.a = res;
                self.set_f(f);
            }

            // CPL: m1. H = N = 1, F3/F5 from A, rest preserved.
            0x2F => {
                self.a = !self.a;
                let f = (self.f & (SF | ZF | PF | CF)) | HF | NF | (self.a & (XF | YF));
                self.set_f(f);
            }

            // SCF: m1. NMOS Zilog: F3/F5 = bits 3,5 of ((Q ^ F) | A), Q as at entry.
            0x37 => {
                let xy = ((q_in ^ self.f) | self.a) & (XF | YF);
                let f = (self.f & (SF | ZF | PF)) | xy | CF;
                self.set_f(f);
            }

            // CCF: m1. H = old C, C inverted, F3/F5 as for SCF.
            0x3F => {
                let xy = ((q_in ^ self.f) | self.a) & (XF | YF);
                let old_c = self.f & CF;
                let f = (self.f & (SF | ZF | PF)) | xy | (if old_c != 0 { HF } else { CF });
                self.set_f(f);
            }

            // ---------------------------------------------------------------- 0x40 - 0x7F
            // HALT: m1. `halted` set; PC is left at the HALT opcode's own address.
            0x76 => {
                self.halted = true;
                self.pc = self.pc.wrapping_sub(1);
            }

            // LD r,(HL): m1, read(hl)   /   LD r,(IX+d): m1 m1 read(pc+2) delay(pc+2,5) read(ix+d)
            // The destination is the plain register even under DD/FD (LD H,(IX+d)).
            0x46 | 0x4E | 0x56 | 0x5E | 0x66 | 0x6E | 0x7E => {
                let addr = self.operand_addr(bus, idx);
                let v = bus.read(addr);
                self.set_reg8(op >> 3, Index::HL, v);
            }

            // LD (HL),r: m1, write(hl)  /   LD (IX+d),r: m1 m1 read(pc+2) delay(pc+2,5) write(ix+d)
            // The source is the plain register even under DD/FD (LD (IX+d),L).
            0x70 | 0x71 | 0x72 | 0x73 | 0x74 | 0x75 | 0x77 => {
                let addr = self.operand_addr(bus, idx);
                let v = self.reg8(op, Index::HL);
                bus.write(addr, v);
            }

            // LD r,r': m1. Under DD/FD both H/L operands become IXH/IXL.
            0x40..=0x7F => {
                let v = self.reg8(op, idx);
                self.set_reg8(op >> 3, idx, v);
            }

            // ---------------------------------------------------------------- 0x80 - 0xBF
            // ALU A,(HL): m1, read(hl)  /  ALU A,(IX+d): m1 m1 read(pc+2) delay(pc+2,5) read(ix+d)
            0x86 | 0x8E | 0x96 | 0x9E | 0xA6 | 0xAE | 0xB6 | 0xBE => {
                let addr = self.operand_addr(bus, idx);
                let v = bus.read(addr);
                self.alu_a(op >> 3, v);
            }

            // ALU A,r: m1
            0x80..=0xBF => {
                let v = self.reg8(op, idx);
                self.alu_a(op >> 3, v);
            }

            // ---------------------------------------------------------------- 0xC0 - 0xFF
            // RET cc: m1, delay(IR,1), [read(sp), read(sp+1)]. MEMPTR = PC when taken.
            0xC0 | 0xC8 | 0xD0 | 0xD8 | 0xE0 | 0xE8 | 0xF0 | 0xF8 => {
                bus.delay(self.ir(), 1);
                if self.cond(op >> 3) {
                    self.pc = self.pop16(bus);
                    self.memptr = self.pc;
                }
            }

            // POP rr: m1, read(sp), read(sp+1)
            0xC1 => {
                let v = self.pop16(bus);
                self.set_bc(v);
            }
            0xD1 => {
                let v = self.pop16(bus);
                self.set_de(v);
            }
            0xE1 => {
                let v = self.pop16(bus);
                self.set_xy(idx, v);
            }
            // POP AF: F is loaded, not computed: Q stays 0.
            0xF1 => {
                let v = self.pop16(bus);
                [self.a, self.f] = v.to_be_bytes();
            }

            // JP cc,nn: m1, read, read. MEMPTR = nn whether taken or not.
            0xC2 | 0xCA | 0xD2 | 0xDA | 0xE2 | 0xEA | 0xF2 | 0xFA => {
                let nn = self.imm16(bus);
                self.memptr = nn;
                if self.cond(op >> 3) {
                    self.pc = nn;
                }
            }

            // JP nn: m1, read, read. MEMPTR = nn
            0xC3 => {
                let nn = self.imm16(bus);
                self.memptr = nn;
                self.pc = nn;
            }

            // CALL cc,nn: m1, read, read, [delay(pc+2,1), write(sp-1), write(sp-2)].
            // MEMPTR = nn whether taken or not.
            0xC4 | 0xCC | 0xD4 | 0xDC | 0xE4 | 0xEC | 0xF4 | 0xFC => {
                let nn = self.imm16(bus);
                self.memptr = nn;
                if self.cond(op >> 3) {
                    bus.delay(self.pc.wrapping_sub(1), 1);
                    let ret = self.pc;
                    self.push16(bus, ret);
                    self.pc = nn;
                }
            }

            // CALL nn: m1, read, read, delay(pc+2,1), write(sp-1), write(sp-2). MEMPTR = nn
            0xCD => {
                let nn = self.imm16(bus);
                self.memptr = nn;
                bus.delay(self.pc.wrapping_sub(1), 1);
                let ret = self.pc;
                self.push16(bus, ret);
                self.pc = nn;
            }

            // PUSH rr: m1, delay(IR,1), write(sp-1), write(sp-2)
            0xC5 | 0xD5 | 0xE5 | 0xF5 => {
                bus.delay(self.ir(), 1);
                let v = match op {
                    0xC5 => self.bc(),
                    0xD5 => self.de(),
                    0xE5 => self.xy(idx),
                    _ => self.af(),
                };
                self.push16(bus, v);
            }

            // ALU A,n: m1, read(pc+1)
            0xC6 | 0xCE | 0xD6 | 0xDE | 0xE6 | 0xEE | 0xF6 | 0xFE => {
                let n = self.imm8(bus);
                self.alu_a(op >> 3, n);
            }

            // RST p: m1, delay(IR,1), write(sp-1), write(sp-2). MEMPTR = p
            0xC7 | 0xCF | 0xD7 | 0xDF | 0xE7 | 0xEF | 0xF7 | 0xFF => {
                bus.delay(self.ir(), 1);
                let ret = self.pc;
                self.push16(bus, ret);
                self.pc = (op & 0x38) as u16;
                self.memptr = self.pc;
            }

            // RET: m1, read(sp), read(sp+1). MEMPTR = PC
            0xC9 => {
                self.pc = self.pop16(bus);
                self.memptr = self.pc;
            }

            // OUT (n),A: m1, read(pc+1), output(A:n). MEMPTR = A : (n+1)&0xFF
            0xD3 => {
                let n = self.imm8(bus);
                bus.output(u16::from_be_bytes([self.a, n]), self.a);
                self.memptr = u16::from_be_bytes([self.a, n.wrapping_add(1)]);
            }

            // IN A,(n): m1, read(pc+1), input(A:n). MEMPTR = (A:n)+1. No flags.
            0xDB => {
                let n = self.imm8(bus);
                let port = u16::from_be_bytes([self.a, n]);
                self.a = bus.input(port);
                self.memptr = port.wrapping_add(1);
            }

            // EXX: m1 (never affected by DD/FD)
            0xD9 => {
                std::mem::swap(&mut self.b, &mut self.b_);
                std::mem::swap(&mut self.c, &mut self.c_);
                std::mem::swap(&mut self.d, &mut self.d_);
                std::mem::swap(&mut self.e, &mut self.e_);
                std::mem::swap(&mut self.h, &mut self.h_);
                std::mem::swap(&mut self.l, &mut self.l_);
            }

            // EX (SP),HL: m1, read(sp), read(sp+1), delay(sp+1,1), write(sp+1), write(sp),
            // delay(sp,2). MEMPTR = new HL.
            0xE3 => {
                let sp = self.sp;
                let sp1 = sp.wrapping_add(1);
                let lo = bus.read(sp);
                let hi = bus.read(sp1);
                bus.delay(sp1, 1);
                let [old_hi, old_lo] = self.xy(idx).to_be_bytes();
                bus.write(sp1, old_hi);
                bus.write(sp, old_lo);
                bus.delay(sp, 2);
                let v = u16::from_le_bytes([lo, hi]);
                self.set_xy(idx, v);
                self.memptr = v;
            }

            // JP (HL): m1. MEMPTR unchanged.
            0xE9 => {
                self.pc = self.xy(idx);
            }

            // EX DE,HL: m1 (never affected by DD/FD)
            0xEB => {
                std::mem::swap(&mut self.d, &mut self.h);
                std::mem::swap(&mut self.e, &mut self.l);
            }

            // DI / EI: m1. Both block interrupt acceptance at the next boundary (`no_int`).
            0xF3 => {
                self.iff1 = false;
                self.iff2 = false;
                self.no_int = true;
            }
            0xFB => {
                self.iff1 = true;
                self.iff2 = true;
                self.no_int = true;
            }

            // LD SP,HL: m1, delay(IR,2)
            0xF9 => {
                bus.delay(self.ir(), 2);
                self.sp = self.xy(idx);
            }

            // Prefixes never reach this function (handled by `step`).
            0xCB | 0xDD | 0xED | 0xFD => unreachable!("prefix byte {op:02X} in exec_main"),
        }
    }
}
