//! Self-checks of the reference model that do not depend on the big test suites:
//!  * T-state totals of every unprefixed / CB / ED / DD / FD / DDCB / FDCB opcode, taken and
//!    not taken, against timing tables written down here from the documented numbers
//!    (independently of the bus-cycle code in the model);
//!  * event-by-event bus traces of the instructions SPEC.md lists as tricky;
//!  * MEMPTR, Q, R and interrupt spot checks.

use refz80::{Index, RBus, RefZ80, StepKind, Table};

#[derive(Clone, Debug, PartialEq, Eq)]
enum Ev {
    M1(u16),
    Rd(u16),
    Wr(u16, u8),
    Dl(u16, u32),
    In(u16),
    Out(u16, u8),
    Ack(u32),
}

struct TBus {
    mem: Vec<u8>,
    t: u64,
    ev: Vec<Ev>,
    int: bool,
    nmi: bool,
    vector: u8,
    in_val: u8,
}

impl TBus {
    fn new() -> Self {
        TBus { mem: vec![0; 0x10000], t: 0, ev: Vec::new(), int: false, nmi: false, vector: 0xFF, in_val: 0xFF }
    }
    fn put(&mut self, addr: u16, bytes: &[u8]) {
        for (i, b) in bytes.iter().enumerate() {
            self.mem[addr.wrapping_add(i as u16) as usize] = *b;
        }
    }
}

impl RBus for TBus {
    fn m1(&mut self, addr: u16) -> u8 {
        self.t += 4;
        self.ev.push(Ev::M1(addr));
        self.mem[addr as usize]
    }
    fn read(&mut self, addr: u16) -> u8 {
        self.t += 3;
        self.ev.push(Ev::Rd(addr));
        self.mem[addr as usize]
    }
    fn write(&mut self, addr: u16, val: u8) {
        self.t += 3;
        self.ev.push(Ev::Wr(addr, val));
        self.mem[addr as usize] = val;
    }
    fn delay(&mut self, addr: u16, t: u32) {
        assert!(t >= 1);
        self.t += t as u64;
        self.ev.push(Ev::Dl(addr, t));
    }
    fn input(&mut self, port: u16) -> u8 {
        self.t += 4;
        self.ev.push(Ev::In(port));
        self.in_val
    }
    fn output(&mut self, port: u16, val: u8) {
        self.t += 4;
        self.ev.push(Ev::Out(port, val));
    }
    fn ack(&mut self, t: u32) {
        self.t += t as u64;
        self.ev.push(Ev::Ack(t));
    }
    fn int_vector(&mut self) -> u8 {
        self.vector
    }
    fn int_line(&mut self) -> bool {
        self.int
    }
    fn nmi_take(&mut self) -> bool {
        std::mem::take(&mut self.nmi)
    }
}

const PC0: u16 = 0x1000;

/// A CPU in a generic state: registers chosen so that no two address sources coincide.
fn cpu0() -> RefZ80 {
    let mut c = RefZ80::new();
    c.pc = PC0;
    c.sp = 0x8000;
    c.a = 0x12;
    c.b = 0x03;
    c.c = 0x45;
    c.d = 0x50;
    c.e = 0x10;
    c.h = 0x60;
    c.l = 0x20;
    c.ix = 0x7000;
    c.iy = 0x7800;
    c.i = 0x3F;
    c.r = 0x10;
    c
}

/// Runs prefix steps + the instruction; returns (T-states, last StepInfo).
fn run_one(c: &mut RefZ80, bus: &mut TBus) -> (u64, refz80::StepInfo) {
    let t0 = bus.t;
    loop {
        let info = c.step(bus);
        if info.kind != StepKind::Prefix {
            return (bus.t - t0, info);
        }
    }
}

// ------------------------------------------------------------------------------------------
// Documented timings, written as data. Conditional entries are (not taken, taken).

fn cc_true(cc: u8, f: u8) -> bool {
    let (z, cy, pv, s) = (f & 0x40 != 0, f & 0x01 != 0, f & 0x04 != 0, f & 0x80 != 0);
    [!z, z, !cy, cy, !pv, pv, !s, s][cc as usize & 7]
}

/// Unprefixed opcode timing from the Zilog manual. `b_after` is B after DJNZ's decrement.
fn t_main(op: u8, f: u8, b_after: u8) -> u32 {
    #[rustfmt::skip]
    const BASE: [u8; 256] = [
    //  0   1   2   3   4   5   6   7   8   9   A   B   C   D   E   F
        4, 10,  7,  6,  4,  4,  7,  4,  4, 11,  7,  6,  4,  4,  7,  4, // 0
        0, 10,  7,  6,  4,  4,  7,  4, 12, 11,  7,  6,  4,  4,  7,  4, // 1
        0, 10, 16,  6,  4,  4,  7,  4,  0, 11, 16,  6,  4,  4,  7,  4, // 2
        0, 10, 13,  6, 11, 11, 10,  4,  0, 11, 13,  6,  4,  4,  7,  4, // 3
        4,  4,  4,  4,  4,  4,  7,  4,  4,  4,  4,  4,  4,  4,  7,  4, // 4
        4,  4,  4,  4,  4,  4,  7,  4,  4,  4,  4,  4,  4,  4,  7,  4, // 5
        4,  4,  4,  4,  4,  4,  7,  4,  4,  4,  4,  4,  4,  4,  7,  4, // 6
        7,  7,  7,  7,  7,  7,  4,  7,  4,  4,  4,  4,  4,  4,  7,  4, // 7
        4,  4,  4,  4,  4,  4,  7,  4,  4,  4,  4,  4,  4,  4,  7,  4, // 8
        4,  4,  4,  4,  4,  4,  7,  4,  4,  4,  4,  4,  4,  4,  7,  4, // 9
        4,  4,  4,  4,  4,  4,  7,  4,  4,  4,  4,  4,  4,  4,  7,  4, // A
        4,  4,  4,  4,  4,  4,  7,  4,  4,  4,  4,  4,  4,  4,  7,  4, // B
        0, 10, 10, 10,  0, 11,  7, 11,  0, 10, 10,  0,  0, 17,  7, 11, // C
        0, 10, 10, 11,  0, 11,  7, 11,  0,  4, 10, 11,  0,  0,  7, 11, // D
        0, 10, 10, 19,  0, 11,  7, 11,  0,  4, 10,  4,  0,  0,  7, 11, // E
        0, 10, 10,  4,  0, 11,  7, 11,  0,  6, 10,  4,  0,  0,  7, 11, // F
    ];
    match op {
        0x10 => {
            if b_after != 0 {
                13
            } else {
                8
            }
        }
        0x20 | 0x28 | 0x30 | 0x38 => {
            if cc_true((op >> 3) & 3, f) {
                12
            } else {
                7
            }
        }
        0xC0 | 0xC8 | 0xD0 | 0xD8 | 0xE0 | 0xE8 | 0xF0 | 0xF8 => {
            if cc_true(op >> 3, f) {
                11
            } else {
                5
            }
        }
        0xC4 | 0xCC | 0xD4 | 0xDC | 0xE4 | 0xEC | 0xF4 | 0xFC => {
            if cc_true(op >> 3, f) {
                17
            } else {
                10
            }
        }
        0xCB | 0xDD | 0xED | 0xFD => panic!("prefix"),
        _ => BASE[op as usize] as u32,
    }
}

/// DD/FD-prefixed timing: the prefix costs 4; forms that turn (HL) into (IX+d) cost a further
/// 8 (displacement fetch + address arithmetic), except LD (IX+d),n where the arithmetic
/// overlaps the immediate fetch (19 in total).
fn t_indexed(op: u8, f: u8, b_after: u8) -> u32 {
    match op {
        0x34 | 0x35 => 23,
        0x36 => 19,
        0x46 | 0x4E | 0x56 | 0x5E | 0x66 | 0x6E | 0x7E => 19,
        0x70..=0x75 | 0x77 => 19,
        0x86 | 0x8E | 0x96 | 0x9E | 0xA6 | 0xAE | 0xB6 | 0xBE => 19,
        _ => 4 + t_main(op, f, b_after),
    }
}

fn t_cb(op: u8) -> u32 {
    if op & 7 != 6 {
        8
    } else if (0x40..=0x7F).contains(&op) {
        12
    } else {
        15
    }
}

fn t_xycb(op: u8) -> u32 {
    if (0x40..=0x7F).contains(&op) {
        20
    } else {
        23
    }
}

/// ED page; `repeats` tells whether a block instruction goes round again.
fn t_ed(op: u8, repeats: bool) -> u32 {
    match op {
        0x40..=0x7F => match op & 0x0F {
            0x0 | 0x1 | 0x8 | 0x9 => 12,
            0x2 | 0xA => 15,
            0x3 | 0xB => 20,
            0x4 | 0xC => 8,
            0x5 | 0xD => 14,
            0x6 | 0xE => 8,
            _ => match op {
                0x47 | 0x4F | 0x57 | 0x5F => 9,
                0x67 | 0x6F => 18,
                _ => 8, // ED 77, ED 7F
            },
        },
        0xA0..=0xA3 | 0xA8..=0xAB => 16,
        0xB0..=0xB3 | 0xB8..=0xBB => {
            if repeats {
                21
            } else {
                16
            }
        }
        _ => 8,
    }
}

// ------------------------------------------------------------------------------------------

#[test]
fn tstates_unprefixed_and_indexed() {
    for prefix in [None, Some(0xDDu8), Some(0xFD)] {
        for op in 0..=255u8 {
            if matches!(op, 0xCB | 0xDD | 0xED | 0xFD) {
                continue;
            }
            for f in [0x00u8, 0xFF] {
                for b in [1u8, 2] {
                    let mut c = cpu0();
                    c.f = f;
                    c.b = b;
                    let mut bus = TBus::new();
                    match prefix {
                        None => bus.put(PC0, &[op, 0x05, 0x90, 0x00]),
                        Some(p) => bus.put(PC0, &[p, op, 0x05, 0x90, 0x00]),
                    }
                    let (t, info) = run_one(&mut c, &mut bus);
                    let want = match prefix {
                        None => t_main(op, f, b - 1),
                        Some(_) => t_indexed(op, f, b - 1),
                    };
                    assert_eq!(t as u32, want, "prefix {prefix:02X?} op {op:02X} f {f:02X} b {b}");
                    assert_eq!(info.kind, StepKind::Instr);
                    assert_eq!(info.opcode, op);
                    let table = match prefix {
                        None => Table::None_,
                        Some(0xDD) => Table::DD,
                        _ => Table::FD,
                    };
                    assert_eq!(info.table, table);
                    assert_eq!(c.index, Index::HL);
                }
            }
        }
    }
}

#[test]
fn tstates_cb_and_xycb() {
    for op in 0..=255u8 {
        let mut c = cpu0();
        let mut bus = TBus::new();
        bus.put(PC0, &[0xCB, op]);
        let (t, info) = run_one(&mut c, &mut bus);
        assert_eq!(t as u32, t_cb(op), "CB {op:02X}");
        assert_eq!((info.table, info.opcode), (Table::CB, op));
        assert_eq!(c.pc, PC0 + 2);

        for (p, table) in [(0xDD, Table::DDCB), (0xFD, Table::FDCB)] {
            let mut c = cpu0();
            let mut bus = TBus::new();
            bus.put(PC0, &[p, 0xCB, 0x05, op]);
            let (t, info) = run_one(&mut c, &mut bus);
            assert_eq!(t as u32, t_xycb(op), "{p:02X} CB d {op:02X}");
            assert_eq!((info.table, info.opcode), (table, op));
            assert_eq!(c.pc, PC0 + 4);
            // DDCB: exactly two R increments
            assert_eq!(c.r, 0x12);
        }
    }
}

#[test]
fn tstates_ed() {
    for op in 0..=255u8 {
        // BC values that make block instructions stop or repeat: LDxR/CPxR repeat while BC-1 != 0,
        // INxR/OTxR while B-1 != 0 (so B = 0 wraps to 0xFF and repeats)
        for (bc, expect_repeat_ld, expect_repeat_io) in [(0x0001u16, false, true), (0x0203, true, true), (0x0100, true, false)] {
            for f in [0x00u8, 0xFF] {
                let mut c = cpu0();
                c.f = f;
                c.set_bc(bc);
                let mut bus = TBus::new();
                bus.put(PC0, &[0xED, op, 0x00, 0x90]);
                bus.mem[c.hl() as usize] = 0x77; // != A so CPIR keeps going while BC != 0
                let (t, info) = run_one(&mut c, &mut bus);
                let is_io = matches!(op, 0xB2 | 0xB3 | 0xBA | 0xBB);
                let is_rep = matches!(op, 0xB0 | 0xB1 | 0xB8 | 0xB9) || is_io;
                let repeats = is_rep && if is_io { expect_repeat_io } else { expect_repeat_ld };
                assert_eq!(t as u32, t_ed(op, repeats), "ED {op:02X} bc {bc:04X}");
                assert_eq!((info.table, info.opcode, info.repeated), (Table::ED, op, repeats), "ED {op:02X}");
                if repeats {
                    assert_eq!(c.pc, PC0);
                }
                // undefined ED opcodes: two-byte NOPs, nothing but PC and R changes, Q = 0
                let defined = matches!(op, 0x40..=0x7F | 0xA0..=0xA3 | 0xA8..=0xAB | 0xB0..=0xB3 | 0xB8..=0xBB);
                if !defined || op == 0x77 || op == 0x7F {
                    let mut want = cpu0();
                    want.f = f;
                    want.set_bc(bc);
                    want.pc = PC0 + 2;
                    want.r = 0x12;
                    assert_eq!(c, want, "ED {op:02X} must be a NOP");
                }
            }
        }
    }
    // CPIR stops on match even with BC != 0
    let mut c = cpu0();
    c.set_bc(0x0010);
    let mut bus = TBus::new();
    bus.put(PC0, &[0xED, 0xB1]);
    bus.mem[c.hl() as usize] = c.a;
    let (t, info) = run_one(&mut c, &mut bus);
    assert_eq!((t, info.repeated), (16, false));
    // DD ED xx: the prefix is ignored, costs 4
    let mut c = cpu0();
    let mut bus = TBus::new();
    bus.put(PC0, &[0xDD, 0xED, 0x6A]); // ADC HL,HL
    let (t, info) = run_one(&mut c, &mut bus);
    assert_eq!((t, info.table), (19, Table::ED));
    assert_eq!(c.hl(), 0xC040);
    assert_eq!(c.ix, 0x7000);
}

// ------------------------------------------------------------------------------------------
// Bus traces

fn trace(setup: impl FnOnce(&mut RefZ80), code: &[u8]) -> (RefZ80, Vec<Ev>) {
    let mut c = cpu0();
    setup(&mut c);
    let mut bus = TBus::new();
    bus.put(PC0, code);
    run_one(&mut c, &mut bus);
    (c, bus.ev)
}

use Ev::*;

#[test]
fn trace_internal_cycle_instructions() {
    // R starts at 0x10; IR after one M1 = 0x3F11, after two = 0x3F12
    let (_, ev) = trace(|_| {}, &[0x09]); // ADD HL,BC
    assert_eq!(ev, [M1(PC0), Dl(0x3F11, 7)]);
    let (_, ev) = trace(|_| {}, &[0x03]); // INC BC
    assert_eq!(ev, [M1(PC0), Dl(0x3F11, 2)]);
    let (_, ev) = trace(|_| {}, &[0xF9]); // LD SP,HL
    assert_eq!(ev, [M1(PC0), Dl(0x3F11, 2)]);
    let (_, ev) = trace(|_| {}, &[0xED, 0x4A]); // ADC HL,BC
    assert_eq!(ev, [M1(PC0), M1(PC0 + 1), Dl(0x3F12, 7)]);
    let (_, ev) = trace(|_| {}, &[0xED, 0x57]); // LD A,I
    assert_eq!(ev, [M1(PC0), M1(PC0 + 1), Dl(0x3F12, 1)]);
    let (_, ev) = trace(|_| {}, &[0xDD, 0x09]); // ADD IX,BC
    assert_eq!(ev, [M1(PC0), M1(PC0 + 1), Dl(0x3F12, 7)]);
}

#[test]
fn trace_memory_operand_forms() {
    let (_, ev) = trace(|_| {}, &[0x34]); // INC (HL)
    assert_eq!(ev, [M1(PC0), Rd(0x6020), Dl(0x6020, 1), Wr(0x6020, 1)]);
    let (_, ev) = trace(|_| {}, &[0xDD, 0x36, 0x05, 0xAB]); // LD (IX+5),0xAB
    assert_eq!(ev, [M1(PC0), M1(PC0 + 1), Rd(PC0 + 2), Rd(PC0 + 3), Dl(PC0 + 3, 2), Wr(0x7005, 0xAB)]);
    let (c, ev) = trace(|_| {}, &[0xFD, 0x66, 0xFE]); // LD H,(IY-2)
    assert_eq!(ev, [M1(PC0), M1(PC0 + 1), Rd(PC0 + 2), Dl(PC0 + 2, 5), Rd(0x77FE)]);
    assert_eq!((c.h, c.iy, c.memptr), (0, 0x7800, 0x77FE));
    let (_, ev) = trace(|_| {}, &[0xDD, 0x75, 0x01]); // LD (IX+1),L
    assert_eq!(ev, [M1(PC0), M1(PC0 + 1), Rd(PC0 + 2), Dl(PC0 + 2, 5), Wr(0x7001, 0x20)]);
    let (_, ev) = trace(|_| {}, &[0xDD, 0x34, 0x01]); // INC (IX+1)
    assert_eq!(ev, [M1(PC0), M1(PC0 + 1), Rd(PC0 + 2), Dl(PC0 + 2, 5), Rd(0x7001), Dl(0x7001, 1), Wr(0x7001, 1)]);
    let (c, ev) = trace(|_| {}, &[0xDD, 0xCB, 0x02, 0xC0]); // SET 0,(IX+2),B
    assert_eq!(
        ev,
        [M1(PC0), M1(PC0 + 1), Rd(PC0 + 2), Rd(PC0 + 3), Dl(PC0 + 3, 2), Rd(0x7002), Dl(0x7002, 1), Wr(0x7002, 1)]
    );
    assert_eq!(c.b, 1);
    let (c, ev) = trace(|_| {}, &[0xDD, 0xCB, 0x02, 0x40]); // BIT 0,(IX+2)
    assert_eq!(ev, [M1(PC0), M1(PC0 + 1), Rd(PC0 + 2), Rd(PC0 + 3), Dl(PC0 + 3, 2), Rd(0x7002), Dl(0x7002, 1)]);
    assert_eq!(c.f & 0x28, 0x70 & 0x28); // F3/F5 from the high byte of IX+d
    let (_, ev) = trace(|_| {}, &[0xCB, 0x06]); // RLC (HL)
    assert_eq!(ev, [M1(PC0), M1(PC0 + 1), Rd(0x6020), Dl(0x6020, 1), Wr(0x6020, 0)]);
    let (_, ev) = trace(|_| {}, &[0xCB, 0x46]); // BIT 0,(HL)
    assert_eq!(ev, [M1(PC0), M1(PC0 + 1), Rd(0x6020), Dl(0x6020, 1)]);
    let (_, ev) = trace(|_| {}, &[0xED, 0x6F]); // RLD
    assert_eq!(ev, [M1(PC0), M1(PC0 + 1), Rd(0x6020), Dl(0x6020, 4), Wr(0x6020, 0x02)]);
}

#[test]
fn trace_stack_and_flow() {
    let (_, ev) = trace(|_| {}, &[0xC5]); // PUSH BC
    assert_eq!(ev, [M1(PC0), Dl(0x3F11, 1), Wr(0x7FFF, 0x03), Wr(0x7FFE, 0x45)]);
    let (c, ev) = trace(|_| {}, &[0xCD, 0x34, 0x12]); // CALL 0x1234
    assert_eq!(ev, [M1(PC0), Rd(PC0 + 1), Rd(PC0 + 2), Dl(PC0 + 2, 1), Wr(0x7FFF, 0x10), Wr(0x7FFE, 0x03)]);
    assert_eq!((c.pc, c.memptr, c.sp), (0x1234, 0x1234, 0x7FFE));
    let (c, ev) = trace(|c| c.f = 0x40, &[0xC4, 0x34, 0x12]); // CALL NZ not taken
    assert_eq!(ev, [M1(PC0), Rd(PC0 + 1), Rd(PC0 + 2)]);
    assert_eq!((c.pc, c.memptr), (PC0 + 3, 0x1234));
    let (c, ev) = trace(|_| {}, &[0x18, 0xFE]); // JR -2
    assert_eq!(ev, [M1(PC0), Rd(PC0 + 1), Dl(PC0 + 1, 5)]);
    assert_eq!((c.pc, c.memptr), (PC0, PC0));
    let (c, ev) = trace(|_| {}, &[0x10, 0x10]); // DJNZ taken (B = 3)
    assert_eq!(ev, [M1(PC0), Dl(0x3F11, 1), Rd(PC0 + 1), Dl(PC0 + 1, 5)]);
    assert_eq!((c.pc, c.b), (PC0 + 0x12, 2));
    let (c, ev) = trace(|c| c.b = 1, &[0x10, 0x10]); // DJNZ not taken
    assert_eq!(ev, [M1(PC0), Dl(0x3F11, 1), Rd(PC0 + 1)]);
    assert_eq!((c.pc, c.b), (PC0 + 2, 0));
    let (_, ev) = trace(|c| c.f = 0x40, &[0xC0]); // RET NZ not taken
    assert_eq!(ev, [M1(PC0), Dl(0x3F11, 1)]);
    let (_, ev) = trace(|c| c.f = 0x00, &[0xC0]); // RET NZ taken
    assert_eq!(ev, [M1(PC0), Dl(0x3F11, 1), Rd(0x8000), Rd(0x8001)]);
    let (c, ev) = trace(|_| {}, &[0xEF]); // RST 28h
    assert_eq!(ev, [M1(PC0), Dl(0x3F11, 1), Wr(0x7FFF, 0x10), Wr(0x7FFE, 0x01)]);
    assert_eq!((c.pc, c.memptr), (0x28, 0x28));
    let (c, ev) = trace(|_| {}, &[0xE3]); // EX (SP),HL
    assert_eq!(
        ev,
        [M1(PC0), Rd(0x8000), Rd(0x8001), Dl(0x8001, 1), Wr(0x8001, 0x60), Wr(0x8000, 0x20), Dl(0x8000, 2)]
    );
    assert_eq!((c.hl(), c.memptr), (0, 0));
}

#[test]
fn trace_io_and_block() {
    let (c, ev) = trace(|_| {}, &[0xDB, 0xFE]); // IN A,(0xFE)
    assert_eq!(ev, [M1(PC0), Rd(PC0 + 1), In(0x12FE)]);
    assert_eq!((c.a, c.memptr), (0xFF, 0x12FF));
    let (c, ev) = trace(|_| {}, &[0xD3, 0xFF]); // OUT (0xFF),A
    assert_eq!(ev, [M1(PC0), Rd(PC0 + 1), Out(0x12FF, 0x12)]);
    assert_eq!(c.memptr, 0x1200);
    let (c, ev) = trace(|_| {}, &[0xED, 0xB0]); // LDIR, BC = 0x0345 -> repeats
    assert_eq!(ev, [M1(PC0), M1(PC0 + 1), Rd(0x6020), Wr(0x5010, 0), Dl(0x5010, 2), Dl(0x5010, 5)]);
    assert_eq!((c.pc, c.memptr, c.bc(), c.hl(), c.de()), (PC0, PC0 + 1, 0x0344, 0x6021, 0x5011));
    assert_eq!(c.f & 0x28, 0x10 & 0x28); // F3/F5 from PC high while repeating
    let (c, ev) = trace(|c| c.set_bc(1), &[0xED, 0xB8]); // LDDR, last iteration
    assert_eq!(ev, [M1(PC0), M1(PC0 + 1), Rd(0x6020), Wr(0x5010, 0), Dl(0x5010, 2)]);
    assert_eq!((c.pc, c.memptr, c.f & 0x04), (PC0 + 2, 0, 0));
    let (c, ev) = trace(|c| c.memptr = 0x4000, &[0xED, 0xB1]); // CPIR repeating
    assert_eq!(ev, [M1(PC0), M1(PC0 + 1), Rd(0x6020), Dl(0x6020, 5), Dl(0x6020, 5)]);
    assert_eq!((c.pc, c.memptr), (PC0, PC0 + 1));
    let (c, _) = trace(|c| c.memptr = 0x4000, &[0xED, 0xA9]); // CPD
    assert_eq!(c.memptr, 0x3FFF);
    let (c, ev) = trace(|_| {}, &[0xED, 0xA2]); // INI: port uses B before decrement
    assert_eq!(ev, [M1(PC0), M1(PC0 + 1), Dl(0x3F12, 1), In(0x0345), Wr(0x6020, 0xFF)]);
    assert_eq!((c.b, c.memptr), (2, 0x0346));
    let (c, ev) = trace(|_| {}, &[0xED, 0xBA]); // INDR repeating
    assert_eq!(ev, [M1(PC0), M1(PC0 + 1), Dl(0x3F12, 1), In(0x0345), Wr(0x6020, 0xFF), Dl(0x6020, 5)]);
    assert_eq!((c.b, c.memptr, c.pc, c.hl()), (2, 0x0344, PC0, 0x601F));
    let (c, ev) = trace(|_| {}, &[0xED, 0xA3]); // OUTI: port uses B after decrement
    assert_eq!(ev, [M1(PC0), M1(PC0 + 1), Dl(0x3F12, 1), Rd(0x6020), Out(0x0245, 0)]);
    assert_eq!((c.b, c.memptr), (2, 0x0246));
    let (c, ev) = trace(|_| {}, &[0xED, 0xBB]); // OTDR repeating
    assert_eq!(ev, [M1(PC0), M1(PC0 + 1), Dl(0x3F12, 1), Rd(0x6020), Out(0x0245, 0), Dl(0x0245, 5)]);
    assert_eq!((c.memptr, c.pc), (0x0244, PC0));
    let (c, ev) = trace(|_| {}, &[0xED, 0x78]); // IN A,(C)
    assert_eq!(ev, [M1(PC0), M1(PC0 + 1), In(0x0345)]);
    assert_eq!(c.memptr, 0x0346);
    let (c, ev) = trace(|_| {}, &[0xED, 0x71]); // OUT (C),0
    assert_eq!(ev, [M1(PC0), M1(PC0 + 1), Out(0x0345, 0)]);
    assert_eq!(c.memptr, 0x0346);
}

// ------------------------------------------------------------------------------------------
// MEMPTR

#[test]
fn memptr_spot_checks() {
    let (c, _) = trace(|_| {}, &[0x3A, 0xFF, 0x12]); // LD A,(0x12FF)
    assert_eq!(c.memptr, 0x1300);
    let (c, _) = trace(|c| c.a = 0x55, &[0x32, 0xFF, 0x12]); // LD (0x12FF),A
    assert_eq!(c.memptr, 0x5500);
    let (c, _) = trace(|_| {}, &[0x0A]); // LD A,(BC)
    assert_eq!(c.memptr, 0x0346);
    let (c, _) = trace(|c| c.e = 0xFF, &[0x12]); // LD (DE),A
    assert_eq!(c.memptr, 0x1200);
    let (c, _) = trace(|_| {}, &[0x2A, 0x00, 0x90]); // LD HL,(0x9000)
    assert_eq!(c.memptr, 0x9001);
    let (c, _) = trace(|_| {}, &[0xED, 0x43, 0x00, 0x90]); // LD (0x9000),BC
    assert_eq!(c.memptr, 0x9001);
    let (c, _) = trace(|_| {}, &[0x09]); // ADD HL,BC
    assert_eq!(c.memptr, 0x6021);
    let (c, _) = trace(|_| {}, &[0xFD, 0x29]); // ADD IY,IY
    assert_eq!(c.memptr, 0x7801);
    let (c, _) = trace(|_| {}, &[0xED, 0x52]); // SBC HL,DE
    assert_eq!(c.memptr, 0x6021);
    let (c, _) = trace(|_| {}, &[0xED, 0x67]); // RRD
    assert_eq!(c.memptr, 0x6021);
    let (c, _) = trace(|c| c.f = 0x40, &[0xC2, 0x34, 0x12]); // JP NZ not taken
    assert_eq!((c.pc, c.memptr), (PC0 + 3, 0x1234));
    let (c, _) = trace(|c| c.f = 0x00, &[0x28, 0x10]); // JR Z not taken: unchanged
    assert_eq!(c.memptr, 0);
    let (c, _) = trace(|c| c.memptr = 0xABCD, &[0xE9]); // JP (HL): unchanged
    assert_eq!((c.pc, c.memptr), (0x6020, 0xABCD));
    let mut bus = TBus::new();
    let mut c = cpu0();
    bus.put(PC0, &[0xC9]);
    bus.put(0x8000, &[0x78, 0x56]);
    c.step(&mut bus); // RET
    assert_eq!((c.pc, c.memptr), (0x5678, 0x5678));
    // BIT n,(HL) exposes MEMPTR high in F3/F5
    let (c, _) = trace(|c| c.memptr = 0x2800, &[0xCB, 0x46]);
    assert_eq!(c.f & 0x28, 0x28);
    let (c, _) = trace(|c| c.memptr = 0x00FF, &[0xCB, 0x46]);
    assert_eq!(c.f & 0x28, 0x00);
}

// ------------------------------------------------------------------------------------------
// Q

#[test]
fn q_spot_checks() {
    // previous instruction wrote F (Q == F): SCF takes F3/F5 from A only
    let (c, _) = trace(
        |c| {
            c.a = 0x00;
            c.f = 0x28;
            c.q = 0x28;
        },
        &[0x37],
    );
    assert_eq!(c.f, 0x01);
    assert_eq!(c.q, 0x01);
    // previous instruction did not write F (Q == 0): old F3/F5 are ORed in
    let (c, _) = trace(
        |c| {
            c.a = 0x00;
            c.f = 0x28;
            c.q = 0x00;
        },
        &[0x37],
    );
    assert_eq!(c.f, 0x29);
    // CCF: same rule, H = old C
    let (c, _) = trace(
        |c| {
            c.a = 0x08;
            c.f = 0x21;
            c.q = 0x00;
        },
        &[0x3F],
    );
    assert_eq!(c.f, 0x38);
    let (c, _) = trace(
        |c| {
            c.a = 0x08;
            c.f = 0x21;
            c.q = 0x21;
        },
        &[0x3F],
    );
    assert_eq!(c.f, 0x18);
    // who latches Q
    let (c, _) = trace(|c| c.q = 0x55, &[0x00]); // NOP
    assert_eq!(c.q, 0);
    let (c, _) = trace(|c| c.q = 0x55, &[0x3C]); // INC A
    assert_eq!(c.q, c.f);
    assert_ne!(c.q, 0x55);
    let (c, _) = trace(|c| c.q = 0x55, &[0x08]); // EX AF,AF'
    assert_eq!(c.q, 0);
    let mut bus = TBus::new();
    let mut c = cpu0();
    c.q = 0x55;
    bus.put(PC0, &[0xF1]);
    bus.put(0x8000, &[0xFF, 0xAA]);
    c.step(&mut bus); // POP AF
    assert_eq!((c.a, c.f, c.q), (0xAA, 0xFF, 0));
    let (c, _) = trace(|c| c.q = 0x55, &[0xCB, 0x47]); // BIT 0,A
    assert_eq!(c.q, c.f);
    let (c, _) = trace(|c| c.q = 0x55, &[0xED, 0x57]); // LD A,I
    assert_eq!(c.q, c.f);
    let (c, _) = trace(|c| c.q = 0x55, &[0xED, 0xA0]); // LDI
    assert_eq!(c.q, c.f);
    let (c, _) = trace(|c| c.q = 0x55, &[0xED, 0x00]); // undefined ED
    assert_eq!(c.q, 0);
    // a DD/FD prefix step leaves Q alone; the prefixed instruction sees it
    let mut bus = TBus::new();
    let mut c = cpu0();
    c.a = 0;
    c.f = 0x28;
    c.q = 0x28;
    bus.put(PC0, &[0xDD, 0x37]);
    assert_eq!(c.step(&mut bus).kind, StepKind::Prefix);
    assert_eq!(c.q, 0x28);
    c.step(&mut bus);
    assert_eq!(c.f, 0x01);
}

// ------------------------------------------------------------------------------------------
// R, prefixes, HALT, interrupts

#[test]
fn prefix_chain_and_r() {
    let mut bus = TBus::new();
    let mut c = cpu0();
    c.r = 0xFE;
    bus.put(PC0, &[0xDD, 0xFD, 0xDD, 0x21, 0x34, 0x12]);
    bus.int = true;
    c.iff1 = true;
    c.no_int = true; // as if EI had just run: the first boundary is blocked as well
    let kinds: Vec<_> = (0..4).map(|_| c.step(&mut bus).kind).collect();
    assert_eq!(kinds, [StepKind::Prefix, StepKind::Prefix, StepKind::Prefix, StepKind::Instr]);
    assert_eq!((c.ix, c.iy, c.hl()), (0x1234, 0x7800, 0x6020));
    assert_eq!(c.r, 0x82); // bit 7 kept, 7-bit wrap, 4 M1 cycles
    assert!(!c.no_int);
    // now the interrupt gets in
    assert_eq!(c.step(&mut bus).kind, StepKind::Int);
    // LD R,A sets all 8 bits; LD A,R sees R after both M1s
    let (c, _) = trace(|c| c.a = 0xC3, &[0xED, 0x4F]);
    assert_eq!(c.r, 0xC3);
    let (c, _) = trace(
        |c| {
            c.r = 0x7F;
            c.iff2 = true;
        },
        &[0xED, 0x5F],
    );
    assert_eq!((c.a, c.f & 0x04), (0x01, 0x04));
}

#[test]
fn halt_and_interrupts() {
    let mut bus = TBus::new();
    let mut c = cpu0();
    bus.put(PC0, &[0xFB, 0x76]); // EI ; HALT
    bus.int = true;
    c.im = 1;
    assert_eq!(c.step(&mut bus).kind, StepKind::Instr); // EI
    assert!(c.iff1 && c.iff2 && c.no_int);
    assert_eq!(c.step(&mut bus).kind, StepKind::Instr); // HALT runs, INT blocked after EI
    assert!(c.halted);
    assert_eq!(c.pc, PC0 + 1); // pc stays at the HALT opcode
    bus.int = false;
    bus.ev.clear();
    let t0 = bus.t;
    assert_eq!(c.step(&mut bus).kind, StepKind::HaltCycle);
    assert_eq!((bus.t - t0, bus.ev.clone()), (4, vec![M1(PC0 + 1)]));
    assert_eq!(c.pc, PC0 + 1);
    bus.int = true;
    bus.ev.clear();
    let (t0, r0) = (bus.t, c.r);
    assert_eq!(c.step(&mut bus).kind, StepKind::Int);
    assert_eq!(bus.t - t0, 13);
    assert_eq!(bus.ev, [Ack(7), Wr(0x7FFF, 0x10), Wr(0x7FFE, 0x02)]); // HALT address + 1
    assert_eq!((c.pc, c.memptr, c.halted, c.iff1, c.iff2, c.q), (0x38, 0x38, false, false, false, 0));
    assert_eq!(c.r, r0 + 1);

    // IM 2
    let mut bus = TBus::new();
    let mut c = cpu0();
    c.im = 2;
    c.iff1 = true;
    c.iff2 = true;
    bus.int = true;
    bus.vector = 0xFE;
    bus.put(0x3FFE, &[0xCD, 0xAB]);
    assert_eq!(c.step(&mut bus).kind, StepKind::Int);
    assert_eq!(bus.t, 19);
    assert_eq!(bus.ev, [Ack(7), Wr(0x7FFF, 0x10), Wr(0x7FFE, 0x00), Rd(0x3FFE), Rd(0x3FFF)]);
    assert_eq!((c.pc, c.memptr), (0xABCD, 0xABCD));

    // INT ignored with iff1 clear; DI blocks too
    let mut bus = TBus::new();
    let mut c = cpu0();
    bus.int = true;
    assert_eq!(c.step(&mut bus).kind, StepKind::Instr);

    // NMI: 11 T, iff2 preserved, iff1 cleared
    let mut bus = TBus::new();
    let mut c = cpu0();
    c.iff1 = true;
    c.iff2 = true;
    bus.nmi = true;
    bus.int = true;
    assert_eq!(c.step(&mut bus).kind, StepKind::Nmi);
    assert_eq!(bus.t, 11);
    assert_eq!(bus.ev, [Ack(5), Wr(0x7FFF, 0x10), Wr(0x7FFE, 0x00)]);
    assert_eq!((c.pc, c.memptr, c.iff1, c.iff2), (0x66, 0x66, false, true));
    // RETN restores iff1 from iff2 (all eight encodings)
    for op in [0x45u8, 0x4D, 0x55, 0x5D, 0x65, 0x6D, 0x75, 0x7D] {
        let (c, _) = trace(
            |c| {
                c.iff1 = false;
                c.iff2 = true;
            },
            &[0xED, op],
        );
        assert!(c.iff1 && c.iff2);
    }
}

#[test]
fn index_register_substitution() {
    let (c, _) = trace(|_| {}, &[0xDD, 0x65]); // LD IXH,IXL
    assert_eq!((c.ix, c.hl()), (0x0000, 0x6020));
    let (c, _) = trace(|c| c.ix = 0x1234, &[0xDD, 0x6C]); // LD IXL,IXH
    assert_eq!(c.ix, 0x1212);
    let (c, _) = trace(|_| {}, &[0xDD, 0xEB]); // EX DE,HL unaffected
    assert_eq!((c.hl(), c.de(), c.ix), (0x5010, 0x6020, 0x7000));
    let (c, _) = trace(|_| {}, &[0xFD, 0xE9]); // JP (IY)
    assert_eq!(c.pc, 0x7800);
    let (c, _) = trace(|_| {}, &[0xFD, 0xF9]); // LD SP,IY
    assert_eq!(c.sp, 0x7800);
    let (c, _) = trace(|_| {}, &[0xDD, 0x84]); // ADD A,IXH
    assert_eq!(c.a, 0x82);
    let (c, _) = trace(|_| {}, &[0xDD, 0x80]); // ADD A,B unaffected
    assert_eq!(c.a, 0x15);
    let (c, _) = trace(|_| {}, &[0xDD, 0xE5]); // PUSH IX
    assert_eq!(c.sp, 0x7FFE);
    let (c, ev) = trace(|_| {}, &[0xDD, 0xE3]); // EX (SP),IX
    assert_eq!(ev.len(), 8);
    assert_eq!((c.ix, c.hl(), c.memptr), (0, 0x6020, 0));
}
