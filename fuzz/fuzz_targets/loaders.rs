//! libFuzzer target for property C15: byte 0 selects the loader, byte 1 the machine and the
//! asset flavour, the rest is the file. The semantic oracle (panic / overflow / allocation
//! out of proportion / read-after-EOF loop / emulator still runs) is c15::exercise; open
//! known findings are tolerated by signature so that a campaign goes on behind them.
#![no_main]

use libfuzzer_sys::fuzz_target;
use rzxv::driver::Rec;
use rzxv::host::Machine;
use rzxv::props::c15::{excl_from_known, exercise, signature, Case, Target};
use std::sync::Once;

#[global_allocator]
static GLOBAL: rzxv::alloc::Counting = rzxv::alloc::Counting;

static INIT: Once = Once::new();

fuzz_target!(|data: &[u8]| {
    INIT.call_once(|| {
        // libfuzzer-sys installs an aborting panic hook; the oracle needs to catch panics itself
        rzxv::driver::install_panic_hook();
    });
    if data.len() < 2 {
        return;
    }
    let target = match data[0] % 7 {
        0 => Target::Sna,
        1 => Target::Szx,
        2 => Target::Scr,
        3 => Target::Tap,
        4 => Target::Rom,
        5 => Target::Gzip,
        _ => Target::Vtx,
    };
    let machine = if data[1] & 1 == 0 { Machine::K48 } else { Machine::K128 };
    let case = Case { target, machine, data: data[2..].to_vec(), fault: None, cursor: data[1] & 2 != 0 };
    let mut rec = Rec::default();
    if let Err(e) = exercise(&case, &mut rec) {
        let sig = signature(&e);
        let strict = std::env::var("RZXV_FUZZ_STRICT").is_ok();
        if !strict && excl_from_known().tolerated.iter().any(|t| *t == sig) {
            return;
        }
        eprintln!("C15 violation: {} [signature {}]", e, sig);
        std::process::abort();
    }
});
