//! Engine E2 — reference Spectrum machine: RefZ80 on a bus that implements the memory map,
//! the ULA contention model, frame/INT timing and port decode *as stated in the properties*.

use crate::host::{Emu, Machine};
use crate::mach::{self, MemModel};
use refz80::{RBus, RefZ80, StepInfo, StepKind};

pub const PATTERN: [u64; 8] = [6, 5, 4, 3, 2, 1, 0, 0];

/// ULA delay for a contended access starting at frame T-state `tf` (property C04).
pub fn contention_delay(machine: Machine, tf: u64) -> u64 {
    let t0 = machine.t0() as u64;
    let line = machine.line_len() as u64;
    if tf < t0 || tf >= t0 + 192 * line {
        return 0;
    }
    let rel = tf - t0;
    let x = rel % line;
    if x >= 128 {
        return 0;
    }
    // The pattern restarts with every picture line (the ULA's horizontal counter). On the 48K
    // (224 T per line) this equals (T - T0) mod 8 as the property writes it; on the 128K
    // (228 T per line) the per-line reading is the documented hardware behaviour.
    PATTERN[(x % 8) as usize]
}

#[derive(Clone, Debug, PartialEq, Eq)]
pub struct UlaWrite {
    /// absolute T-state at which the I/O cycle started / ended
    pub t_start: u64,
    pub t_end: u64,
    pub value: u8,
}

pub struct MBus {
    pub machine: Machine,
    pub mem: MemModel,
    /// absolute T-state counter since the harness synchronised model and emulator
    pub t: u64,
    pub contention_total: u64,
    pub writes: Vec<u16>,
    pub ula_writes: Vec<UlaWrite>,
    pub ay_sel: u8,
    pub ay_regs: [u8; 16],
    pub ay_writes: Vec<(u64, u8, u8)>,
    /// number of reads from ports no modelled device claims (floating bus): value not modelled
    pub floating_reads: u32,
    /// value the ULA port returns on bits 0-4,6 (no keys, EAR as the emulator idles): 0xBF
    pub ula_read_value: u8,
    pub kempston: Option<u8>,
    pub int_byte: u8,
    pub io_pattern_hits: [u64; 4],
    pub nmi: bool,
    pub ints_enabled_line: bool,
    /// false: AY read-back data is treated like a floating-bus read (not modelled)
    pub judge_ay: bool,
    /// host I/O extender: claim predicate (port & mask == value) and the xor of its read values.
    /// A claimed port reaches no built-in device; the I/O cycle is timed like any other.
    pub ext: Option<(Vec<(u16, u16)>, u8)>,
}

impl MBus {
    pub fn new(mem: MemModel) -> Self {
        Self {
            machine: mem.machine,
            mem,
            t: 0,
            contention_total: 0,
            writes: Vec::new(),
            ula_writes: Vec::new(),
            ay_sel: 0,
            ay_regs: [0; 16],
            ay_writes: Vec::new(),
            floating_reads: 0,
            ula_read_value: 0xBF,
            kempston: None,
            int_byte: 0xFF,
            io_pattern_hits: [0; 4],
            nmi: false,
            ints_enabled_line: true,
            judge_ay: true,
            ext: None,
        }
    }
    pub fn frame_t(&self) -> u64 {
        self.t % self.machine.frame_len() as u64
    }
    pub fn frames(&self) -> u64 {
        self.t / self.machine.frame_len() as u64
    }
    fn contend(&mut self) {
        let d = contention_delay(self.machine, self.frame_t());
        self.t += d;
        self.contention_total += d;
    }
    fn mem_cycle(&mut self, addr: u16, clk: u64) {
        if self.mem.contended(addr) {
            self.contend();
        }
        self.t += clk;
    }
    /// the four ULA I/O patterns
    fn io_cycle(&mut self, port: u16) {
        let hi = self.mem.contended(port);
        let even = port & 1 == 0;
        match (hi, even) {
            (false, true) => {
                // N:1, C:3
                self.io_pattern_hits[0] += 1;
                self.t += 1;
                self.contend();
                self.t += 3;
            }
            (false, false) => {
                // N:4
                self.io_pattern_hits[1] += 1;
                self.t += 4;
            }
            (true, true) => {
                // C:1, C:3
                self.io_pattern_hits[2] += 1;
                self.contend();
                self.t += 1;
                self.contend();
                self.t += 3;
            }
            (true, false) => {
                // C:1 x4
                self.io_pattern_hits[3] += 1;
                for _ in 0..4 {
                    self.contend();
                    self.t += 1;
                }
            }
        }
    }
}

impl RBus for MBus {
    fn m1(&mut self, addr: u16) -> u8 {
        self.mem_cycle(addr, 4);
        self.mem.read(addr)
    }
    fn read(&mut self, addr: u16) -> u8 {
        self.mem_cycle(addr, 3);
        self.mem.read(addr)
    }
    fn write(&mut self, addr: u16, val: u8) {
        self.mem_cycle(addr, 3);
        self.mem.write(addr, val);
        self.writes.push(addr);
    }
    fn delay(&mut self, addr: u16, t: u32) {
        for _ in 0..t {
            self.mem_cycle(addr, 1);
        }
    }
    fn input(&mut self, port: u16) -> u8 {
        self.io_cycle(port);
        if let Some((claims, x)) = &self.ext {
            if claims.iter().any(|(m, v)| port & m == *v) {
                return (port as u8) ^ ((port >> 8) as u8) ^ *x;
            }
        }
        if port & 1 == 0 {
            self.ula_read_value
        } else if port & 0xC002 == 0xC000 {
            if !self.judge_ay {
                self.floating_reads += 1;
            }
            self.ay_regs[(self.ay_sel & 0x0F) as usize]
        } else if self.kempston.is_some() && port & 0x00E0 == 0 {
            self.kempston.unwrap()
        } else {
            self.floating_reads += 1;
            0xFF
        }
    }
    fn output(&mut self, port: u16, val: u8) {
        let t_start = self.t;
        self.io_cycle(port);
        if let Some((claims, _)) = &self.ext {
            if claims.iter().any(|(m, v)| port & m == *v) {
                return;
            }
        }
        if port & 1 == 0 {
            self.ula_writes.push(UlaWrite {
                t_start,
                t_end: self.t,
                value: val,
            });
        }
        // an even address is decoded by the ULA; other devices are judged on odd addresses only
        if port & 1 == 1 {
            if port & 0xC002 == 0xC000 {
                self.ay_sel = val & 0x0F;
            } else if port & 0xC002 == 0x8000 {
                self.ay_regs[(self.ay_sel & 0x0F) as usize] = val;
                self.ay_writes.push((t_start, self.ay_sel & 0x0F, val));
            } else if port & 0x8002 == 0 {
                self.mem.paging_write(val);
            }
        }
    }
    fn ack(&mut self, t: u32) {
        self.t += t as u64;
    }
    fn int_vector(&mut self) -> u8 {
        self.int_byte
    }
    fn int_line(&mut self) -> bool {
        self.ints_enabled_line && self.frame_t() < 32
    }
    fn nmi_take(&mut self) -> bool {
        let n = self.nmi;
        self.nmi = false;
        n
    }
}

pub struct RefMachine {
    pub cpu: RefZ80,
    pub bus: MBus,
    pub ints_taken: u64,
}

impl RefMachine {
    pub fn new(mem: MemModel) -> Self {
        Self {
            cpu: RefZ80::new(),
            bus: MBus::new(mem),
            ints_taken: 0,
        }
    }

    /// Executes what one `Z80::emulate` call covers when programs contain no prefix *chains*:
    /// an optional interrupt entry, then one instruction (with its single DD/FD prefix) or one
    /// HALT refetch.
    pub fn step_group(&mut self) -> StepInfo {
        let mut info = self.cpu.step(&mut self.bus);
        let mut guard = 0;
        while matches!(info.kind, StepKind::Int | StepKind::Nmi | StepKind::Prefix) && guard < 8 {
            if info.kind == StepKind::Int {
                self.ints_taken += 1;
            }
            info = self.cpu.step(&mut self.bus);
            guard += 1;
        }
        info
    }
}

/// Common time origin of an emulator and a reference machine that were synchronised by the
/// harness (same frame clock, same state): emulator time = frames since `emu_frames0` * frame
/// length + frame clock; the reference machine's `bus.t` counts from the same origin.
pub struct TimeBase {
    pub emu_frames0: u64,
    pub frame_len: u64,
}

impl TimeBase {
    pub fn new(e: &Emu, machine: Machine) -> Self {
        Self { emu_frames0: e.verif_total_frames(), frame_len: machine.frame_len() as u64 }
    }
    pub fn emu_t(&self, e: &Emu) -> u64 {
        (e.verif_total_frames() - self.emu_frames0) * self.frame_len + e.verif_frame_clocks() as u64
    }
}

impl RefMachine {
    /// one fine-grained reference step (prefix byte, instruction, HALT cycle or interrupt entry)
    pub fn step_fine(&mut self) -> StepInfo {
        let info = self.cpu.step(&mut self.bus);
        if info.kind == StepKind::Int {
            self.ints_taken += 1;
        }
        info
    }

    /// Brings emulator and reference to a common instruction boundary at equal emulated time,
    /// whatever each side's step granularity is (how `Z80::emulate` groups prefixes, interrupt
    /// entry and the following instruction is not part of any property): the side that is
    /// behind steps. Fails if no common boundary is found within a few steps.
    pub fn catch_up(&mut self, e: &mut Emu, tb: &TimeBase) -> Result<(), String> {
        for _ in 0..24 {
            let et = tb.emu_t(e);
            let mt = self.bus.t;
            if et == mt {
                return Ok(());
            }
            if et < mt {
                mach::single_step(e)?;
            } else {
                self.step_fine();
            }
        }
        Err(format!("no common instruction boundary: emulator at T {}, reference at T {}", tb.emu_t(e), self.bus.t))
    }

    /// One `emulate()` call on the emulator, then catch up on both sides.
    pub fn lockstep(&mut self, e: &mut Emu, tb: &TimeBase) -> Result<(), String> {
        mach::single_step(e)?;
        self.catch_up(e, tb)
    }
}
