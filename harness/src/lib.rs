//! rzxv library: engines, models, format code and property checks (used by the `rzxv` binary
//! and by the libFuzzer targets in /verif/fuzz).

pub mod alloc;
pub mod driver;
pub mod e1;
pub mod e2;
pub mod formats;
pub mod host;
pub mod mach;
pub mod props;
pub mod tape;
