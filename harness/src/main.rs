//! rzxv — property-based verification harness for rustzx.
//!
//!   rzxv <PROPERTY> [--tier quick|thorough] [--seed N] [--replay FILE]
//!
//! Exit codes: 0 held on everything explored; 1 violation (prints VIOLATION line);
//! 2 infrastructure problem / inconclusive.


use rzxv::driver::{self, Run, Tier};
use rzxv::{alloc, props};

#[global_allocator]
static GLOBAL: alloc::Counting = alloc::Counting;

macro_rules! dispatch {
    ($id:expr, $run:expr, $replay:expr, $( $name:literal => $m:ident ),* $(,)?) => {
        match $id {
            $(
                $name => {
                    let mut run = $run($name);
                    // stored regression replays first
                    let code = run_prop(&mut run, $replay, props::$m::run, props::$m::replay);
                    if code == 2 { return 2; }
                    run.finish(props::$m::LEVEL, props::$m::RULE, props::$m::ASSUMPTIONS)
                }
            )*
            other => {
                eprintln!("unknown property {}", other);
                2
            }
        }
    };
}

fn run_prop(
    run: &mut Run,
    replay_file: &Option<String>,
    runf: fn(&mut Run),
    replayf: fn(&mut Run, &str, &serde_json::Value) -> Result<(), String>,
) -> i32 {
    if let Some(path) = replay_file {
        return match load_replay(path) {
            Ok((phase, case)) => {
                let _ = replayf(run, &phase, &case);
                0
            }
            Err(e) => {
                eprintln!("cannot load replay {}: {}", path, e);
                2
            }
        };
    }
    // committed regression cases for this property
    let dir = format!("{}/replays/{}", driver::verif_root(), run.id);
    if let Ok(rd) = std::fs::read_dir(&dir) {
        let mut files: Vec<_> = rd.filter_map(|e| e.ok()).map(|e| e.path()).collect();
        files.sort();
        for f in files {
            if f.extension().map(|e| e == "json").unwrap_or(false) {
                if let Ok((phase, case)) = load_replay(f.to_str().unwrap()) {
                    let _ = replayf(run, &phase, &case);
                }
            }
        }
    }
    runf(run);
    0
}

fn load_replay(path: &str) -> Result<(String, serde_json::Value), String> {
    let s = std::fs::read_to_string(path).map_err(|e| e.to_string())?;
    let v: serde_json::Value = serde_json::from_str(&s).map_err(|e| e.to_string())?;
    let phase = v["phase"].as_str().ok_or("no phase")?.to_string();
    Ok((phase, v["case"].clone()))
}

fn real_main() -> i32 {
    let args: Vec<String> = std::env::args().collect();
    if args.len() < 2 {
        eprintln!("usage: rzxv <PROPERTY> [--tier quick|thorough] [--seed N] [--replay FILE]");
        return 2;
    }
    let id = args[1].clone();
    if id == "calibrate" {
        return match props::calibration::run_calibration() {
            Ok(s) => {
                println!("{}", s);
                0
            }
            Err(e) => {
                eprintln!("{}", e);
                2
            }
        };
    }
    let mut tier = match std::env::var("VERIF_TIER").as_deref() {
        Ok("thorough") => Tier::Thorough,
        _ => Tier::Quick,
    };
    let mut seed: u64 = std::env::var("VERIF_SEED")
        .ok()
        .and_then(|s| s.trim().parse::<i128>().ok())
        .map(|v| v as u64)
        .unwrap_or(0);
    let mut replay: Option<String> = None;
    let mut i = 2;
    while i < args.len() {
        match args[i].as_str() {
            "--tier" => {
                i += 1;
                tier = if args.get(i).map(|s| s.as_str()) == Some("thorough") {
                    Tier::Thorough
                } else {
                    Tier::Quick
                };
            }
            "--seed" => {
                i += 1;
                seed = args.get(i).and_then(|s| s.parse::<i128>().ok()).map(|v| v as u64).unwrap_or(0);
            }
            "--replay" => {
                i += 1;
                replay = args.get(i).cloned();
            }
            _ => {}
        }
        i += 1;
    }
    driver::install_panic_hook();
    let mk = |name: &'static str| Run::new(name, seed, tier);
    dispatch!(id.as_str(), mk, &replay,
        "C01" => c01,
        "C02" => c02,
        "C03" => c03,
        "C04" => c04,
        "C05" => c05,
        "C06" => c06,
        "C07" => c07,
        "C08" => c08,
        "C09" => c09,
        "C10" => c10,
        "C11" => c11,
        "C12" => c12,
        "C13" => c13,
        "C14" => c14,
        "C15" => c15,
        "C16" => c16,
        "C17" => c17,
        "C18" => c18,
        "C19" => c19,
        "C20" => c20,
    )
}

fn main() {
    let code = real_main();
    std::process::exit(code);
}
