//! Counting global allocator: records, per thread, the largest single allocation request
//! while armed. It never fails an allocation itself.

use std::alloc::{GlobalAlloc, Layout, System};
use std::cell::Cell;

pub struct Counting;

thread_local! {
    static ARMED: Cell<bool> = const { Cell::new(false) };
    static MAX_REQ: Cell<usize> = const { Cell::new(0) };
    static TOTAL: Cell<usize> = const { Cell::new(0) };
}

unsafe impl GlobalAlloc for Counting {
    unsafe fn alloc(&self, layout: Layout) -> *mut u8 {
        note(layout.size());
        System.alloc(layout)
    }
    unsafe fn alloc_zeroed(&self, layout: Layout) -> *mut u8 {
        note(layout.size());
        System.alloc_zeroed(layout)
    }
    unsafe fn dealloc(&self, ptr: *mut u8, layout: Layout) {
        System.dealloc(ptr, layout)
    }
    unsafe fn realloc(&self, ptr: *mut u8, layout: Layout, new_size: usize) -> *mut u8 {
        note(new_size);
        System.realloc(ptr, layout, new_size)
    }
}

fn note(size: usize) {
    let _ = ARMED.try_with(|a| {
        if a.get() {
            let _ = MAX_REQ.try_with(|m| {
                if size > m.get() {
                    m.set(size);
                }
            });
            let _ = TOTAL.try_with(|t| t.set(t.get().saturating_add(size)));
        }
    });
}

pub fn arm() {
    MAX_REQ.with(|m| m.set(0));
    TOTAL.with(|t| t.set(0));
    ARMED.with(|a| a.set(true));
}

/// returns (largest single request, total requested) since `arm`
pub fn disarm() -> (usize, usize) {
    ARMED.with(|a| a.set(false));
    (MAX_REQ.with(|m| m.get()), TOTAL.with(|t| t.get()))
}
