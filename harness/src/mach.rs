//! Reference memory/paging model (written from the property text) and helpers to place
//! state in the emulator through the cfg(rustzx_verif) hooks and to read it back.

use crate::host::{BpMode, Emu, Machine, LONG};
use rustzx_core::EmulationStopReason;
use rustzx_z80::RegName16;
use serde::{Deserialize, Serialize};

pub const PAGE: usize = 16384;

pub fn rom_images(machine: Machine) -> Vec<Vec<u8>> {
    let dir = "/repo/rustzx-core/src/zx/roms";
    match machine {
        Machine::K48 => vec![std::fs::read(format!("{}/48.rom", dir)).expect("48.rom")],
        Machine::K128 => vec![
            std::fs::read(format!("{}/128.rom.0", dir)).expect("128.rom.0"),
            std::fs::read(format!("{}/128.rom.1", dir)).expect("128.rom.1"),
        ],
    }
}

#[derive(Clone, Copy, Debug, PartialEq, Eq)]
pub enum Pg {
    Rom(u8),
    Ram(u8),
}

/// Memory model: ROM images as supplied, 3 or 8 RAM banks, paging latch with lock.
#[derive(Clone)]
pub struct MemModel {
    pub machine: Machine,
    pub rom: Vec<Vec<u8>>,
    pub ram: Vec<Vec<u8>>,
    /// last accepted paging write (128K)
    pub latch: u8,
    pub locked: bool,
}

impl MemModel {
    pub fn new(machine: Machine, rom: Vec<Vec<u8>>) -> Self {
        Self {
            machine,
            rom,
            ram: vec![vec![0u8; PAGE]; machine.ram_banks() as usize],
            latch: 0,
            locked: false,
        }
    }

    /// 48K: the harness numbers the three RAM pages like the 128K banks they correspond to
    /// would be seen by the CPU: page index 0 at 0x4000, 1 at 0x8000, 2 at 0xC000.
    pub fn page_at(&self, addr: u16) -> Pg {
        let w = addr >> 14;
        match self.machine {
            Machine::K48 => match w {
                0 => Pg::Rom(0),
                n => Pg::Ram((n - 1) as u8),
            },
            Machine::K128 => match w {
                0 => Pg::Rom((self.latch >> 4) & 1),
                1 => Pg::Ram(5),
                2 => Pg::Ram(2),
                _ => Pg::Ram(self.latch & 7),
            },
        }
    }

    pub fn read(&self, addr: u16) -> u8 {
        let off = (addr & 0x3FFF) as usize;
        match self.page_at(addr) {
            Pg::Rom(n) => self.rom[n as usize][off],
            Pg::Ram(n) => self.ram[n as usize][off],
        }
    }

    pub fn write(&mut self, addr: u16, v: u8) {
        let off = (addr & 0x3FFF) as usize;
        if let Pg::Ram(n) = self.page_at(addr) {
            self.ram[n as usize][off] = v;
        }
    }

    /// a write to a port of the paging class; returns whether it was accepted
    pub fn paging_write(&mut self, v: u8) -> bool {
        if self.machine == Machine::K48 || self.locked {
            return false;
        }
        self.latch = v;
        if v & 0x20 != 0 {
            self.locked = true;
        }
        true
    }

    /// bank shown by the ULA
    pub fn screen_bank(&self) -> u8 {
        match self.machine {
            Machine::K48 => 0,
            Machine::K128 => {
                if self.latch & 8 != 0 {
                    7
                } else {
                    5
                }
            }
        }
    }

    /// Is a memory address contended (property C04)?
    pub fn contended(&self, addr: u16) -> bool {
        match self.page_at(addr) {
            Pg::Rom(_) => false,
            Pg::Ram(n) => match self.machine {
                Machine::K48 => n == 0,
                Machine::K128 => n & 1 == 1,
            },
        }
    }
}

/// Port of the 128K paging class that selects *only* the paging latch: A15=0, A1=0 and
/// A0=1 (an even address would also select the ULA).
pub fn is_paging_only_port(port: u16) -> bool {
    port & 0x8002 == 0 && port & 1 == 1
}

// ---------------------------------------------------------------------------------------
// register file mirror

#[derive(Clone, Debug, Default, PartialEq, Eq, Serialize, Deserialize)]
pub struct RegFile {
    pub af: u16,
    pub bc: u16,
    pub de: u16,
    pub hl: u16,
    pub af_: u16,
    pub bc_: u16,
    pub de_: u16,
    pub hl_: u16,
    pub ix: u16,
    pub iy: u16,
    pub sp: u16,
    pub pc: u16,
    pub i: u8,
    pub r: u8,
    pub iff1: bool,
    pub iff2: bool,
    pub im: u8,
}

pub fn set_regs(e: &mut Emu, r: &RegFile) {
    let cpu = e.verif_cpu();
    // alternates first, then swap them away
    cpu.regs.set_bc(r.bc_);
    cpu.regs.set_de(r.de_);
    cpu.regs.set_hl(r.hl_);
    cpu.regs.exx();
    cpu.regs.set_af(r.af_);
    cpu.regs.swap_af_alt();
    cpu.regs.set_af(r.af);
    cpu.regs.set_bc(r.bc);
    cpu.regs.set_de(r.de);
    cpu.regs.set_hl(r.hl);
    cpu.regs.set_ix(r.ix);
    cpu.regs.set_iy(r.iy);
    cpu.regs.set_sp(r.sp);
    cpu.regs.set_pc(r.pc);
    cpu.regs.set_i(r.i);
    cpu.regs.set_r(r.r);
    cpu.regs.set_iff1(r.iff1);
    cpu.regs.set_iff2(r.iff2);
    cpu.set_im(r.im % 3);
}

/// Reads all registers; the alternate set is read by swapping, reading through the *main*
/// getters, and swapping back (so the check does not depend on the `*_alt` getters).
pub fn get_regs(e: &mut Emu) -> RegFile {
    let cpu = e.verif_cpu();
    let mut r = RegFile {
        af: cpu.regs.get_af(),
        bc: cpu.regs.get_bc(),
        de: cpu.regs.get_de(),
        hl: cpu.regs.get_hl(),
        ix: cpu.regs.get_ix(),
        iy: cpu.regs.get_iy(),
        sp: cpu.regs.get_sp(),
        pc: cpu.regs.get_pc(),
        i: cpu.regs.get_i(),
        r: cpu.regs.get_r(),
        iff1: cpu.regs.get_iff1(),
        iff2: cpu.regs.get_iff2(),
        im: cpu.get_im().into(),
        ..Default::default()
    };
    cpu.regs.exx();
    cpu.regs.swap_af_alt();
    r.af_ = cpu.regs.get_af();
    r.bc_ = cpu.regs.get_bc();
    r.de_ = cpu.regs.get_de();
    r.hl_ = cpu.regs.get_hl();
    cpu.regs.exx();
    cpu.regs.swap_af_alt();
    let _ = RegName16::HL;
    r
}

// ---------------------------------------------------------------------------------------
// memory placement through hooks

/// Writes a byte into the emulator RAM *as the model maps it* (no CPU involved).
pub fn poke(e: &mut Emu, m: &mut MemModel, addr: u16, v: u8) {
    if let Pg::Ram(n) = m.page_at(addr) {
        e.verif_ram_page_mut(n)[(addr & 0x3FFF) as usize] = v;
        m.write(addr, v);
    }
}

pub fn poke_bytes(e: &mut Emu, m: &mut MemModel, addr: u16, bytes: &[u8]) {
    for (i, b) in bytes.iter().enumerate() {
        poke(e, m, addr.wrapping_add(i as u16), *b);
    }
}

/// Execute exactly one `Z80::emulate` step (breakpoint after every instruction).
pub fn single_step(e: &mut Emu) -> Result<(), String> {
    e.debug_interface().unwrap().mode = BpMode::Always;
    match e.emulate_frames(LONG) {
        Ok(info) => {
            if info.stop_reason != EmulationStopReason::Breakpoint {
                return Err("single step did not stop on the always-true breakpoint".into());
            }
            Ok(())
        }
        Err(err) => Err(format!("emulate_frames failed: {:?}", err)),
    }
}

/// Execute the straight-line instruction of `len` bytes at the current PC, however many
/// `emulate()` calls the implementation needs for it (prefix bytes may be separate calls).
pub fn step_over(e: &mut Emu, len: u16) -> Result<(), String> {
    let start = e.verif_cpu().regs.get_pc();
    let target = start.wrapping_add(len);
    for _ in 0..4 {
        single_step(e)?;
        if e.verif_cpu().regs.get_pc() == target {
            return Ok(());
        }
    }
    Err(format!(
        "instruction of {} bytes at {:#06x} did not complete in 4 emulate() calls (PC = {:#06x})",
        len,
        start,
        e.verif_cpu().regs.get_pc()
    ))
}

/// Run until PC reaches one of `addrs` (checked after every instruction) or `max_frames`
/// frames have passed. Returns Some(pc) on breakpoint.
pub fn run_to(e: &mut Emu, addrs: &[u16], max_frames: usize) -> Result<Option<u16>, String> {
    {
        let d = e.debug_interface().unwrap();
        d.mode = BpMode::At(addrs.to_vec());
        d.last_hit = None;
    }
    for _ in 0..max_frames {
        match e.emulate_frames(LONG) {
            Ok(info) => {
                if info.stop_reason == EmulationStopReason::Breakpoint {
                    let hit = e.debug_interface().unwrap().last_hit;
                    e.debug_interface().unwrap().mode = BpMode::Never;
                    return Ok(hit);
                }
            }
            Err(err) => return Err(format!("emulate_frames failed: {:?}", err)),
        }
    }
    e.debug_interface().unwrap().mode = BpMode::Never;
    Ok(None)
}

/// Run whole frames without breakpoints.
pub fn run_frames(e: &mut Emu, n: usize) -> Result<(), String> {
    e.debug_interface().unwrap().mode = BpMode::Never;
    for _ in 0..n {
        e.emulate_frames(LONG).map_err(|err| format!("emulate_frames failed: {:?}", err))?;
    }
    Ok(())
}
