//! Harness-side implementation of the rustzx `Host` trait family: recording frame buffers,
//! scripted stopwatch, scripted debug interface, logging I/O extender and a zoo of assets
//! (in-memory, short-read, fault-injecting, real file, gzip).

use rustzx_core::{
    error::IoError,
    host::{
        DebugInterface, FrameBuffer, FrameBufferSource, Host, HostContext, IoExtender,
        LoadableAsset, RomFormat, RomSet, SeekFrom, SeekableAsset, Stopwatch,
    },
    zx::{
        machine::ZXMachine,
        sound::ay::ZXAYMode,
        video::colors::{ZXBrightness, ZXColor},
    },
    EmulationMode, Emulator, RustzxSettings,
};
use std::{
    cell::RefCell,
    sync::{
        atomic::{AtomicUsize, Ordering},
        Arc,
    },
    time::Duration,
};

// ---------------------------------------------------------------------------------------
// Frame buffer

#[derive(Clone)]
pub struct FbContext;

/// Records one byte per pixel: colour (0..7) | bright << 3; 0xFF = never written.
pub struct RecFrameBuffer {
    pub width: usize,
    pub height: usize,
    pub is_border: bool,
    pub px: Vec<u8>,
    pub writes: u64,
}

impl FrameBuffer for RecFrameBuffer {
    type Context = FbContext;

    fn new(width: usize, height: usize, source: FrameBufferSource, _context: FbContext) -> Self {
        Self {
            width,
            height,
            is_border: matches!(source, FrameBufferSource::Border),
            px: vec![0xFF; width * height],
            writes: 0,
        }
    }

    fn set_color(&mut self, x: usize, y: usize, color: ZXColor, brightness: ZXBrightness) {
        assert!(
            x < self.width && y < self.height,
            "frame buffer write out of bounds: ({}, {}) in {}x{}",
            x,
            y,
            self.width,
            self.height
        );
        self.px[y * self.width + x] = (color as u8) | ((brightness as u8) << 3);
        self.writes += 1;
    }
}

// ---------------------------------------------------------------------------------------
// Stopwatch — `Stopwatch::new()` has no context, so the script lives in a thread local.

#[derive(Clone, Debug, Default)]
pub struct StopwatchScript {
    /// successive values returned by `measure()` in microseconds; the last one repeats
    pub readings_us: Vec<u64>,
    pub pos: usize,
    pub calls: usize,
}

thread_local! {
    pub static STOPWATCH: RefCell<StopwatchScript> = RefCell::new(StopwatchScript::default());
}

pub fn set_stopwatch_script(readings_us: Vec<u64>) {
    STOPWATCH.with(|s| {
        *s.borrow_mut() = StopwatchScript {
            readings_us,
            pos: 0,
            calls: 0,
        }
    });
}

pub struct ScriptedStopwatch;

impl Stopwatch for ScriptedStopwatch {
    fn new() -> Self {
        ScriptedStopwatch
    }

    fn measure(&self) -> Duration {
        STOPWATCH.with(|s| {
            let mut s = s.borrow_mut();
            s.calls += 1;
            if s.readings_us.is_empty() {
                return Duration::from_micros(0);
            }
            let idx = s.pos.min(s.readings_us.len() - 1);
            s.pos += 1;
            Duration::from_micros(s.readings_us[idx])
        })
    }
}

// ---------------------------------------------------------------------------------------
// Debug interface

#[derive(Clone, Debug)]
pub enum BpMode {
    Never,
    /// stop after every instruction
    Always,
    /// stop when PC hits one of these
    At(Vec<u16>),
    /// stop after the n-th callback (counting from 1); then becomes Never
    AfterCalls(u64),
}

pub struct ScriptedDebug {
    pub mode: BpMode,
    pub calls: u64,
    pub last_hit: Option<u16>,
}

impl Default for ScriptedDebug {
    fn default() -> Self {
        Self {
            mode: BpMode::Never,
            calls: 0,
            last_hit: None,
        }
    }
}

impl DebugInterface for ScriptedDebug {
    fn check_pc_breakpoint(&mut self, addr: u16) -> bool {
        self.calls += 1;
        let hit = match &mut self.mode {
            BpMode::Never => false,
            BpMode::Always => true,
            BpMode::At(v) => v.contains(&addr),
            BpMode::AfterCalls(n) => {
                if *n <= 1 {
                    self.mode = BpMode::Never;
                    true
                } else {
                    *n -= 1;
                    false
                }
            }
        };
        if hit {
            self.last_hit = Some(addr);
        }
        hit
    }
}

// ---------------------------------------------------------------------------------------
// I/O extender with a generated claim predicate and an access log

#[derive(Clone, Debug, PartialEq, Eq)]
pub enum IoLog {
    Read(u16, u8),
    Write(u16, u8),
}

pub struct LoggingExtender {
    /// claims `port` iff for some (mask, value): port & mask == value
    pub claims: Vec<(u16, u16)>,
    pub log: Vec<IoLog>,
    /// value returned on read = f(port): low byte of port xor this, so reads are distinguishable
    pub read_xor: u8,
}

impl LoggingExtender {
    pub fn new(claims: Vec<(u16, u16)>, read_xor: u8) -> Self {
        Self {
            claims,
            log: Vec::new(),
            read_xor,
        }
    }
    pub fn claims_port(&self, port: u16) -> bool {
        self.claims.iter().any(|(m, v)| port & m == *v)
    }
    pub fn read_value(&self, port: u16) -> u8 {
        (port as u8) ^ ((port >> 8) as u8) ^ self.read_xor
    }
}

impl IoExtender for LoggingExtender {
    fn write(&mut self, port: u16, data: u8) {
        self.log.push(IoLog::Write(port, data));
    }
    fn read(&mut self, port: u16) -> u8 {
        let v = self.read_value(port);
        self.log.push(IoLog::Read(port, v));
        v
    }
    fn extends_port(&self, port: u16) -> bool {
        self.claims_port(port)
    }
}

// ---------------------------------------------------------------------------------------
// Assets

pub trait AssetObj: LoadableAsset + SeekableAsset + Send {}
impl<T: LoadableAsset + SeekableAsset + Send> AssetObj for T {}

pub struct DynAsset(pub Box<dyn AssetObj>);

impl DynAsset {
    pub fn new(a: impl AssetObj + 'static) -> Self {
        DynAsset(Box::new(a))
    }
}

impl LoadableAsset for DynAsset {
    fn read(&mut self, buf: &mut [u8]) -> Result<usize, IoError> {
        self.0.read(buf)
    }
}
impl SeekableAsset for DynAsset {
    fn seek(&mut self, pos: SeekFrom) -> Result<usize, IoError> {
        self.0.seek(pos)
    }
}

/// What a well-behaved in-memory asset does; written independently of `BufferCursor`:
/// `read` returns Ok(0) at end of data (the documented contract of `LoadableAsset::read`).
pub struct MemAsset {
    pub data: Arc<Vec<u8>>,
    pub pos: usize,
    /// maximum bytes returned per read call (0 = unlimited)
    pub chunk: usize,
    pub stats: Arc<AssetStats>,
}

#[derive(Default)]
pub struct AssetStats {
    pub reads: AtomicUsize,
    pub seeks: AtomicUsize,
    pub zero_reads: AtomicUsize,
    pub bytes: AtomicUsize,
}

impl MemAsset {
    pub fn new(data: Vec<u8>) -> Self {
        Self {
            data: Arc::new(data),
            pos: 0,
            chunk: 0,
            stats: Arc::new(AssetStats::default()),
        }
    }
    pub fn chunked(data: Vec<u8>, chunk: usize) -> Self {
        let mut a = Self::new(data);
        a.chunk = chunk;
        a
    }
}

/// Deterministic bound on work: an asset that is asked to read again after this many
/// zero-length results is being driven by a loop that ignores EOF.
pub const ZERO_READ_LIMIT: usize = 100_000;
pub const HANG_PANIC_MSG: &str = "VERIF-HANG: loader kept reading after end of data";

impl LoadableAsset for MemAsset {
    fn read(&mut self, buf: &mut [u8]) -> Result<usize, IoError> {
        self.stats.reads.fetch_add(1, Ordering::Relaxed);
        let left = self.data.len().saturating_sub(self.pos);
        let mut n = buf.len().min(left);
        if self.chunk != 0 {
            n = n.min(self.chunk);
        }
        if n == 0 {
            let z = self.stats.zero_reads.fetch_add(1, Ordering::Relaxed);
            if z > ZERO_READ_LIMIT {
                panic!("{}", HANG_PANIC_MSG);
            }
            return Ok(0);
        }
        buf[..n].copy_from_slice(&self.data[self.pos..self.pos + n]);
        self.pos += n;
        self.stats.bytes.fetch_add(n, Ordering::Relaxed);
        Ok(n)
    }
}

impl SeekableAsset for MemAsset {
    fn seek(&mut self, pos: SeekFrom) -> Result<usize, IoError> {
        self.stats.seeks.fetch_add(1, Ordering::Relaxed);
        let new_pos: i128 = match pos {
            SeekFrom::Start(p) => p as i128,
            SeekFrom::End(o) => self.data.len() as i128 + o as i128,
            SeekFrom::Current(o) => self.pos as i128 + o as i128,
        };
        if new_pos < 0 {
            return Err(IoError::SeekBeforeStart);
        }
        // seeking beyond the end is allowed, as with files
        self.pos = new_pos.min(usize::MAX as i128 / 4) as usize;
        Ok(self.pos)
    }
}

#[derive(Clone, Copy, Debug, PartialEq, Eq, serde::Serialize, serde::Deserialize)]
pub enum Fault {
    /// the call fails with HostAssetImplFailed
    Err,
    /// a read returns at most this many bytes (≥1) — legal short read
    Short(usize),
    /// a read returns Ok(0) although data is left (behaves like a premature EOF)
    Eof,
}

/// Asset that injects one fault at the k-th call (reads and seeks counted together, from 0).
/// `sticky`: after the fault every later call fails too (a dead device).
pub struct FaultAsset {
    pub inner: MemAsset,
    pub at_call: usize,
    pub fault: Fault,
    pub sticky: bool,
    pub calls: Arc<AtomicUsize>,
    pub fired: Arc<AtomicUsize>,
}

impl FaultAsset {
    pub fn new(data: Vec<u8>, at_call: usize, fault: Fault, sticky: bool) -> Self {
        Self {
            inner: MemAsset::new(data),
            at_call,
            fault,
            sticky,
            calls: Arc::new(AtomicUsize::new(0)),
            fired: Arc::new(AtomicUsize::new(0)),
        }
    }
    fn tick(&self) -> bool {
        let k = self.calls.fetch_add(1, Ordering::Relaxed);
        let fire = k == self.at_call || (self.sticky && k > self.at_call);
        if fire {
            self.fired.fetch_add(1, Ordering::Relaxed);
        }
        fire
    }
}

impl LoadableAsset for FaultAsset {
    fn read(&mut self, buf: &mut [u8]) -> Result<usize, IoError> {
        if self.tick() {
            match self.fault {
                Fault::Err => return Err(IoError::HostAssetImplFailed),
                Fault::Short(n) => {
                    let n = n.max(1).min(buf.len());
                    return self.inner.read(&mut buf[..n]);
                }
                Fault::Eof => {
                    let z = self.inner.stats.zero_reads.fetch_add(1, Ordering::Relaxed);
                    if z > ZERO_READ_LIMIT {
                        panic!("{}", HANG_PANIC_MSG);
                    }
                    return Ok(0);
                }
            }
        }
        self.inner.read(buf)
    }
}

impl SeekableAsset for FaultAsset {
    fn seek(&mut self, pos: SeekFrom) -> Result<usize, IoError> {
        if self.tick() {
            if let Fault::Err = self.fault {
                return Err(IoError::HostAssetImplFailed);
            }
        }
        self.inner.seek(pos)
    }
}

/// `RomSet` over in-memory pages
pub struct MemRomSet {
    pub pages: std::collections::VecDeque<Vec<u8>>,
    /// the page assets return at most this many bytes per read call (0 = no limit)
    pub chunk: usize,
}

impl RomSet for MemRomSet {
    type Asset = MemAsset;
    fn format(&self) -> RomFormat {
        RomFormat::Binary16KPages
    }
    fn next_asset(&mut self) -> Option<MemAsset> {
        let chunk = self.chunk;
        self.pages.pop_front().map(|p| MemAsset::chunked(p, chunk))
    }
}

// ---------------------------------------------------------------------------------------
// Host

pub struct VContext;

impl HostContext<VHost> for VContext {
    fn frame_buffer_context(&self) -> FbContext {
        FbContext
    }
}

pub struct VHost;

impl Host for VHost {
    type Context = VContext;
    type TapeAsset = DynAsset;
    type FrameBuffer = RecFrameBuffer;
    type EmulationStopwatch = ScriptedStopwatch;
    type IoExtender = LoggingExtender;
    type DebugInterface = ScriptedDebug;
}

pub type Emu = Emulator<VHost>;

#[derive(Clone, Copy, Debug, PartialEq, Eq, Hash, serde::Serialize, serde::Deserialize)]
pub enum Machine {
    K48,
    K128,
}

impl Machine {
    pub fn zx(self) -> ZXMachine {
        match self {
            Machine::K48 => ZXMachine::Sinclair48K,
            Machine::K128 => ZXMachine::Sinclair128K,
        }
    }
    pub fn frame_len(self) -> usize {
        match self {
            Machine::K48 => 69888,
            Machine::K128 => 70908,
        }
    }
    pub fn line_len(self) -> usize {
        match self {
            Machine::K48 => 224,
            Machine::K128 => 228,
        }
    }
    /// T0 of the contention pattern as stated in property C04
    pub fn t0(self) -> usize {
        match self {
            Machine::K48 => 14335,
            Machine::K128 => 14361,
        }
    }
    pub fn ram_banks(self) -> u8 {
        match self {
            Machine::K48 => 3,
            Machine::K128 => 8,
        }
    }
}

#[derive(Clone, Copy, Debug)]
pub struct EmuOpts {
    pub machine: Machine,
    pub kempston: bool,
    pub mouse: bool,
    pub fastload: bool,
    pub sound: bool,
    pub beeper: bool,
    pub ay: bool,
    pub ay_mode: u8,
    pub volume: u8,
    pub sample_rate: usize,
    pub default_rom: bool,
    pub autoload: bool,
    pub mode_frames: usize,
}

impl EmuOpts {
    pub fn new(machine: Machine) -> Self {
        Self {
            machine,
            kempston: false,
            mouse: false,
            fastload: false,
            sound: false,
            beeper: false,
            ay: false,
            ay_mode: 0,
            volume: 100,
            sample_rate: 44100,
            default_rom: true,
            autoload: false,
            mode_frames: 1,
        }
    }
}

pub fn settings(o: &EmuOpts) -> RustzxSettings {
    RustzxSettings {
        machine: o.machine.zx(),
        emulation_mode: EmulationMode::FrameCount(o.mode_frames),
        tape_fastload_enabled: o.fastload,
        kempston_enabled: o.kempston,
        mouse_enabled: o.mouse,
        ay_mode: match o.ay_mode % 3 {
            0 => ZXAYMode::Mono,
            1 => ZXAYMode::ABC,
            _ => ZXAYMode::ACB,
        },
        ay_enabled: o.ay,
        beeper_enabled: o.beeper,
        sound_enabled: o.sound,
        sound_volume: o.volume,
        sound_sample_rate: o.sample_rate,
        load_default_rom: o.default_rom,
        autoload_enabled: o.autoload,
    }
}

pub fn mk_emu(o: &EmuOpts) -> Emu {
    let mut e = Emulator::<VHost>::new(settings(o), VContext).unwrap_or_else(|_| panic!("Emulator::new failed"));
    e.set_debug_interface(ScriptedDebug::default());
    e
}

pub const LONG: Duration = Duration::from_secs(3600);
