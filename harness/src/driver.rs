//! proptest `TestRunner` glue: sharded fixed-work exploration, statistics that stop at the
//! first failure, shrinking to a replay file, evidence writing, known-findings file.

use proptest::{
    strategy::Strategy,
    test_runner::{Config, RngAlgorithm, TestCaseError, TestError, TestRng, TestRunner},
};
use serde::{de::DeserializeOwned, Serialize};
use serde_json::{json, Value};
use std::{
    cell::RefCell,
    collections::{BTreeMap, HashSet},
    fmt::Debug,
    panic::{catch_unwind, AssertUnwindSafe},
    sync::Mutex,
    time::Instant,
};

pub const THREADS: usize = 16;

#[derive(Clone, Copy, Debug, PartialEq, Eq)]
pub enum Tier {
    Quick,
    Thorough,
}

impl Tier {
    pub fn name(self) -> &'static str {
        match self {
            Tier::Quick => "quick",
            Tier::Thorough => "thorough",
        }
    }
    /// pick the fixed-work budget for this tier
    pub fn pick(self, quick: usize, thorough: usize) -> usize {
        match self {
            Tier::Quick => quick,
            Tier::Thorough => thorough,
        }
    }
}

// ---------------------------------------------------------------------------------------
// panic capture

thread_local! {
    static LAST_PANIC: RefCell<String> = RefCell::new(String::new());
}

pub fn install_panic_hook() {
    std::panic::set_hook(Box::new(|info| {
        let msg = if let Some(s) = info.payload().downcast_ref::<&str>() {
            s.to_string()
        } else if let Some(s) = info.payload().downcast_ref::<String>() {
            s.clone()
        } else {
            "<non-string panic>".to_string()
        };
        let loc = info
            .location()
            .map(|l| format!("{}:{}", l.file(), l.line()))
            .unwrap_or_default();
        if std::env::var("VERIF_PANIC_TRACE").is_ok() {
            eprintln!("panic: {} @ {}", msg, loc);
        }
        LAST_PANIC.with(|p| *p.borrow_mut() = format!("{} @ {}", msg, loc));
    }));
}

/// Runs `f`, turning a panic into Err(message @ file:line).
pub fn guard<R>(f: impl FnOnce() -> R) -> Result<R, String> {
    match catch_unwind(AssertUnwindSafe(f)) {
        Ok(r) => Ok(r),
        Err(_) => Err(LAST_PANIC.with(|p| p.borrow().clone())),
    }
}

// ---------------------------------------------------------------------------------------
// statistics

/// Per-case recorder handed to the check closure.
#[derive(Default)]
pub struct Rec {
    pub evals: u64,
    pub nontrivial: Vec<u64>,
    pub classes: Vec<(String, u64)>,
}

impl Rec {
    /// one oracle evaluation
    pub fn eval(&mut self) {
        self.evals += 1;
    }
    pub fn evals(&mut self, n: u64) {
        self.evals += n;
    }
    /// the case (or a sub-case) was non-trivial by the property's rule; `fp` = fingerprint for
    /// distinctness
    pub fn nontrivial(&mut self, fp: u64) {
        self.nontrivial.push(fp);
    }
    pub fn class(&mut self, name: &str) {
        self.classes.push((name.to_string(), 1));
    }
    pub fn class_n(&mut self, name: &str, n: u64) {
        if n > 0 {
            self.classes.push((name.to_string(), n));
        }
    }
}

#[derive(Default)]
pub struct Stats {
    pub cases: u64,
    pub evaluations: u64,
    pub nontrivial: HashSet<u64>,
    pub classes: BTreeMap<String, u64>,
    pub samples: Vec<Value>,
    frozen: bool,
}

impl Stats {
    pub fn absorb(&mut self, r: Rec) {
        if self.frozen {
            return;
        }
        self.cases += 1;
        self.evaluations += r.evals.max(1);
        for fp in r.nontrivial {
            self.nontrivial.insert(fp);
        }
        for (k, n) in r.classes {
            *self.classes.entry(k).or_insert(0) += n;
        }
    }
    pub fn merge(&mut self, o: Stats) {
        self.cases += o.cases;
        self.evaluations += o.evaluations;
        self.nontrivial.extend(o.nontrivial);
        for (k, n) in o.classes {
            *self.classes.entry(k).or_insert(0) += n;
        }
        for s in o.samples {
            if self.samples.len() < 6 {
                self.samples.push(s);
            }
        }
    }
}

pub fn fnv(data: &[u8]) -> u64 {
    let mut h: u64 = 0xcbf29ce484222325;
    for b in data {
        h ^= *b as u64;
        h = h.wrapping_mul(0x100000001b3);
    }
    h
}

pub fn fp_of<T: Serialize>(t: &T) -> u64 {
    fnv(serde_json::to_string(t).unwrap_or_default().as_bytes())
}

/// Abbreviate long arrays so samples stay readable.
pub fn abbreviate(v: Value) -> Value {
    match v {
        Value::Array(a) => {
            let n = a.len();
            if n > 48 {
                let mut out: Vec<Value> = a.into_iter().take(32).map(abbreviate).collect();
                out.push(Value::String(format!("… {} more of {}", n - 32, n)));
                Value::Array(out)
            } else {
                Value::Array(a.into_iter().map(abbreviate).collect())
            }
        }
        Value::Object(m) => Value::Object(m.into_iter().map(|(k, v)| (k, abbreviate(v))).collect()),
        o => o,
    }
}

// ---------------------------------------------------------------------------------------
// one exploration phase

pub struct Failure {
    pub phase: String,
    pub reason: String,
    pub case: Value,
}

pub struct Phase {
    pub wall_s: f64,
    pub name: String,
    pub stats: Stats,
    pub failure: Option<Failure>,
    pub exhaustive: bool,
}

pub struct Run {
    pub id: &'static str,
    pub seed: u64,
    pub tier: Tier,
    pub started: Instant,
    pub phases: Vec<Phase>,
    pub known_lines: Vec<String>,
    pub excluded_known: BTreeMap<String, u64>,
    pub notes: Vec<String>,
    pub extra: BTreeMap<String, Value>,
    pub infra_error: Option<String>,
}

fn seed_bytes(seed: u64, id: &str, phase: &str, shard: usize) -> [u8; 32] {
    let mut out = [0u8; 32];
    let h1 = fnv(format!("{}|{}|{}|{}", seed, id, phase, shard).as_bytes());
    let h2 = fnv(format!("{}#{}#{}#{}", shard, phase, id, seed).as_bytes());
    out[0..8].copy_from_slice(&h1.to_le_bytes());
    out[8..16].copy_from_slice(&h2.to_le_bytes());
    out[16..24].copy_from_slice(&seed.to_le_bytes());
    out[24..32].copy_from_slice(&(h1 ^ h2.rotate_left(17)).to_le_bytes());
    out
}

impl Run {
    pub fn new(id: &'static str, seed: u64, tier: Tier) -> Self {
        Self {
            id,
            seed,
            tier,
            started: Instant::now(),
            phases: Vec::new(),
            known_lines: Vec::new(),
            excluded_known: BTreeMap::new(),
            notes: Vec::new(),
            extra: BTreeMap::new(),
            infra_error: None,
        }
    }

    pub fn failed(&self) -> bool {
        self.phases.iter().any(|p| p.failure.is_some())
    }

    /// Generated exploration: `cases` cases in total, split over THREADS shards, each with
    /// its own seeded TestRunner. The first failing shard result (smallest serialisation) wins.
    pub fn explore<T, S, F>(&mut self, phase: &str, cases: usize, mk_strategy: impl Fn() -> S + Sync, check: F)
    where
        S: Strategy<Value = T>,
        T: Debug + Clone + Serialize + Send,
        F: Fn(&T, &mut Rec) -> Result<(), String> + Sync,
    {
        let t_phase = Instant::now();
        let shards = THREADS.min(cases.max(1));
        let per = (cases + shards - 1) / shards;
        let results: Mutex<Vec<(Stats, Option<(String, Value)>)>> = Mutex::new(Vec::new());
        let aborts: Mutex<Vec<String>> = Mutex::new(Vec::new());
        let id = self.id;
        let seed = self.seed;
        std::thread::scope(|sc| {
            for shard in 0..shards {
                let results = &results;
                let aborts = &aborts;
                let mk_strategy = &mk_strategy;
                let check = &check;
                sc.spawn(move || {
                    let cfg = Config {
                        cases: per as u32,
                        failure_persistence: None,
                        max_shrink_iters: 3000,
                        max_shrink_time: 0,
                        verbose: 0,
                        max_global_rejects: 65536,
                        ..Config::default()
                    };
                    let rng = TestRng::from_seed(RngAlgorithm::ChaCha, &seed_bytes(seed, id, phase, shard));
                    let mut runner = TestRunner::new_with_rng(cfg, rng);
                    let stats = RefCell::new(Stats::default());
                    let strategy = mk_strategy();
                    let res = runner.run(&strategy, |case| {
                        let mut rec = Rec::default();
                        let r = match guard(|| check(&case, &mut rec)) {
                            Ok(r) => r,
                            Err(p) => Err(format!("panic: {}", p)),
                        };
                        let mut st = stats.borrow_mut();
                        match r {
                            Ok(()) => {
                                if !st.frozen && shard == 0 && st.samples.len() < 4 {
                                    let v = abbreviate(serde_json::to_value(&case).unwrap_or(Value::Null));
                                    st.samples.push(v);
                                }
                                st.absorb(rec);
                                Ok(())
                            }
                            Err(e) => {
                                st.frozen = true;
                                Err(TestCaseError::fail(e))
                            }
                        }
                    });
                    let fail = match res {
                        Ok(()) => None,
                        Err(TestError::Fail(reason, value)) => Some((
                            reason.message().to_string(),
                            serde_json::to_value(&value).unwrap_or(Value::Null),
                        )),
                        Err(TestError::Abort(reason)) => {
                            // generator trouble (too many rejects): infrastructure, never a violation
                            aborts.lock().unwrap().push(reason.message().to_string());
                            None
                        }
                    };
                    results.lock().unwrap().push((stats.into_inner(), fail));
                });
            }
        });
        if let Some(a) = aborts.into_inner().unwrap().first() {
            self.infra_error = Some(format!("phase {}: proptest aborted: {}", phase, a));
        }
        let mut stats = Stats::default();
        let mut failure: Option<Failure> = None;
        for (st, f) in results.into_inner().unwrap() {
            stats.merge(st);
            if let Some((reason, case)) = f {
                let size = case.to_string().len();
                let better = match &failure {
                    None => true,
                    Some(old) => size < old.case.to_string().len(),
                };
                if better {
                    failure = Some(Failure {
                        phase: phase.to_string(),
                        reason,
                        case,
                    });
                }
            }
        }
        self.phases.push(Phase {
            wall_s: t_phase.elapsed().as_secs_f64(),
            name: phase.to_string(),
            stats,
            failure,
            exhaustive: false,
        });
    }

    /// Deterministic enumeration of a finite space, split over THREADS by index.
    pub fn enumerate<T, F>(&mut self, phase: &str, items: Vec<T>, exhaustive: bool, check: F)
    where
        T: Debug + Clone + Serialize + Send + Sync,
        F: Fn(&T, &mut Rec) -> Result<(), String> + Sync,
    {
        let t_phase = Instant::now();
        let n = items.len();
        let results: Mutex<Vec<(Stats, Option<(String, Value)>)>> = Mutex::new(Vec::new());
        let next = std::sync::atomic::AtomicUsize::new(0);
        std::thread::scope(|sc| {
            for shard in 0..THREADS.min(n.max(1)) {
                let results = &results;
                let items = &items;
                let check = &check;
                let next = &next;
                sc.spawn(move || {
                    let mut st = Stats::default();
                    let mut fail = None;
                    loop {
                        let i = next.fetch_add(1, std::sync::atomic::Ordering::Relaxed);
                        if i >= n {
                            break;
                        }
                        let case = &items[i];
                        let mut rec = Rec::default();
                        let r = match guard(|| check(case, &mut rec)) {
                            Ok(r) => r,
                            Err(p) => Err(format!("panic: {}", p)),
                        };
                        match r {
                            Ok(()) => {
                                if shard == 0 && st.samples.len() < 4 {
                                    st.samples
                                        .push(abbreviate(serde_json::to_value(case).unwrap_or(Value::Null)));
                                }
                                st.absorb(rec);
                            }
                            Err(e) => {
                                if fail.is_none() {
                                    fail = Some((e, serde_json::to_value(case).unwrap_or(Value::Null)));
                                }
                                break;
                            }
                        }
                    }
                    results.lock().unwrap().push((st, fail));
                });
            }
        });
        let mut stats = Stats::default();
        let mut failure: Option<Failure> = None;
        for (st, f) in results.into_inner().unwrap() {
            stats.merge(st);
            if let Some((reason, case)) = f {
                let better = match &failure {
                    None => true,
                    Some(old) => case.to_string().len() < old.case.to_string().len(),
                };
                if better {
                    failure = Some(Failure {
                        phase: phase.to_string(),
                        reason,
                        case,
                    });
                }
            }
        }
        let failed = failure.is_some();
        self.phases.push(Phase {
            wall_s: t_phase.elapsed().as_secs_f64(),
            name: phase.to_string(),
            stats,
            failure,
            exhaustive: exhaustive && !failed,
        });
    }

    /// Replay of one stored case (bypasses proptest).
    pub fn replay_one<T, F>(&mut self, phase: &str, case: &Value, check: F) -> Result<(), String>
    where
        T: DeserializeOwned + Debug,
        F: Fn(&T, &mut Rec) -> Result<(), String>,
    {
        let t: T = serde_json::from_value(case.clone()).map_err(|e| format!("cannot decode replay case: {}", e))?;
        let mut rec = Rec::default();
        let r = match guard(|| check(&t, &mut rec)) {
            Ok(r) => r,
            Err(p) => Err(format!("panic: {}", p)),
        };
        let mut st = Stats::default();
        st.absorb(rec);
        let failure = r.as_ref().err().map(|e| Failure {
            phase: phase.to_string(),
            reason: e.clone(),
            case: case.clone(),
        });
        self.phases.push(Phase {
            wall_s: 0.0,
            name: format!("replay:{}", phase),
            stats: st,
            failure,
            exhaustive: false,
        });
        r
    }

    pub fn known(&mut self, what: &str) {
        let line = format!("KNOWN-FINDING: property={} {}", self.id, what);
        println!("{}", line);
        self.known_lines.push(line);
    }

    pub fn excluded(&mut self, key: &str, n: u64) {
        *self.excluded_known.entry(key.to_string()).or_insert(0) += n;
    }

    pub fn note(&mut self, s: impl Into<String>) {
        self.notes.push(s.into());
    }

    /// Writes evidence, replay files, prints verdict lines; returns process exit code.
    pub fn finish(self, level: &str, rule: &str, assumptions: &[&str]) -> i32 {
        if let Some(e) = &self.infra_error {
            eprintln!("INCONCLUSIVE property={} {}", self.id, e);
            if !self.failed() {
                return 2;
            }
        }
        let wall = self.started.elapsed().as_secs_f64();
        let mut evaluations = 0u64;
        let mut cases = 0u64;
        let mut nontrivial: HashSet<u64> = HashSet::new();
        let mut classes: BTreeMap<String, u64> = BTreeMap::new();
        let mut samples: Vec<Value> = Vec::new();
        let mut phases_json = Vec::new();
        let mut violations = 0;
        let mut all_exhaustive = !self.phases.is_empty();
        for p in &self.phases {
            evaluations += p.stats.evaluations;
            cases += p.stats.cases;
            // fingerprints are per phase: mix in the phase name
            let ph = fnv(p.name.as_bytes());
            for fp in &p.stats.nontrivial {
                nontrivial.insert(fp ^ ph);
            }
            for (k, n) in &p.stats.classes {
                *classes.entry(format!("{}/{}", p.name, k)).or_insert(0) += n;
            }
            for s in p.stats.samples.iter().take(3) {
                samples.push(json!({"phase": p.name, "case": s}));
            }
            all_exhaustive &= p.exhaustive;
            phases_json.push(json!({
                "phase": p.name,
                "cases": p.stats.cases,
                "evaluations": p.stats.evaluations,
                "distinct_nontrivial": p.stats.nontrivial.len(),
                "exhaustive": p.exhaustive,
                "failed": p.failure.is_some(),
                "wall_s": p.wall_s,
            }));
            if let Some(f) = &p.failure {
                violations += 1;
                let text = json!({
                    "property": self.id,
                    "phase": f.phase,
                    "reason": f.reason,
                    "case": f.case,
                    "seed": self.seed,
                    "tier": self.tier.name(),
                });
                let body = serde_json::to_string_pretty(&text).unwrap();
                let fpr = fnv(format!("{}{}", f.phase, f.case).as_bytes());
                let dir = replay_dir();
                let _ = std::fs::create_dir_all(&dir);
                let path = format!("{}/{}-{}-{:016x}.json", dir, self.id, f.phase.replace([':', '/'], "_"), fpr);
                let _ = std::fs::write(&path, body);
                println!("VIOLATION property={} replay={}", self.id, path);
                let mut r = f.reason.clone();
                if r.len() > 1500 {
                    r.truncate(1500);
                    r.push('…');
                }
                println!("  phase={} reason: {}", f.phase, r);
            }
        }
        let ev = json!({
            "property_id": self.id,
            "tier": self.tier.name(),
            "seed": self.seed,
            "level": level,
            "coverage": {
                "evaluations": evaluations,
                "cases": cases,
                "distinct_nontrivial": nontrivial.len(),
                "rule": rule,
                "samples": samples,
                "exhaustive": all_exhaustive,
                "phases": phases_json,
                "classes": classes,
                "excluded_known": self.excluded_known,
                "known_findings_reported": self.known_lines,
                "notes": self.notes,
                "extra": self.extra,
            },
            "assumptions": assumptions,
            "wall_s": wall,
            "violations": violations,
        });
        let dir = evidence_dir();
        let _ = std::fs::create_dir_all(&dir);
        let path = format!("{}/{}.json", dir, self.id);
        if let Err(e) = std::fs::write(&path, serde_json::to_string_pretty(&ev).unwrap()) {
            eprintln!("cannot write evidence {}: {}", path, e);
            return 2;
        }
        println!(
            "{} {}: cases={} evaluations={} distinct_nontrivial={} violations={} wall={:.1}s",
            self.id,
            self.tier.name(),
            cases,
            evaluations,
            nontrivial.len(),
            violations,
            wall
        );
        if violations > 0 {
            1
        } else {
            0
        }
    }
}

pub fn verif_root() -> String {
    std::env::var("VERIF_ROOT").unwrap_or_else(|_| "/verif".to_string())
}
pub fn evidence_dir() -> String {
    std::env::var("VERIF_EVIDENCE_DIR").unwrap_or_else(|_| format!("{}/evidence", verif_root()))
}
pub fn replay_dir() -> String {
    std::env::var("VERIF_REPLAY_OUT").unwrap_or_else(|_| format!("{}/replays/new", verif_root()))
}

// ---------------------------------------------------------------------------------------
// known findings

#[derive(Clone, Debug)]
pub struct KnownEntry {
    pub status: String, // open | fixed
    pub property: String,
    pub key: String,
    pub text: String,
}

pub struct Known {
    pub entries: Vec<KnownEntry>,
}

impl Known {
    /// Format, one per line:
    ///   open: property=C17 key=<slug> <what fails>
    ///   fixed: property=C13 key=<slug> <commit> <what failed>
    pub fn load() -> Self {
        let path = format!("{}/known_findings.txt", verif_root());
        let mut entries = Vec::new();
        if let Ok(s) = std::fs::read_to_string(&path) {
            for line in s.lines() {
                let line = line.trim();
                if line.is_empty() || line.starts_with('#') {
                    continue;
                }
                let (status, rest) = match line.split_once(':') {
                    Some(x) => x,
                    None => continue,
                };
                let mut property = String::new();
                let mut key = String::new();
                let mut text = Vec::new();
                for tok in rest.split_whitespace() {
                    if let Some(p) = tok.strip_prefix("property=") {
                        property = p.to_string();
                    } else if let Some(k) = tok.strip_prefix("key=") {
                        key = k.to_string();
                    } else {
                        text.push(tok);
                    }
                }
                entries.push(KnownEntry {
                    status: status.trim().to_string(),
                    property,
                    key,
                    text: text.join(" "),
                });
            }
        }
        Known { entries }
    }

    pub fn open(&self, property: &str, key: &str) -> Option<&KnownEntry> {
        self.entries
            .iter()
            .find(|e| e.status == "open" && e.property == property && e.key == key)
    }
    pub fn is_open(&self, property: &str, key: &str) -> bool {
        self.open(property, key).is_some()
    }
}
