//! C15 — loaders are total: any file or failing asset gives Ok/Err, never crash/hang.

use crate::alloc;
use crate::driver::{fnv, guard, Known, Rec, Run};
use crate::formats::{sna, szx, tap, vtx as vtxw};
use crate::host::{mk_emu, DynAsset, EmuOpts, Fault, FaultAsset, Machine, MemAsset, MemRomSet, HANG_PANIC_MSG, ZERO_READ_LIMIT};
use crate::mach::{self, RegFile};
use crate::props::c14;
use proptest::prelude::*;
use rustzx_core::host::{LoadableAsset, Screen, SeekFrom, SeekableAsset, Snapshot, Tape};
use serde::{Deserialize, Serialize};
use std::io::{Read, Seek};

#[derive(Clone, Copy, Debug, PartialEq, Eq, Hash, Serialize, Deserialize)]
pub enum Target {
    Sna,
    Szx,
    Scr,
    Tap,
    Rom,
    Gzip,
    Vtx,
}

#[derive(Clone, Debug, Serialize, Deserialize)]
pub struct Case {
    pub target: Target,
    pub machine: Machine,
    pub data: Vec<u8>,
    /// fault injected into the asset: (call index, kind, sticky)
    pub fault: Option<(usize, Fault, bool)>,
    /// deliver the bytes through rustzx-core's own BufferCursor instead of the harness asset
    #[serde(default)]
    pub cursor: bool,
}

/// std reader with zero-read loop detection (for Vtx::load and GzipAsset::new)
pub struct StdReader {
    pub data: Vec<u8>,
    pub pos: usize,
    pub zero_reads: usize,
    pub fault: Option<(usize, Fault, bool)>,
    pub calls: usize,
}

impl Read for StdReader {
    fn read(&mut self, buf: &mut [u8]) -> std::io::Result<usize> {
        let k = self.calls;
        self.calls += 1;
        if self.calls > 20_000_000 {
            // no loader needs this many reads for <= 160 KiB: it is looping
            panic!("{} ({} read calls, position {} of {}, request {} bytes)", HANG_PANIC_MSG, self.calls, self.pos, self.data.len(), buf.len());
        }
        if let Some((at, kind, sticky)) = self.fault {
            if k == at || (sticky && k > at) {
                match kind {
                    Fault::Err => return Err(std::io::Error::new(std::io::ErrorKind::Other, "injected")),
                    Fault::Eof => {
                        self.zero_reads += 1;
                        if self.zero_reads > ZERO_READ_LIMIT {
                            panic!("{}", HANG_PANIC_MSG);
                        }
                        return Ok(0);
                    }
                    Fault::Short(n) => {
                        let n = n.max(1).min(buf.len()).min(self.data.len().saturating_sub(self.pos));
                        if n == 0 && !buf.is_empty() {
                            self.zero_reads += 1;
                            if self.zero_reads > ZERO_READ_LIMIT {
                                panic!("{}", HANG_PANIC_MSG);
                            }
                        }
                        buf[..n].copy_from_slice(&self.data[self.pos..self.pos + n]);
                        self.pos += n;
                        return Ok(n);
                    }
                }
            }
        }
        let n = buf.len().min(self.data.len().saturating_sub(self.pos));
        if n == 0 && !buf.is_empty() {
            self.zero_reads += 1;
            if self.zero_reads > ZERO_READ_LIMIT {
                panic!("{}", HANG_PANIC_MSG);
            }
            return Ok(0);
        }
        buf[..n].copy_from_slice(&self.data[self.pos..self.pos + n]);
        self.pos += n;
        Ok(n)
    }
}

impl Seek for StdReader {
    fn seek(&mut self, pos: std::io::SeekFrom) -> std::io::Result<u64> {
        let np: i128 = match pos {
            std::io::SeekFrom::Start(p) => p as i128,
            std::io::SeekFrom::End(o) => self.data.len() as i128 + o as i128,
            std::io::SeekFrom::Current(o) => self.pos as i128 + o as i128,
        };
        if np < 0 {
            return Err(std::io::Error::new(std::io::ErrorKind::InvalidInput, "seek before start"));
        }
        self.pos = np.min(1 << 40) as usize;
        Ok(self.pos as u64)
    }
}

fn asset(c: &Case) -> DynAsset {
    match c.fault {
        None if c.cursor => DynAsset::new(rustzx_core::host::BufferCursor::new(c.data.clone())),
        None => DynAsset::new(MemAsset::new(c.data.clone())),
        Some((at, kind, sticky)) => DynAsset::new(FaultAsset::new(c.data.clone(), at, kind, sticky)),
    }
}

/// classification of a failure for known-finding matching
pub fn signature(msg: &str) -> String {
    // "panic: <text> @ <file>:<line>" -> "<file-name>:<first words of text>"
    let (text, loc) = match msg.rsplit_once(" @ ") {
        Some((t, l)) => (t, l),
        None => (msg, ""),
    };
    let file = loc.rsplit('/').next().unwrap_or("").split(':').next().unwrap_or("");
    let words: Vec<&str> = text.trim_start_matches("panic: ").split_whitespace().take(4).collect();
    format!("{}:{}", file, words.join("_"))
}

pub fn exercise(c: &Case, rec: &mut Rec) -> Result<(), String> {
    let limit = (16usize << 20).max(64 * c.data.len());
    alloc::arm();
    let outcome = guard(|| -> Result<&'static str, String> {
        match c.target {
            Target::Vtx => {
                let r = StdReader { data: c.data.clone(), pos: 0, zero_reads: 0, fault: c.fault, calls: 0 };
                match vtx::Vtx::load(r) {
                    Ok(v) => {
                        // playing what was loaded is part of using the file
                        if v.player_frequency != 0 {
                            let mut p = vtx::player::PrecisePlayer::new(v, 44100, true);
                            let mut buf = vec![0i16; 4096];
                            let _ = p.play(&mut buf);
                        }
                        Ok("ok")
                    }
                    Err(_) => Ok("err"),
                }
            }
            Target::Gzip => {
                let r = StdReader { data: c.data.clone(), pos: 0, zero_reads: 0, fault: c.fault, calls: 0 };
                match rustzx_utils::io::GzipAsset::new(r) {
                    Ok(mut a) => {
                        let mut b = [0u8; 64];
                        let _ = a.seek(SeekFrom::End(0));
                        let _ = a.seek(SeekFrom::Start(0));
                        let _ = a.read(&mut b);
                        Ok("ok")
                    }
                    Err(_) => Ok("err"),
                }
            }
            _ => {
                let mut o = EmuOpts::new(c.machine);
                o.fastload = true;
                let mut e = mk_emu(&o);
                // an idle program so that the frames afterwards are well defined when the load fails
                let page = if c.machine == Machine::K48 { 1 } else { 2 };
                e.verif_ram_page_mut(page)[0..3].copy_from_slice(&[0xF3, 0x18, 0xFE]);
                mach::set_regs(&mut e, &RegFile { pc: 0x8000, sp: 0xBF00, ..Default::default() });
                // two thirds of the receivers are stopped somewhere inside a frame (a host that loads
                // a file from its debugger / menu), the rest stand at the frame start
                if fnv(&c.data) % 3 != 0 {
                    let n = 1 + fnv(&c.data) / 3 % 17_000;
                    e.debug_interface().unwrap().mode = crate::host::BpMode::AfterCalls(n);
                    let _ = e.emulate_frames(crate::host::LONG);
                    e.debug_interface().unwrap().mode = crate::host::BpMode::Never;
                }
                let res: Result<(), String> = match c.target {
                    Target::Sna => e.load_snapshot(Snapshot::Sna(asset(c))).map_err(|x| format!("{:?}", x)),
                    Target::Szx => e.load_snapshot(Snapshot::Szx(asset(c))).map_err(|x| format!("{:?}", x)),
                    Target::Scr => e.load_screen(Screen::Scr(asset(c))).map_err(|x| format!("{:?}", x)),
                    Target::Rom => {
                        let n = if c.machine == Machine::K48 { 1 } else { 2 };
                        let per = c.data.len() / n.max(1);
                        let pages = (0..n).map(|i| c.data[i * per..(i + 1) * per].to_vec()).collect();
                        e.load_rom(MemRomSet { pages, chunk: 0 }).map_err(|x| format!("{:?}", x))
                    }
                    Target::Tap => {
                        let mut r = e.load_tape(Tape::Tap(asset(c))).map_err(|x| format!("{:?}", x));
                        if r.is_ok() {
                            // fast-load request through the ROM, then play in real time for > 2 M T-states
                            if c.machine == Machine::K128 {
                                e.verif_set_paging(0x10);
                            }
                            e.verif_ram_page_mut(page)[0x10..0x16].copy_from_slice(&[0xCD, 0x56, 0x05, 0xF3, 0x18, 0xFE]);
                            mach::set_regs(&mut e, &RegFile { pc: 0x8010, sp: 0xBF00, ix: 0xC000, de: 0x0100, af: 0xFF01, iy: 0x5C3A, im: 1, ..Default::default() });
                            // several requests in a row (a block abandoned early, then the next one)
                            // (destinations include the top of memory: a block that ends at or wraps past 0xFFFF)
                            for (a, de, ix) in [(0xFFu16, 0x0100u16, 0xC000u16), (0x00, 0x0011, 0xFFF8), (0xFF, 0x0002, 0xFFFF), (0x00, 0x0000, 0xFFFF)] {
                                mach::set_regs(&mut e, &RegFile { pc: 0x8010, sp: 0xBF00, ix, de, af: (a << 8) | 1, iy: 0x5C3A, im: 1, ..Default::default() });
                                match mach::run_to(&mut e, &[0x8013], 6) {
                                    Ok(_) => {}
                                    Err(x) => {
                                        r = Err(x);
                                        break;
                                    }
                                }
                            }
                            let _ = e.rewind_tape();
                            e.play_tape();
                            mach::set_regs(&mut e, &RegFile { pc: 0x8000, sp: 0xBF00, ..Default::default() });
                            for _ in 0..32 {
                                if let Err(x) = e.emulate_frames(crate::host::LONG) {
                                    r = Err(format!("{:?}", x));
                                    break;
                                }
                            }
                            e.stop_tape();
                        }
                        r
                    }
                    _ => unreachable!(),
                };
                // after either outcome the emulator still emulates
                if res.is_err() {
                    mach::set_regs(&mut e, &RegFile { pc: 0x8000, sp: 0xBF00, ..Default::default() });
                    e.verif_ram_page_mut(page)[0..3].copy_from_slice(&[0xF3, 0x18, 0xFE]);
                }
                for _ in 0..3 {
                    // Err from emulation is a clean outcome too (e.g. a broken tape still inserted)
                    let _ = e.emulate_frames(crate::host::LONG);
                }
                // whatever the load left behind (selected AY register, latch, devices), a program that
                // uses the ports keeps running: AY read-back and write, ULA, joystick, mouse, paging-class read
                let prog: [u8; 30] = [
                    0xF3, 0x01, 0xFD, 0xFF, 0xED, 0x78, 0x06, 0xBF, 0xED, 0x79, 0x01, 0xFE, 0x7F, 0xED, 0x78, 0xED, 0x79, 0x01, 0x1F, 0x00, 0xED, 0x78, 0x01, 0xDF, 0xFA, 0xED, 0x78, 0x18,
                    0xE4, 0x00,
                ];
                e.verif_ram_page_mut(page)[0x40..0x40 + prog.len()].copy_from_slice(&prog);
                mach::set_regs(&mut e, &RegFile { pc: 0x8040, sp: 0xBF00, ..Default::default() });
                let _ = e.emulate_frames(crate::host::LONG);
                Ok(if res.is_ok() { "ok" } else { "err" })
            }
        }
    });
    let (max_req, _total) = alloc::disarm();
    rec.eval();
    match outcome {
        Err(p) => {
            if p.contains("VERIF-HANG") {
                Err(format!("hang: {} (target {:?}, {} bytes)", p, c.target, c.data.len()))
            } else {
                Err(format!("panic: {} (target {:?}, {} bytes)", p, c.target, c.data.len()))
            }
        }
        Ok(Err(e)) => Err(e),
        Ok(Ok(kind)) => {
            if max_req > limit {
                return Err(format!(
                    "allocation: a single request of {} bytes for an input of {} bytes (limit max(16 MiB, 64 x input) = {}) (target {:?})",
                    max_req,
                    c.data.len(),
                    limit,
                    c.target
                ));
            }
            rec.class(&format!("{:?}:{}", c.target, kind));
            Ok(())
        }
    }
}

pub struct Excl {
    /// signatures of open known findings: tolerated (counted) so the search goes on behind them
    pub tolerated: Vec<String>,
}

pub fn check_with(c: &Case, rec: &mut Rec, excl: &Excl) -> Result<(), String> {
    match exercise(c, rec) {
        Ok(()) => {
            if passes_first_validation(c) {
                rec.nontrivial(fnv(&c.data) ^ fnv(format!("{:?}{:?}{:?}", c.target, c.machine, c.fault).as_bytes()));
            }
            Ok(())
        }
        Err(e) => {
            let sig = signature(&e);
            if excl.tolerated.iter().any(|t| *t == sig) {
                rec.class(&format!("tolerated-known:{}", sig));
                Ok(())
            } else {
                Err(format!("{} [signature {}]", e, sig))
            }
        }
    }
}

/// "non-trivial" = parsing logic beyond the first size/magic validation ran (judged by the
/// harness' own knowledge of the formats)
fn passes_first_validation(c: &Case) -> bool {
    match c.target {
        Target::Sna => c.data.len() >= 49179,
        Target::Szx => c.data.len() >= 16 && &c.data[0..4] == b"ZXST" && c.data[6] <= 2,
        Target::Scr => c.data.len() == 6912,
        Target::Tap => c.data.len() >= 3,
        Target::Rom => c.data.len() >= 16384,
        Target::Gzip => c.data.len() >= 10 && c.data[0] == 0x1F && c.data[1] == 0x8B,
        Target::Vtx => c.data.len() >= 16 && (&c.data[0..2] == b"ay" || &c.data[0..2] == b"ym") && c.data[2] < 7,
    }
}

// ---------------------------------------------------------------------------------------
// generators

fn valid_file(target: Target, machine: Machine, seed: u64) -> Vec<u8> {
    let mut x = seed | 1;
    let mut rnd = move || {
        x ^= x << 13;
        x ^= x >> 7;
        x ^= x << 17;
        x
    };
    match target {
        Target::Sna | Target::Szx => {
            let st = c14::State {
                machine,
                regs: RegFile { pc: 0x8100, sp: 0x9000, im: (rnd() % 3) as u8, af: rnd() as u16, ..Default::default() },
                border: (rnd() % 8) as u8,
                latch: (rnd() % 256) as u8 & !0x20,
                ram_seed: rnd(),
                edits: vec![],
                halted: false,
                ei_last: false,
                memptr: 0,
                cycles: (rnd() % 60000) as u32,
                ay: Some((3, [7; 16])),
                mouse: Some(true),
                f_set: false,
                scf_first: false,
            };
            let enc = if target == Target::Sna { c14::Enc::Sna } else if rnd() & 1 == 0 { c14::Enc::SzxZlib } else { c14::Enc::SzxFancy };
            c14::encode(&st, enc, rnd())
        }
        Target::Scr => (0..6912).map(|_| rnd() as u8).collect(),
        Target::Tap => {
            let n = rnd() % 4 + 1;
            let blocks: Vec<Vec<u8>> = (0..n)
                .map(|_| {
                    let len = [0usize, 1, 17, 127, 128, 129, 300][(rnd() % 7) as usize];
                    let payload: Vec<u8> = (0..len).map(|_| rnd() as u8).collect();
                    tap::block(if rnd() & 1 == 0 { 0 } else { 0xFF }, &payload, true)
                })
                .collect();
            tap::write(&blocks)
        }
        Target::Rom => (0..if machine == Machine::K48 { 16384 } else { 32768 }).map(|_| rnd() as u8).collect(),
        Target::Gzip => {
            use flate2::{write::GzEncoder, Compression};
            use std::io::Write;
            let payload: Vec<u8> = (0..(rnd() % 3000) as usize).map(|_| (rnd() % 7) as u8).collect();
            let mut e = GzEncoder::new(Vec::new(), Compression::default());
            e.write_all(&payload).unwrap();
            e.finish().unwrap()
        }
        Target::Vtx => {
            let frames: Vec<[u8; 14]> = (0..(rnd() % 40) as usize).map(|_| { let mut f = [0u8; 14]; for b in f.iter_mut() { *b = rnd() as u8; } f }).collect();
            vtxw::write(&vtxw::VtxSpec {
                ym: rnd() & 1 == 0,
                stereo: (rnd() % 7) as u8,
                loop_frame: 0,
                frequency: 1773400,
                player_frequency: 50,
                year: 1990,
                strings: ["t".into(), "a".into(), "f".into(), "tr".into(), "c".into()],
                frames,
            })
        }
    }
}

const INTERESTING: [u8; 12] = [0x00, 0x01, 0x02, 0x03, 0x07, 0x08, 0x7F, 0x80, 0xFE, 0xFF, 0x10, 0x20];

#[derive(Clone, Debug)]
pub enum Mutation {
    /// set byte at relative position (per mille of length) to value
    Set(u16, u8),
    /// write a 32-bit little-endian value at position
    Set32(u16, u32),
    Truncate(u16),
    Append(u16),
    /// remove `n` bytes at position
    Remove(u16, u16),
    /// copy a slice over another place
    Splice(u16, u16, u16),
}

fn mutation() -> impl Strategy<Value = Mutation> {
    prop_oneof![
        6 => (0u16..1000, prop_oneof![any::<u8>(), (0usize..12).prop_map(|i| INTERESTING[i])]).prop_map(|(p, v)| Mutation::Set(p, v)),
        2 => (0u16..1000, prop_oneof![Just(0u32), Just(1), Just(0xFFFF), Just(0x10000), Just(0x7FFFFFFF), Just(0xFFFFFFFF), Just(16383), Just(16385), any::<u32>()]).prop_map(|(p, v)| Mutation::Set32(p, v)),
        2 => (0u16..1000).prop_map(Mutation::Truncate),
        1 => (1u16..4000).prop_map(Mutation::Append),
        1 => (0u16..1000, 1u16..64).prop_map(|(p, n)| Mutation::Remove(p, n)),
        1 => (0u16..1000, 0u16..1000, 1u16..200).prop_map(|(a, b, n)| Mutation::Splice(a, b, n)),
    ]
}

fn apply(data: &mut Vec<u8>, m: &Mutation, header_bias: bool) {
    let len = data.len();
    let pos = |p: u16| -> usize {
        if len == 0 {
            return 0;
        }
        // headers matter most: half of the positions fall into the first 512 bytes
        if header_bias && p % 2 == 0 {
            (p as usize / 2) % len.min(512)
        } else {
            (p as usize * len) / 1000
        }
    };
    match m {
        Mutation::Set(p, v) => {
            if len > 0 {
                let i = pos(*p).min(len - 1);
                data[i] = *v;
            }
        }
        Mutation::Set32(p, v) => {
            let i = pos(*p);
            for (k, b) in v.to_le_bytes().iter().enumerate() {
                if i + k < len {
                    data[i + k] = *b;
                }
            }
        }
        Mutation::Truncate(p) => data.truncate(pos(*p)),
        Mutation::Append(n) => data.extend(std::iter::repeat(0xA5).take(*n as usize)),
        Mutation::Remove(p, n) => {
            let i = pos(*p);
            let e = (i + *n as usize).min(len);
            data.drain(i..e);
        }
        Mutation::Splice(a, b, n) => {
            let (i, j) = (pos(*a), pos(*b));
            let n = (*n as usize).min(len.saturating_sub(i)).min(len.saturating_sub(j));
            let src: Vec<u8> = data[i..i + n].to_vec();
            data[j..j + n].copy_from_slice(&src);
        }
    }
}

fn target_strategy() -> impl Strategy<Value = Target> {
    prop_oneof![
        3 => Just(Target::Szx),
        2 => Just(Target::Sna),
        1 => Just(Target::Scr),
        2 => Just(Target::Tap),
        1 => Just(Target::Rom),
        1 => Just(Target::Gzip),
        2 => Just(Target::Vtx),
    ]
}

fn machine_strategy() -> impl Strategy<Value = Machine> {
    prop_oneof![Just(Machine::K48), Just(Machine::K128)]
}

/// valid file + field/structure level mutations
pub fn mutated_strategy() -> impl Strategy<Value = Case> {
    (target_strategy(), machine_strategy(), any::<u64>(), proptest::collection::vec(mutation(), 0..=4)).prop_map(|(target, machine, seed, muts)| {
        let mut data = valid_file(target, machine, seed);
        for m in &muts {
            apply(&mut data, m, true);
        }
        Case { target, machine, cursor: data.len() % 2 == 1, data, fault: None }
    })
}

/// structure-aware SZX: explicit chunk lists with adversarial sizes / ids / field values
pub fn szx_chunks_strategy() -> impl Strategy<Value = Case> {
    let chunk = (
        prop_oneof![
            Just(*b"Z80R"), Just(*b"SPCR"), Just(*b"RAMP"), Just(*b"AY\0\0"), Just(*b"KEYB"), Just(*b"AMXM"), Just(*b"CRTR"),
            Just(*b"ramp"), Just(*b"z80r"), Just([0xFF, 0xFE, 0x80, 0x81]), Just(*b"JOY\0"), proptest::array::uniform4(any::<u8>())
        ],
        prop_oneof![
            3 => proptest::collection::vec(any::<u8>(), 0..=64),
            2 => (0usize..9).prop_map(|k| vec![0u8; [0, 1, 2, 3, 4, 8, 36, 37, 40][k]]),
            1 => proptest::collection::vec(prop_oneof![Just(0u8), Just(1), Just(0xFF), any::<u8>()], 16384 + 3..=16384 + 3),
            // stored page bodies a few bytes around the page size (header 3 + 16384 +- 4)
            2 => (0usize..9, 0u8..8).prop_map(|(k, page)| { let mut v = vec![0x5Au8; 16383 + k]; v[0] = 0; v[1] = 0; v[2] = page; v }),
            // zlib pages inflating to 16383 / 16384 / 16385 / 0 / 70000 bytes
            2 => (0usize..5, 0u8..8).prop_map(|(k, page)| {
                let n = [16383usize, 16384, 16385, 0, 70000][k];
                let mut v = vec![1u8, 0, page];
                v.extend_from_slice(&szx::zlib(&vec![0xC3u8; n]));
                v
            }),
            1 => proptest::collection::vec(any::<u8>(), 100..=300),
            // bodies longer than any legitimate chunk, really present in the file
            1 => (0usize..4, any::<u8>()).prop_map(|(k, b)| vec![b; [65_536usize, 65_539, 65_540, 70_000][k]]),
        ],
        // declared size: exact, or adversarial
        prop_oneof![6 => Just(None), 1 => prop_oneof![Just(0u32), Just(1), Just(0xFFFF_FFFF), Just(0x7FFF_FFFF), Just(0x0100_0000), any::<u32>()].prop_map(Some)],
    );
    (machine_strategy(), 0u8..4, proptest::collection::vec(chunk, 0..=6), any::<u64>()).prop_map(|(machine, mid, chunks, seed)| {
        let mut data = b"ZXST".to_vec();
        data.extend_from_slice(&[1, 4, mid, 0]);
        // start from a valid prefix half of the time so later chunks meet a loaded machine
        if seed & 1 == 0 {
            let v = valid_file(Target::Szx, machine, seed);
            data = v;
        }
        for (id, body, declared) in chunks {
            data.extend_from_slice(&id);
            data.extend_from_slice(&declared.unwrap_or(body.len() as u32).to_le_bytes());
            data.extend_from_slice(&body);
        }
        Case { target: Target::Szx, machine, cursor: data.len() % 2 == 1, data, fault: None }
    })
}

/// structure-aware VTX: header fields and string block variations
pub fn vtx_struct_strategy() -> impl Strategy<Value = Case> {
    (
        prop_oneof![Just(*b"ay"), Just(*b"ym"), Just(*b"AY")],
        0u8..9,
        any::<u16>(),
        any::<u32>(),
        prop_oneof![Just(0u8), Just(1), Just(50), any::<u8>()],
        prop_oneof![Just(0u32), Just(14), Just(28), Just(0xFFFF_FFF2), Just(14 * 100_000_000), Just(0x7FFF_FFFE), any::<u32>().prop_map(|v| v - v % 14)],
        0usize..7,
        proptest::collection::vec(any::<u8>(), 0..=600),
    )
        .prop_map(|(magic, stereo, lp, freq, pf, size, nuls, tail)| {
            let mut d = magic.to_vec();
            d.push(stereo);
            d.extend_from_slice(&lp.to_le_bytes());
            d.extend_from_slice(&freq.to_le_bytes());
            d.push(pf);
            d.extend_from_slice(&1999u16.to_le_bytes());
            d.extend_from_slice(&size.to_le_bytes());
            for i in 0..nuls {
                d.extend_from_slice(&vec![b'a' + i as u8; i * 60]);
                d.push(0);
            }
            d.extend_from_slice(&tail);
            Case { target: Target::Vtx, machine: Machine::K48, data: d, fault: None, cursor: false }
        })
}

/// uniform bytes (with a valid magic in half of the cases), up to 160 KiB
pub fn random_strategy() -> impl Strategy<Value = Case> {
    (
        target_strategy(),
        machine_strategy(),
        prop_oneof![4 => 0usize..2048, 2 => 2048usize..70000, 1 => 49179usize..=49179, 1 => 131103usize..=131103, 1 => 147487usize..=147487, 1 => 160000usize..=163840],
        any::<u64>(),
        any::<bool>(),
    )
        .prop_map(|(target, machine, len, seed, magic)| {
            let mut x = seed | 1;
            let mut data: Vec<u8> = Vec::with_capacity(len);
            while data.len() < len {
                x ^= x << 13;
                x ^= x >> 7;
                x ^= x << 17;
                data.extend_from_slice(&x.to_le_bytes());
            }
            data.truncate(len);
            if magic {
                let m: &[u8] = match target {
                    Target::Szx => b"ZXST\x01\x04\x01\x00",
                    Target::Vtx => b"ay\x01",
                    Target::Gzip => &[0x1F, 0x8B, 8, 0],
                    _ => b"",
                };
                for (i, b) in m.iter().enumerate() {
                    if i < data.len() {
                        data[i] = *b;
                    }
                }
            }
            Case { target, machine, cursor: data.len() % 2 == 1, data, fault: None }
        })
}

/// number of asset calls a successful load of `data` performs
fn count_calls(target: Target, machine: Machine, data: &[u8]) -> usize {
    let probe = Case { target, machine, data: data.to_vec(), fault: Some((usize::MAX, Fault::Err, false)), cursor: false };
    match target {
        Target::Vtx | Target::Gzip => {
            // count through a StdReader
            let mut r = StdReader { data: data.to_vec(), pos: 0, zero_reads: 0, fault: None, calls: 0 };
            let _ = guard(|| {
                if target == Target::Vtx {
                    let _ = vtx::Vtx::load(&mut r);
                } else {
                    let _ = rustzx_utils::io::GzipAsset::new(&mut r);
                }
            });
            r.calls
        }
        _ => {
            let fa = FaultAsset::new(data.to_vec(), usize::MAX, Fault::Err, false);
            let calls = fa.calls.clone();
            let _ = guard(|| {
                let mut e = mk_emu(&EmuOpts::new(machine));
                let a = DynAsset::new(fa);
                match target {
                    Target::Sna => { let _ = e.load_snapshot(Snapshot::Sna(a)); }
                    Target::Szx => { let _ = e.load_snapshot(Snapshot::Szx(a)); }
                    Target::Scr => { let _ = e.load_screen(Screen::Scr(a)); }
                    Target::Tap => {
                        let _ = e.load_tape(Tape::Tap(a));
                        e.play_tape();
                        for _ in 0..32 { let _ = e.emulate_frames(crate::host::LONG); }
                    }
                    _ => {}
                }
            });
            let _ = probe;
            calls.load(std::sync::atomic::Ordering::Relaxed)
        }
    }
}

pub fn fault_cases(seed: u64, per_target: usize) -> Vec<Case> {
    let mut out = Vec::new();
    for (ti, target) in [Target::Sna, Target::Szx, Target::Scr, Target::Tap, Target::Gzip, Target::Vtx].iter().enumerate() {
        for j in 0..per_target {
            let machine = if j % 2 == 0 { Machine::K48 } else { Machine::K128 };
            let data = valid_file(*target, machine, seed ^ ((ti as u64) << 32) ^ j as u64 ^ 0x77);
            let calls = count_calls(*target, machine, &data).min(400);
            for k in 0..=calls {
                for (kind, sticky) in [(Fault::Err, false), (Fault::Err, true), (Fault::Short(1), false), (Fault::Short(7), true), (Fault::Eof, false), (Fault::Eof, true)] {
                    out.push(Case { target: *target, machine, data: data.clone(), fault: Some((k, kind, sticky)), cursor: false });
                }
            }
        }
    }
    out
}

/// Files cut or padded to every length around the structural boundaries of their format: the
/// places where a loader classifies a file by its size or computes "what is left" by subtraction.
pub fn boundary_cases(seed: u64) -> Vec<Case> {
    let mut out: Vec<Case> = Vec::new();
    let near = |set: &mut Vec<usize>, centre: usize, radius: usize| {
        for l in centre.saturating_sub(radius)..=centre + radius {
            set.push(l);
        }
    };
    for (ti, target) in [Target::Sna, Target::Szx, Target::Scr, Target::Tap, Target::Rom, Target::Gzip, Target::Vtx].iter().enumerate() {
        for file_machine in [Machine::K48, Machine::K128] {
            let per_file_machine = matches!(target, Target::Sna | Target::Szx | Target::Rom);
            if !per_file_machine && file_machine == Machine::K128 {
                continue;
            }
            let data = valid_file(*target, file_machine, seed ^ ((ti as u64) << 40) ^ 0x5151);
            let mut lens: Vec<usize> = Vec::new();
            near(&mut lens, 0, 4);
            near(&mut lens, data.len(), 5);
            match target {
                Target::Sna => {
                    near(&mut lens, 27, 3);
                    for k in 1..=8 {
                        near(&mut lens, 27 + k * 16384, 2);
                        near(&mut lens, 27 + 3 * 16384 + 4 + k * 16384, 2);
                    }
                    near(&mut lens, 49179, 5);
                    near(&mut lens, 49183, 5);
                    near(&mut lens, 131103, 5);
                    near(&mut lens, 147487, 5);
                }
                Target::Szx => {
                    near(&mut lens, 8, 3);
                    // every chunk boundary of the file: header (id + size) and body ends
                    let mut p = 8usize;
                    while p + 8 <= data.len() {
                        let size = u32::from_le_bytes([data[p + 4], data[p + 5], data[p + 6], data[p + 7]]) as usize;
                        near(&mut lens, p, 2);
                        near(&mut lens, p + 4, 1);
                        near(&mut lens, p + 8, 3);
                        p = p.saturating_add(8).saturating_add(size);
                        if p <= data.len() {
                            near(&mut lens, p, 3);
                        }
                    }
                }
                Target::Scr => {
                    near(&mut lens, 6144, 2);
                    near(&mut lens, 6912, 3);
                }
                Target::Tap => {
                    let mut p = 0usize;
                    while p + 2 <= data.len() {
                        let size = u16::from_le_bytes([data[p], data[p + 1]]) as usize;
                        near(&mut lens, p, 2);
                        near(&mut lens, p + 2, 2);
                        p += 2 + size;
                        near(&mut lens, p.min(data.len() + 4), 2);
                    }
                }
                Target::Rom => {
                    near(&mut lens, 16384, 3);
                    near(&mut lens, 32768, 3);
                }
                Target::Gzip => {
                    near(&mut lens, 10, 8);
                    near(&mut lens, data.len().saturating_sub(8), 3);
                }
                Target::Vtx => {
                    near(&mut lens, 16, 8);
                    near(&mut lens, 32, 12);
                }
            }
            lens.sort();
            lens.dedup();
            for l in lens {
                for (pi, pad) in [0x00u8, 0xA5].iter().enumerate() {
                    if l <= data.len() && pi == 1 {
                        continue; // padding byte only matters when the file is extended
                    }
                    let mut d = data.clone();
                    d.resize(l, *pad);
                    for machine in [Machine::K48, Machine::K128] {
                        out.push(Case { target: *target, machine, cursor: l % 2 == 1, data: d.clone(), fault: None });
                    }
                }
            }
        }
    }
    out
}

/// gzip files within the 160 KiB input bound that unpack to far more (deflate reaches ~1000:1)
pub fn ratio_cases() -> Vec<Case> {
    use flate2::{write::GzEncoder, Compression};
    use std::io::Write;
    let mut out = Vec::new();
    for (n, fill) in [(1usize << 20, 0u8), (8 << 20, 0), ((8 << 20) + 1, 0), (17 << 20, 0xFF), (64 << 20, 0), (120 << 20, 0x55)] {
        let mut e = GzEncoder::new(Vec::new(), Compression::default());
        let chunk = vec![fill; 1 << 20];
        let mut left = n;
        while left > 0 {
            let k = left.min(chunk.len());
            e.write_all(&chunk[..k]).unwrap();
            left -= k;
        }
        let data = e.finish().unwrap();
        if data.len() <= 160 * 1024 {
            out.push(Case { target: Target::Gzip, machine: Machine::K48, data, fault: None, cursor: false });
        }
    }
    // SZX whose compressed RAM page is a valid zlib stream of far more than 16 KiB
    for n in [20usize << 10, 1 << 20, 17 << 20, 100 << 20] {
        use flate2::write::ZlibEncoder;
        let mut e = ZlibEncoder::new(Vec::new(), Compression::default());
        let chunk = vec![0u8; 1 << 20];
        let mut left = n;
        while left > 0 {
            let k = left.min(chunk.len());
            e.write_all(&chunk[..k]).unwrap();
            left -= k;
        }
        let z = e.finish().unwrap();
        for machine in [Machine::K48, Machine::K128] {
            let mut f: Vec<u8> = b"ZXST".to_vec();
            f.extend_from_slice(&[1, 4, if machine == Machine::K48 { 1 } else { 2 }, 0]);
            f.extend_from_slice(b"RAMP");
            f.extend_from_slice(&((3 + z.len()) as u32).to_le_bytes());
            f.extend_from_slice(&[1, 0, 5]);
            f.extend_from_slice(&z);
            if f.len() <= 160 * 1024 {
                out.push(Case { target: Target::Szx, machine, data: f, fault: None, cursor: false });
            }
        }
    }
    out
}

// ---------------------------------------------------------------------------------------

pub fn excl_from_known() -> Excl {
    let known = Known::load();
    Excl {
        tolerated: known
            .entries
            .iter()
            .filter(|e| e.status == "open" && e.property == "C15")
            .map(|e| e.key.clone())
            .collect(),
    }
}

pub fn run(run: &mut Run) {
    let excl = excl_from_known();
    // committed corpus of regression inputs and repo assets
    let mut corpus: Vec<Case> = Vec::new();
    let dir = format!("{}/corpus", crate::driver::verif_root());
    if let Ok(rd) = std::fs::read_dir(&dir) {
        let mut files: Vec<_> = rd.filter_map(|e| e.ok()).map(|e| e.path()).collect();
        files.sort();
        for f in files {
            let name = f.file_name().unwrap().to_string_lossy().to_string();
            let target = match name.split('.').last() {
                Some("sna") => Target::Sna,
                Some("szx") => Target::Szx,
                Some("scr") => Target::Scr,
                Some("tap") => Target::Tap,
                Some("gz") => Target::Gzip,
                Some("vtx") => Target::Vtx,
                _ => continue,
            };
            if let Ok(data) = std::fs::read(&f) {
                for machine in [Machine::K48, Machine::K128] {
                    corpus.push(Case { target, machine, data: data.clone(), fault: None, cursor: false });
                    corpus.push(Case { target, machine, data: data.clone(), fault: None, cursor: true });
                }
            }
        }
    }
    // open findings: replay the stored probe input of each listed signature; if it still fails in
    // the listed way report KNOWN-FINDING and tolerate that signature in the search; if it fails
    // differently that is a violation; if it no longer fails nothing is tolerated
    let mut still_open: Vec<String> = Vec::new();
    for t in &excl.tolerated {
        let path = format!("{}/replays/C15-probes/{}.json", crate::driver::verif_root(), t);
        let probe: Option<Case> = std::fs::read_to_string(&path)
            .ok()
            .and_then(|s| serde_json::from_str::<serde_json::Value>(&s).ok())
            .and_then(|v| serde_json::from_value(v["case"].clone()).ok());
        match probe {
            None => {
                run.infra_error = Some(format!("known finding {} has no probe input at {}", t, path));
                return;
            }
            Some(c) => {
                let mut rec = Rec::default();
                match exercise(&c, &mut rec) {
                    Ok(()) => {}
                    Err(e) if signature(&e) == *t => {
                        run.known(&format!("key={} {}", t, e.chars().take(160).collect::<String>()));
                        still_open.push(t.clone());
                    }
                    Err(e) => {
                        let msg = format!("probe of known finding {} now fails differently: {}", t, e);
                        run.enumerate("known-finding-probe", vec![msg], false, |m: &String, _| Err(m.clone()));
                    }
                }
            }
        }
    }
    let excl = Excl { tolerated: still_open };
    let t = run.tier;
    let e1 = &excl;
    run.enumerate("corpus", corpus, true, |c: &Case, r: &mut Rec| check_with(c, r, e1));
    let faults = fault_cases(run.seed, t.pick(4, 24));
    run.enumerate("fault-enumeration", faults, true, |c: &Case, r: &mut Rec| check_with(c, r, e1));
    run.enumerate("gzip-unpack-ratio", ratio_cases(), true, |c: &Case, r: &mut Rec| check_with(c, r, e1));
    let bounds = boundary_cases(run.seed);
    run.enumerate("length-boundaries", bounds, true, |c: &Case, r: &mut Rec| check_with(c, r, e1));
    run.explore("mutated-valid-files", t.pick(12_000, 600_000), mutated_strategy, |c, r| check_with(c, r, e1));
    run.explore("szx-chunk-structure", t.pick(8_000, 400_000), szx_chunks_strategy, |c, r| check_with(c, r, e1));
    run.explore("vtx-structure", t.pick(30_000, 2_000_000), vtx_struct_strategy, |c, r| check_with(c, r, e1));
    run.explore("random-bytes", t.pick(6_000, 100_000), random_strategy, |c, r| check_with(c, r, e1));
    let tolerated: u64 = run
        .phases
        .iter()
        .flat_map(|p| p.stats.classes.iter())
        .filter(|(k, _)| k.starts_with("tolerated-known:"))
        .map(|(_, n)| *n)
        .sum();
    if tolerated > 0 {
        run.excluded("tolerated-known-findings", tolerated);
    }
    if let Ok(st) = std::env::var("VERIF_FUZZ_STATS") {
        if let Ok(v) = serde_json::from_str::<serde_json::Value>(&st) {
            run.extra.insert("libfuzzer".to_string(), v);
        }
    }
    let _ = (sna::header, szx::crtr);
}

pub fn replay(run: &mut Run, phase: &str, case: &serde_json::Value) -> Result<(), String> {
    let excl = Excl { tolerated: vec![] };
    run.replay_one::<Case, _>(phase, case, |c, r| check_with(c, r, &excl))
}

pub const LEVEL: &str = "fault_enumeration";
pub const RULE: &str = "targets: load_snapshot(SNA|SZX), load_screen(SCR), load_tape(TAP) followed by four ROM fast-load requests (destinations 0xC000, 0xFFF8 and 0xFFFF, so that blocks end at or wrap past the top of memory), rewind and 32 frames of real-time playing, load_rom, GzipAsset::new, Vtx::load followed by playing; both machines, the receiving emulator standing at a frame start or stopped by a breakpoint somewhere inside a frame; 3 frames of emulation after every outcome, then a frame of a program that reads and writes the AY, ULA, joystick and mouse ports. Inputs: (1) committed corpus (repository assets and earlier failures); (2) fault enumeration: for valid files of every format a fault (error, 1-byte / 7-byte short read, premature end-of-data; one-shot or sticky) at EVERY read/seek call index the successful load performs; (2b) length boundaries: valid files of every format cut or padded (0x00 / 0xA5) to every length within a few bytes of each structural boundary (SNA: header, every bank end, 49179, 49183, 131103, 147487; SZX/TAP: every chunk/block header and body end; SCR 6144/6912; ROM 16384/32768; gzip/VTX headers and trailers), offered to both machines; (2c) gzip files of at most 160 KiB that unpack to 1..120 MiB and SZX files whose compressed RAM page inflates to 20 KiB..100 MiB; (3) valid files from the harness' writers with 0..4 field/structure mutations (byte set, 32-bit set incl. 0/1/0xFFFF/0xFFFFFFFF/16383/16385, truncation, append, remove, splice; half of the positions in the first 512 bytes); (4) explicit SZX chunk lists with adversarial ids (non-UTF-8), sizes (0, 1, 2^32-1, ...) and body lengths (0..40, short RAMP pages, bodies of 65536..70000 bytes really present); (5) VTX headers with adversarial sizes, player frequency 0, missing string terminators; (6) uniform bytes up to 160 KiB with and without magic. Monitor: catch_unwind with overflow checks and debug assertions enabled in all crates (profile `checked`), a counting allocator flagging any single request above max(16 MiB, 64 x input), deterministic loop detection (asset asked to read again after 100000 zero-length results). non-trivial = input passes the format's first size/magic validation as judged by the harness; distinct = hash of (bytes, target, machine, fault)";
pub const ASSUMPTIONS: &[&str] = &[
    "Ok and Err are both clean outcomes; an Err from emulate_frames after a failed tape load is clean too",
    "non-termination is detected by a deterministic work counter in the asset, not by wall clock",
    "libFuzzer campaigns on the same oracle are part of the thorough tier (see fuzz/)",
];
