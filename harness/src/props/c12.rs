//! C12 — play, stop and rewind behave like a cassette deck for every command history.

use crate::driver::{fnv, Rec, Run};
use crate::formats::tap;
use crate::host::MemAsset;
use crate::props::c10::{block_bytes, BlockSpec};
use crate::tape::{block_pulses, PILOT, PILOT_DATA, PILOT_HEADER};
use proptest::prelude::*;
use rustzx_core::verif_tape::{Tap, TapeImpl};
use serde::{Deserialize, Serialize};

#[derive(Clone, Debug, PartialEq, Eq, Serialize, Deserialize)]
pub enum Op {
    Play,
    Stop,
    Rewind,
    Advance(u32),
}

#[derive(Clone, Debug, Serialize, Deserialize)]
pub struct Case {
    pub blocks: Vec<BlockSpec>,
    pub ops: Vec<Op>,
    pub step: u8,
    /// the tape asset returns at most this many bytes per read call (0 = no limit)
    #[serde(default)]
    pub asset_chunk: u8,
    /// the host has read this many bytes of the file (format sniffing) before handing the asset
    /// over; such a history starts with a rewind, which must bring the tape to its first block
    #[serde(default)]
    pub sniffed: u8,
}

#[derive(Clone, Debug)]
enum Ev {
    /// EAR edge at (playing time, wall time)
    Edge(u64, u64),
    Op(usize, u64, u64),
}

/// Matches observed pulses against a prefix of the nominal waveform of the whole tape.
/// Returns the number of completely matched blocks (data pulses all present).
fn match_prefix(pulses: &[u64], blocks: &[Vec<u8>]) -> Result<usize, String> {
    let mut p = 0usize;
    for (bi, block) in blocks.iter().enumerate() {
        if p >= pulses.len() {
            return Ok(bi);
        }
        let want_pilot = if block[0] == 0 { PILOT_HEADER } else { PILOT_DATA };
        let mut n = 0usize;
        while p + n < pulses.len() && pulses[p + n] >= PILOT as u64 && pulses[p + n] <= PILOT as u64 + 32 {
            n += 1;
        }
        if p + n >= pulses.len() {
            // cut inside the pilot
            if n > want_pilot + 1 {
                return Err(format!("block {}: pilot tone of {} pulses, expected {}", bi, n, want_pilot));
            }
            return Ok(bi);
        }
        let ok = if block[0] == 0 { n + 1 >= want_pilot && n <= want_pilot + 1 } else { n + 1 >= want_pilot };
        if !ok {
            return Err(format!(
                "block {} (flag {:#04x}): {} pilot-length pulses then a pulse of {} T-states; a clean pilot tone of {}{} pulses must precede the sync pulses",
                bi, block[0], n, pulses[p + n], if block[0] == 0 { "" } else { ">= " }, want_pilot
            ));
        }
        p += n;
        let nominal = block_pulses(block);
        let rest = &nominal[nominal.len() - (2 + 16 * block.len())..];
        for (k, (kind, len)) in rest.iter().enumerate() {
            let got = match pulses.get(p) {
                Some(g) => *g,
                None => return Ok(bi),
            };
            if got < *len as u64 || got > *len as u64 + 32 {
                return Err(format!(
                    "block {}: sync/data pulse {} ({:?}) lasts {} T-states of playing time, nominal {} (+0..32)",
                    bi, k, kind, got, len
                ));
            }
            p += 1;
        }
        // pause
        match pulses.get(p) {
            Some(g) => {
                // after the last block the silence lasts until someone presses play again
                let last = bi + 1 == blocks.len();
                if *g < 3_000_000 || (!last && *g > 4_000_000 + PILOT as u64 + 64) {
                    return Err(format!("block {}: pulse of {} T-states after the last data pulse, expected the ~3.5 M T pause", bi, g));
                }
                p += 1;
            }
            None => return Ok(bi + 1),
        }
    }
    if p < pulses.len() {
        return Err(format!(
            "{} pulses after the last block of the tape although the deck must stop at the end: {:?}",
            pulses.len() - p,
            &pulses[p..(p + 6).min(pulses.len())]
        ));
    }
    Ok(blocks.len())
}

pub fn check(c: &Case, rec: &mut Rec) -> Result<(), String> {
    let blocks: Vec<Vec<u8>> = c.blocks.iter().map(block_bytes).collect();
    let image = tap::write(&blocks);
    let mut asset = MemAsset::chunked(image, c.asset_chunk as usize);
    asset.pos = (c.sniffed as usize).min(asset.data.len());
    let mut tap = Tap::from_asset(asset).map_err(|e| format!("from_asset: {:?}", e))?;
    if c.sniffed != 0 {
        tap.rewind().map_err(|e| format!("rewind failed: {:?}", e))?;
        rec.class("asset-handed-over-at-a-non-zero-offset-then-rewound");
    }
    if c.asset_chunk != 0 {
        rec.class("tape-asset-with-short-reads");
    }
    let step = c.step.clamp(1, 16) as u64;
    let mut evs: Vec<Ev> = Vec::new();
    let mut wall: u64 = 0;
    let mut playing_time: u64 = 0;
    // model of the deck's motor as far as commands determine it
    let mut commanded_play = false;
    let mut bit = tap.current_bit();
    let mut resumes_mid_block = 0u64;
    let mut double_stop = false;
    let mut prev_op: Option<Op> = None;
    for (i, op) in c.ops.iter().enumerate() {
        evs.push(Ev::Op(i, playing_time, wall));
        match op {
            Op::Play => {
                tap.play();
                commanded_play = true;
            }
            Op::Stop => {
                tap.stop();
                if prev_op == Some(Op::Stop) {
                    double_stop = true;
                }
                commanded_play = false;
            }
            Op::Rewind => {
                tap.rewind().map_err(|e| format!("rewind failed: {:?}", e))?;
                // rewinding may change the idle EAR level: not an edge of the waveform
                bit = tap.current_bit();
            }
            Op::Advance(n) => {
                let mut left = *n as u64;
                while left > 0 {
                    let s = step.min(left);
                    tap.process_clocks(s as usize).map_err(|e| format!("process_clocks: {:?}", e))?;
                    left -= s;
                    wall += s;
                    if commanded_play {
                        playing_time += s;
                    }
                    let b = tap.current_bit();
                    if b != bit {
                        bit = b;
                        if !commanded_play {
                            return Err(format!(
                                "op {} ({:?}): EAR level changed while the deck is stopped (stop issued at op {:?})",
                                i, op, c.ops.iter().take(i).rposition(|o| *o == Op::Stop)
                            ));
                        }
                        evs.push(Ev::Edge(playing_time, wall));
                    }
                }
            }
        }
        prev_op = Some(op.clone());
    }
    rec.eval();
    // split into segments: at every rewind, and after a complete pass over the tape
    let mut segments: Vec<Vec<u64>> = vec![Vec::new()];
    let mut seg_ops: Vec<Vec<(usize, u64)>> = vec![Vec::new()];
    for ev in &evs {
        match ev {
            Ev::Op(i, pt, _) => {
                if c.ops[*i] == Op::Rewind {
                    segments.push(Vec::new());
                    seg_ops.push(Vec::new());
                }
                seg_ops.last_mut().unwrap().push((*i, *pt));
            }
            Ev::Edge(pt, _) => segments.last_mut().unwrap().push(*pt),
        }
    }
    let mut total_complete = 0usize;
    let mut restarts_after_end = 0u64;
    for (si, edges) in segments.iter().enumerate() {
        let mut rest: &[u64] = edges;
        let mut guard = 0;
        while !rest.is_empty() && guard < 8 {
            guard += 1;
            let pulses: Vec<u64> = rest.windows(2).map(|w| w[1] - w[0]).collect();
            // a complete pass ends with the pause following the last block; anything after it
            // is a new pass and needs a Play command issued after the tape ran off its end
            let mut pass_len = pulses.len();
            let mut acc_blocks = 0usize;
            {
                // find the end of the first complete pass by counting long pauses
                let mut long = 0;
                for (k, pl) in pulses.iter().enumerate() {
                    if *pl >= 3_000_000 {
                        long += 1;
                        if long == blocks.len() {
                            pass_len = k + 1;
                            acc_blocks = blocks.len();
                            break;
                        }
                    }
                }
            }
            let complete = match_prefix(&pulses[..pass_len], &blocks).map_err(|e| format!("segment {} (after {}): {}", si, if si == 0 { "start".to_string() } else { "a rewind".to_string() }, e))?;
            total_complete += complete;
            if acc_blocks == blocks.len() && pass_len < pulses.len() {
                // Edges continue after the tape ended: legitimate only after a Play command issued
                // once the final pause was over. The end of the pause may or may not be marked by
                // an edge of its own (the idle level is reset), so the new pass starts either at
                // the edge that ended the pause pulse or at the one after it.
                let last_data_edge = rest[pass_len - 1];
                let next = if pulses[pass_len] >= PILOT as u64 && pulses[pass_len] <= PILOT as u64 + 32 { pass_len } else { pass_len + 1 };
                let new_pass_first_edge = rest[next.min(rest.len() - 1)];
                let play_between = seg_ops[si]
                    .iter()
                    .any(|(i, pt)| c.ops[*i] == Op::Play && *pt >= last_data_edge + 3_000_000 && *pt <= new_pass_first_edge);
                if !play_between {
                    return Err(format!("segment {}: the waveform restarts after the end of the tape without a play command", si));
                }
                restarts_after_end += 1;
                rest = &rest[next.min(rest.len())..];
            } else {
                break;
            }
        }
    }
    // classes
    let mut stops_mid = 0;
    for (i, op) in c.ops.iter().enumerate() {
        if *op == Op::Stop && i + 1 < c.ops.len() && c.ops[i + 1..].contains(&Op::Play) {
            stops_mid += 1;
        }
    }
    resumes_mid_block += stops_mid;
    let rewind_nonidle = c.ops.iter().enumerate().any(|(i, o)| *o == Op::Rewind && c.ops[..i].contains(&Op::Play));
    if resumes_mid_block > 0 {
        rec.class("stop-then-play-resume");
    }
    if double_stop {
        rec.class("double-stop");
    }
    if restarts_after_end > 0 {
        rec.class("play-after-end-of-tape");
    }
    if rewind_nonidle {
        rec.class("rewind-at-non-idle-state");
    }
    rec.class_n("complete-blocks-decoded", total_complete as u64);
    if (resumes_mid_block > 0 || double_stop || restarts_after_end > 0 || rewind_nonidle) && !evs.iter().all(|e| matches!(e, Ev::Op(..))) {
        rec.nontrivial(fnv(format!("{:?}", c).as_bytes()));
    }
    Ok(())
}

fn tiny_block() -> impl Strategy<Value = BlockSpec> {
    (prop_oneof![Just(0xFFu8), 1u8..=255], 0u16..12, any::<u64>(), any::<bool>()).prop_map(|(flag, len, seed, good_checksum)| BlockSpec { flag, len, seed, good_checksum })
}

fn op_strategy() -> impl Strategy<Value = Op> {
    prop_oneof![
        4 => Just(Op::Play),
        3 => Just(Op::Stop),
        1 => Just(Op::Rewind),
        3 => (1u32..5000).prop_map(Op::Advance),
        4 => (5000u32..3_000_000).prop_map(Op::Advance),
        3 => (3_000_000u32..12_000_000).prop_map(Op::Advance),
    ]
}

pub fn case_strategy() -> impl Strategy<Value = Case> {
    (proptest::collection::vec(tiny_block(), 1..=2), proptest::collection::vec(op_strategy(), 1..=24), prop_oneof![Just(16u8), Just(8), Just(4), 1u8..=16]).prop_map(|(blocks, mut ops, step)| {
        // make sure something is played
        if !ops.contains(&Op::Play) {
            ops.insert(0, Op::Play);
        }
        ops.push(Op::Advance(9_000_000));
        let asset_chunk = match (blocks.len() + ops.len()) % 4 { 0 => 1, 1 => 7, _ => 0 };
        let sniffed = if ops.len() % 5 == 0 { (ops.len() as u8).wrapping_mul(3) | 1 } else { 0 };
        Case { blocks, ops, step, asset_chunk, sniffed }
    })
}

/// Blocks longer than the 128-byte read buffer of the player (and of lengths around its multiples),
/// so that stop / rewind / end-of-tape land between buffer refills; header-flag blocks included.
fn long_block() -> impl Strategy<Value = BlockSpec> {
    (
        prop_oneof![4 => Just(0xFFu8), 2 => 1u8..=255, 1 => Just(0u8)],
        prop_oneof![2 => 0u16..12, 3 => 124u16..134, 2 => 252u16..262, 3 => 100u16..420],
        any::<u64>(),
        any::<bool>(),
    )
        .prop_map(|(flag, len, seed, good_checksum)| BlockSpec { flag, len, seed, good_checksum })
}

fn long_op_strategy() -> impl Strategy<Value = Op> {
    prop_oneof![
        4 => Just(Op::Play),
        3 => Just(Op::Stop),
        2 => Just(Op::Rewind),
        2 => (1u32..5000).prop_map(Op::Advance),
        2 => (5000u32..3_000_000).prop_map(Op::Advance),
        // a data-flag pilot lasts 6.99 M T: these land inside the data bytes of the first block
        4 => (7_000_000u32..12_000_000).prop_map(Op::Advance),
        3 => (3_000_000u32..30_000_000).prop_map(Op::Advance),
    ]
}

pub fn long_case_strategy() -> impl Strategy<Value = Case> {
    (proptest::collection::vec(long_block(), 1..=3), proptest::collection::vec(long_op_strategy(), 1..=16), prop_oneof![Just(16u8), Just(13), Just(7)]).prop_map(|(blocks, mut ops, step)| {
        if !ops.contains(&Op::Play) {
            ops.insert(0, Op::Play);
        }
        ops.push(Op::Advance(20_000_000));
        let asset_chunk = match (blocks.len() + ops.len()) % 4 { 0 => 100, 1 => 129, _ => 0 };
        let sniffed = if ops.len() % 5 == 0 { (ops.len() as u8).wrapping_mul(3) | 1 } else { 0 };
        Case { blocks, ops, step, asset_chunk, sniffed }
    })
}

// ---------------------------------------------------------------------------------------
// emulator level: only play starts the deck

#[derive(Clone, Debug, Serialize, Deserialize)]
pub struct DeckCase {
    pub machine: crate::host::Machine,
    /// 0 = tape inserted, never played; 1 = played for `play_loops` delay loops, then stopped;
    /// 2 = playing (control: the sampling must see the pilot tone)
    pub deck: u8,
    pub play_loops: u8,
    /// host call made while the deck is in that state: 0 save_snapshot(SNA), 1 load_screen(SCR),
    /// 2 execute_poke, 3 set_fast_load on and off, 4 set_sound off and on, 5 set_ay_enabled, 6 none,
    /// 7 load_snapshot (a SNA of the very memory the machine holds)
    pub host_call: u8,
    pub sp: u16,
    /// the emulator is created with fast loading enabled (the deck is a deck all the same: PLAY
    /// starts it, STOP freezes it)
    #[serde(default)]
    pub fastload: bool,
    /// deck 1 only: further deck commands of the host (0 PLAY, 1 STOP, 2 REWIND, 3 nothing), each
    /// followed by about 3000 T-states of emulation, before the final STOP
    #[serde(default)]
    pub history: Vec<u8>,
}

/// "The EAR level is frozen and no tape is consumed while stopped": a stopped (or never started)
/// deck stays stopped whatever else the host does with the emulator; only play starts it.
pub fn check_deck(c: &DeckCase, rec: &mut Rec) -> Result<(), String> {
    use crate::host::{mk_emu, DynAsset, EmuOpts, Machine};
    use crate::mach::{self, MemModel, RegFile};
    use rustzx_core::host::{Screen, SnapshotRecorder, Tape};
    let machine = c.machine;
    let mut o = EmuOpts::new(machine);
    o.fastload = c.fastload;
    let mut e = mk_emu(&o);
    let mut mm = MemModel::new(machine, mach::rom_images(machine));
    let image = tap::write(&[tap::block(0xFF, &[1, 2, 3, 4, 5, 6, 7, 8], true)]);
    e.load_tape(Tape::Tap(DynAsset::new(MemAsset::new(image)))).map_err(|x| format!("load_tape: {:?}", x))?;
    mach::poke_bytes(&mut e, &mut mm, 0x8000, &[0xED, 0x78]);
    let sp = 0x9000 + (c.sp % 0x2000);
    let delay = |e: &mut crate::host::Emu, mm: &mut MemModel, n: u8| -> Result<(), String> {
        mach::poke_bytes(e, mm, 0x8010, &[0x06, n, 0x10, 0xFE, 0x00]);
        mach::set_regs(e, &RegFile { pc: 0x8010, sp, ..Default::default() });
        if mach::run_to(e, &[0x8014], 3)?.is_none() {
            return Err("harness: delay loop did not finish".into());
        }
        Ok(())
    };
    let read = |e: &mut crate::host::Emu| -> Result<u8, String> {
        mach::set_regs(e, &RegFile { pc: 0x8000, sp, bc: 0x7FFE, ..Default::default() });
        mach::step_over(e, 2)?;
        Ok(((mach::get_regs(e).af >> 8) as u8 >> 6) & 1)
    };
    match c.deck % 3 {
        1 => {
            e.play_tape();
            for _ in 0..(c.play_loops % 16) + 1 {
                delay(&mut e, &mut mm, 251)?;
            }
            for op in &c.history {
                match op % 4 {
                    0 => e.play_tape(),
                    1 => e.stop_tape(),
                    2 => e.rewind_tape().map_err(|x| format!("rewind_tape: {:?}", x))?,
                    _ => {}
                }
                delay(&mut e, &mut mm, 251)?;
            }
            if !c.history.is_empty() {
                rec.class("deck-commands-before-the-final-stop");
                if c.history.iter().any(|o| o % 4 == 2) {
                    rec.class("rewind-among-them");
                }
            }
            // stopping freezes the level the input has at that moment: read while playing, after
            // STOP, and again right after PLAY — if the two playing reads agree (no edge fell into the
            // few dozen T-states of tape time between them) the stopped read must agree with them
            // (after further deck commands a single STOP ends the history: the bracket's own PLAY
            // would stand between those commands and the STOP that is to be observed)
            let l1 = read(&mut e)?;
            e.stop_tape();
            let l2 = read(&mut e)?;
            let l3 = if c.history.is_empty() {
                e.play_tape();
                let l = read(&mut e)?;
                e.stop_tape();
                l
            } else {
                1 - l1
            };
            rec.eval();
            if l1 == l3 && l2 != l1 {
                return Err(format!(
                    "EAR reads {} while the deck plays, {} right after STOP and {} right after the next PLAY: stopping the deck changed the level of the input",
                    l1, l2, l3
                ));
            }
            rec.class(if l1 == 1 { "stopped-at-a-high-level" } else { "stopped-at-a-low-level" });
        }
        2 => e.play_tape(),
        _ => {}
    }
    let level = read(&mut e)?;
    mach::set_regs(&mut e, &RegFile { pc: 0x8010, sp, ..Default::default() });
    let call = c.host_call % 8;
    match call {
        0 => {
            let mut file = Vec::new();
            e.save_snapshot(SnapshotRecorder::Sna(crate::props::c13::VecRecorder(&mut file))).map_err(|x| format!("save_snapshot: {:?}", x))?;
        }
        1 => e.load_screen(Screen::Scr(MemAsset::new(vec![0x55; 6912]))).map_err(|x| format!("load_screen: {:?}", x))?,
        2 => {
            struct P([rustzx_core::poke::PokeAction; 1]);
            impl rustzx_core::poke::Poke for P {
                fn actions(&self) -> &[rustzx_core::poke::PokeAction] {
                    &self.0
                }
            }
            e.execute_poke(P([rustzx_core::poke::PokeAction::mem(0x9800, 1)]));
        }
        3 => {
            e.set_fast_load(true);
            e.set_fast_load(false);
        }
        4 => {
            e.set_sound(false);
            e.set_sound(true);
        }
        5 => e.set_ay_enabled(true),
        7 => {
            use crate::formats::sna;
            let regs = RegFile { pc: 0x8010, sp, im: 1, ..Default::default() };
            let file = if machine == Machine::K48 {
                let mut ram = mm.ram.clone();
                let mut r = regs.clone();
                r.sp = sp.wrapping_sub(2);
                let so = (r.sp - 0x8000) as usize;
                ram[1][so] = 0x10;
                ram[1][so + 1] = 0x80;
                sna::write_48k(&sna::SnaState { regs: r, border: 1, latch: 0, is_128k: false }, &ram)
            } else {
                sna::write_128k(&sna::SnaState { regs, border: 1, latch: 0, is_128k: true }, &mm.ram)
            };
            e.load_snapshot(rustzx_core::host::Snapshot::Sna(MemAsset::new(file))).map_err(|x| format!("load_snapshot: {:?}", x))?;
        }
        _ => {}
    }
    // (load_screen parks the CPU in a loop it writes at 0x8000: put the sampling stub back)
    mach::poke_bytes(&mut e, &mut mm, 0x8000, &[0xED, 0x78, 0x00]);
    let mut toggles = 0u32;
    let mut prev = level;
    for k in 0..40u32 {
        delay(&mut e, &mut mm, 200 + (k % 50) as u8)?;
        let b = read(&mut e)?;
        rec.eval();
        if b != prev {
            toggles += 1;
            prev = b;
        }
    }
    let names = ["save_snapshot(SNA)", "load_screen", "execute_poke", "set_fast_load on/off", "set_sound off/on", "set_ay_enabled", "nothing", "load_snapshot(SNA)"];
    if c.deck % 3 == 2 {
        if toggles < 5 {
            return Err(format!("the deck is playing (host call in between: {}): 40 EAR samples about 3000 T-states apart show only {} level changes, the pilot tone changes level every 2168 T-states", names[call as usize], toggles));
        }
        rec.class("deck-playing:pilot-seen");
    } else {
        if toggles != 0 {
            return Err(format!(
                "the deck was {} when the host called {}; no play command followed, but the EAR input changed level {} times over the next 120000 T-states: the tape is running{}",
                if c.deck % 3 == 0 { "never started" } else { "stopped" }, names[call as usize], toggles,
                if c.deck % 3 == 1 && !c.history.is_empty() { format!(" (deck commands so far: PLAY, then {:?} with 0 = PLAY, 1 = STOP, 2 = REWIND, 3 = nothing, then STOP)", c.history) } else { String::new() }
            ));
        }
        rec.class(if c.deck % 3 == 0 { "deck-never-started:frozen" } else { "deck-stopped:frozen" });
        if call != 6 {
            rec.nontrivial(fnv(format!("{:?}", c).as_bytes()));
        }
    }
    rec.class(&format!("host-call:{}", names[call as usize]));
    let _ = Machine::K48;
    Ok(())
}

pub fn deck_strategy() -> impl Strategy<Value = DeckCase> {
    (prop_oneof![Just(crate::host::Machine::K48), Just(crate::host::Machine::K128)], 0u8..3, any::<u8>(), 0u8..8, any::<u16>(), proptest::collection::vec(0u8..4, 0..=4))
        .prop_map(|(machine, deck, play_loops, host_call, sp, history)| DeckCase { machine, deck, play_loops, host_call, sp, fastload: sp % 2 == 1, history: if deck == 1 { history } else { vec![] } })
}

pub fn run(run: &mut Run) {
    let t = run.tier;
    run.explore("histories", t.pick(24_000, 600_000), case_strategy, check);
    run.explore("long-block-histories", t.pick(8_000, 200_000), long_case_strategy, check);
    run.explore("deck-and-other-host-calls", t.pick(800, 20_000), deck_strategy, check_deck);
}

pub fn replay(run: &mut Run, phase: &str, case: &serde_json::Value) -> Result<(), String> {
    if phase == "deck-and-other-host-calls" {
        return run.replay_one::<DeckCase, _>(phase, case, check_deck);
    }
    run.replay_one::<Case, _>(phase, case, check)
}

pub const LEVEL: &str = "exploration";
pub const RULE: &str = "histories: case = tape of 1..2 short data blocks x history of 1..25 commands over {play, stop, rewind, advance n T-states} with n from 1 to 12 M so that commands land mid-pilot, mid-sync, mid-byte, in the pause and after the end, incl. stop-stop-play, play-play and rewind while playing/stopped; the pulse generator is driven through the hook re-export in steps of 1..16 T; the tape asset delivers everything at once or in short reads, and in a fifth of the cases the host has consumed the first bytes of the file before handing it over and starts with a rewind. Oracle: deck model — no EAR edge while stopped; the edge stream over *playing time* is cut at every rewind and after every complete pass, and each piece must be a prefix of the nominal waveform of the whole tape (clean pilot of the right length, sync, every bit pulse within nominal..nominal+32, pauses), so blocks appear once and in order and a stop/play pair neither loses nor repeats a pulse; a new pass after the end needs a play command. long-block-histories: the same oracle over tapes of 1..3 blocks of 0..420 bytes (lengths around the 128-byte multiples of the read buffer of the player, data and header flags), histories of 1..17 commands with advances that land inside the data bytes, steps of 7/13/16 T. deck-and-other-host-calls (emulator level): with the deck never started, stopped after playing (and after 0..4 further PLAY / STOP / REWIND commands of the host, about 3000 T-states apart), or playing, the host calls one of save_snapshot(SNA), load_snapshot(SNA), load_screen, execute_poke, set_fast_load, set_sound, set_ay_enabled; the level read right after STOP must be the level read just before it (bracketed by a read after the next PLAY), and 40 EAR samples over the next 120000 T-states must show a frozen level unless the deck is playing (then the pilot tone must be seen). non-trivial = history with a stop->play resume, a double stop, a play after end-of-tape or a rewind after playing started, and at least one edge observed; distinct = hash of the case";
pub const ASSUMPTIONS: &[&str] = &[
    "a change of the idle EAR level caused by rewind itself is not counted as a waveform edge",
    "first phase: tapes are short (pilot lengths dominate cost) with data-flag blocks only; long blocks and header-flag blocks are in the second phase with fewer cases",
];
