//! C02 — interrupt, NMI, HALT and prefix sequencing follow the Z80 rules.

use crate::driver::{fnv, Rec, Run};
use crate::e1::{CpuState, Diff, Proj, Sched};
use crate::mach::RegFile;
use proptest::prelude::*;
use refz80::{Index, StepKind};
use serde::{Deserialize, Serialize};

#[derive(Clone, Debug, Serialize, Deserialize)]
pub struct Case {
    pub program: Vec<u8>,
    pub handler38: Vec<u8>,
    pub handler66: Vec<u8>,
    pub sched: Sched,
    pub int_byte: u8,
    pub i_reg: u8,
    pub im: u8,
    pub iff1: bool,
    pub iff2: bool,
    pub halted: bool,
    pub pc: u16,
    pub steps: u16,
    /// 0: SP = 0xF000; 1 / 2: SP = IM 2 table entry + 1 / + 2, so that the pushed return address
    /// lands on the entry that is read next (the Z80 pushes first)
    #[serde(default)]
    pub sp_on_vector: u8,
}

/// instructions whose effect on control flow and on interrupt state does not depend on ALU flags
fn instr() -> impl Strategy<Value = Vec<u8>> {
    prop_oneof![
        8 => Just(vec![0x00u8]),
        4 => (0u8..7, any::<u8>()).prop_map(|(r, n)| { let r = if r == 6 { 7 } else { r }; vec![0x06 | (r << 3), n] }),
        3 => (0u8..7).prop_map(|r| { let r = if r == 6 { 7 } else { r }; vec![0x04 | (r << 3)] }),
        10 => Just(vec![0xFBu8]),             // EI
        6 => Just(vec![0xF3u8]),              // DI
        4 => Just(vec![0x76u8]),              // HALT
        // IM 0/1/2 — all eight ED encodings
        4 => prop_oneof![Just(0x46u8), Just(0x4E), Just(0x56), Just(0x5E), Just(0x66), Just(0x6E), Just(0x76), Just(0x7E)].prop_map(|o| vec![0xED, o]),
        // RETN / RETI — all eight encodings
        4 => prop_oneof![Just(0x45u8), Just(0x4D), Just(0x55), Just(0x5D), Just(0x65), Just(0x6D), Just(0x75), Just(0x7D)].prop_map(|o| vec![0xED, o]),
        3 => prop_oneof![Just(vec![0xEDu8, 0x57]), Just(vec![0xED, 0x5F]), Just(vec![0xED, 0x47])],
        // prefix bytes in chains
        6 => proptest::collection::vec(prop_oneof![Just(0xDDu8), Just(0xFD)], 1..=5),
        2 => Just(vec![0xDDu8, 0xFB]),        // prefixed EI
        2 => Just(vec![0xFDu8, 0x76]),        // prefixed HALT
        2 => Just(vec![0xEDu8, 0x00]),        // undefined ED
        3 => prop_oneof![Just(vec![0xC5u8]), Just(vec![0xD5]), Just(vec![0xC1]), Just(vec![0xD1]), Just(vec![0xDD, 0xE5]), Just(vec![0xFD, 0xE1])],
        2 => any::<u16>().prop_map(|a| vec![0xC3, a as u8, (a >> 8) as u8]),
        2 => any::<u16>().prop_map(|a| vec![0xCD, a as u8, (a >> 8) as u8]),
        2 => Just(vec![0xC9u8]),
        2 => (0u8..8).prop_map(|n| vec![0xC7 | (n << 3)]),
        2 => (0u8..4).prop_map(|d| vec![0x18, d]),
    ]
}

fn flat(n: std::ops::RangeInclusive<usize>) -> impl Strategy<Value = Vec<u8>> {
    proptest::collection::vec(instr(), n).prop_map(|v| v.into_iter().flatten().collect())
}

pub fn case_strategy(max_instr: usize) -> impl Strategy<Value = Case> {
    (
        flat(8..=max_instr),
        flat(0..=6),
        flat(0..=6),
        (
            proptest::collection::vec((0u32..1200, prop_oneof![Just(1u32), Just(2), Just(3), Just(5), Just(20), Just(400)]), 0..=10),
            prop_oneof![7 => Just(false), 1 => Just(true)],
            proptest::collection::vec(0u32..1200, 0..=4),
        ),
        // bus byte during acknowledge: 0xFF / 0xFE put the IM 2 table entry on a page edge
        prop_oneof![3 => any::<u8>(), 1 => Just(0xFFu8), 1 => Just(0xFE)],
        any::<u8>(),
        0u8..3,
        any::<bool>(),
        any::<bool>(),
        prop_oneof![5 => Just(false), 1 => Just(true)],
        any::<u16>(),
    )
        .prop_map(|(program, mut handler38, mut handler66, (pulses, always, mut nmi), int_byte, i_reg, im, iff1, iff2, halted, pc)| {
            handler38.extend_from_slice(&[0xFB, 0xED, 0x4D]);
            handler66.extend_from_slice(&[0xED, 0x45]);
            nmi.sort();
            let steps = (program.len() * 3 + 40).min(900) as u16;
            Case {
                program,
                handler38,
                handler66,
                sched: Sched {
                    int_pulses: pulses,
                    int_always: always,
                    nmi_edges: nmi,
                },
                int_byte,
                i_reg,
                im,
                iff1,
                iff2,
                halted,
                pc,
                steps,
                sp_on_vector: if pc % 6 == 0 { 1 + (pc / 6 % 2) as u8 } else { 0 },
            }
        })
}

pub fn check(c: &Case, rec: &mut Rec) -> Result<(), String> {
    // memory: the program tiled over the whole address space, handlers on top
    let mut mem = Box::new([0u8; 65536]);
    if !c.program.is_empty() {
        for (i, b) in mem.iter_mut().enumerate() {
            *b = c.program[i % c.program.len()];
        }
    }
    for (i, b) in c.handler38.iter().enumerate() {
        mem[0x38 + i] = *b;
    }
    for (i, b) in c.handler66.iter().enumerate() {
        mem[0x66 + i] = *b;
    }
    if c.halted {
        mem[c.pc as usize] = 0x76;
    }
    let st = CpuState {
        regs: RegFile {
            pc: c.pc,
            sp: match c.sp_on_vector % 3 {
                0 => 0xF000,
                k => ((((c.i_reg as u16) << 8) | c.int_byte as u16).wrapping_add(k as u16)),
            },
            i: c.i_reg,
            im: c.im % 3,
            iff1: c.iff1,
            iff2: c.iff2,
            ..Default::default()
        },
        memptr: 0,
        q_is_f: false,
        halted: c.halted,
        no_int: false,
    };
    let mut d = Diff::new(&mem, &st, 0x1234, c.int_byte, c.sched.clone(), Proj::Int);
    let mut accepted = 0u64;
    let mut blocked = 0u64;
    let mut released = 0u64;
    for _ in 0..c.steps {
        let level = d.rbus.int_level();
        let before_iff1 = d.rcpu.iff1;
        let before_no_int = d.rcpu.no_int;
        let before_idx = d.rcpu.index;
        let before_halted = d.rcpu.halted;
        let before_iff2 = d.rcpu.iff2;
        let rep = d.step()?;
        rec.eval();
        match rep.info.kind {
            StepKind::Int => {
                accepted += 1;
                rec.class(match d.rcpu.im {
                    0 => "accepted:IM0",
                    1 => "accepted:IM1",
                    _ => "accepted:IM2",
                });
                if before_halted {
                    released += 1;
                    rec.class("halt-released-by-INT");
                }
            }
            StepKind::Nmi => {
                accepted += 1;
                rec.class("accepted:NMI");
                if before_iff2 {
                    rec.class("NMI-with-IFF2-preserved");
                }
                if before_halted {
                    released += 1;
                    rec.class("halt-released-by-NMI");
                }
            }
            _ => {
                if level {
                    if before_no_int && before_idx == Index::HL && before_iff1 {
                        blocked += 1;
                        rec.class("blocked:after-EI-or-DI");
                    } else if before_idx != Index::HL && before_iff1 {
                        blocked += 1;
                        rec.class("blocked:mid-prefix-chain");
                    } else if !before_iff1 {
                        blocked += 1;
                        rec.class("blocked:IFF1=0");
                    }
                }
                if rep.info.kind == StepKind::Instr && rep.info.table == refz80::Table::ED && matches!(rep.info.opcode, 0x45 | 0x4D | 0x55 | 0x5D | 0x65 | 0x6D | 0x75 | 0x7D) {
                    rec.class("RETN/RETI");
                }
                if rep.info.kind == StepKind::HaltCycle {
                    rec.class("halt-cycle");
                }
            }
        }
    }
    rec.class_n("havoc:nmi-edge-during-interrupt-entry", d.havoc_nmi_after_entry);
    rec.class_n("havoc:halt-refetch-address", d.havoc_halt_addr);
    if accepted >= 1 && (blocked >= 1 || released >= 1) {
        rec.nontrivial(fnv(format!("{:?}", c).as_bytes()));
    }
    Ok(())
}

pub fn run(run: &mut Run) {
    if !crate::props::calibration::ensure(run) {
        return;
    }
    let t = run.tier;
    run.explore("programs", t.pick(120_000, 4_000_000), || case_strategy(60), check);
    run.explore("long-programs", t.pick(15_000, 400_000), || case_strategy(200), check);
}

pub fn replay(run: &mut Run, phase: &str, case: &serde_json::Value) -> Result<(), String> {
    run.replay_one::<Case, _>(phase, case, check)
}

pub const LEVEL: &str = "exploration";
pub const RULE: &str = "case = program of 8..200 instructions from a flag-independent mix (NOP, LD r,n, INC r, EI, DI, HALT, all 8 IM encodings, all 8 RETN/RETI encodings, LD A,I / LD A,R / LD I,A, DD/FD chains, prefixed EI/HALT, PUSH/POP, JP/CALL/RET/RST/JR) tiled over memory, handlers at 0x0038 and 0x0066, an INT schedule (0..10 pulses of 1..400 memory cycles, or permanently asserted), 0..4 NMI edges, bus byte, I, IM, IFFs, optionally starting halted; implementation and reference run in lock-step; compared at every boundary: whether INT/NMI is accepted, pushed word and address, vector reads, new PC, SP, IFF1/IFF2, IM, R, halted. INT/NMI activity is scheduled over the memory-cycle index so that the check does not depend on T-state accounting. non-trivial = at least one accepted interrupt AND (a boundary with INT asserted where acceptance was forbidden [after EI/DI, IFF1=0, mid prefix chain] or a HALT released); distinct = hash of the case";
pub const ASSUMPTIONS: &[&str] = &[
    "reference model trusted after calibration; interrupt rules in it are written from the Z80 documentation / property text",
    "not judged: NMI on the boundary directly after EI/DI or a prefix (both models block it), an NMI edge latched during an interrupt entry (reference follows the implementation), the HALT refetch address",
    "ALU flags and data registers are not compared here (C01)",
];
