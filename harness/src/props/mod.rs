pub mod c06;
pub mod c17;
pub mod c20;
