pub mod c01;
pub mod c02;
pub mod c03;
pub mod c06;
pub mod c17;
pub mod c20;
pub mod calibration;
