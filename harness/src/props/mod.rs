pub mod c20;
