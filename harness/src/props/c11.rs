//! C11 — a playing tape presents each TAP block as the standard loader waveform.

use crate::driver::{fnv, Rec, Run};
use crate::formats::tap;
use crate::host::{DynAsset, Machine, MemAsset};
use crate::mach::{self, RegFile};
use crate::props::c10::{self, block_bytes, BlockSpec, Rq};
use crate::tape::{block_pulses, ld_bytes, PulseKind, BIT0, BIT1, PILOT, PILOT_DATA, PILOT_HEADER, SYNC1, SYNC2};
use proptest::prelude::*;
use rustzx_core::host::Tape;
use rustzx_core::verif_tape::{Tap, TapeImpl};
use serde::{Deserialize, Serialize};

#[derive(Clone, Debug, Serialize, Deserialize)]
pub struct WaveCase {
    pub blocks: Vec<BlockSpec>,
    /// step sizes (1..=16 T-states each), cycled
    pub schedule: Vec<u8>,
    /// the tape asset returns at most this many bytes per read call (0 = no limit)
    #[serde(default)]
    pub asset_chunk: u8,
}

/// Drives the pulse generator with the schedule and returns the times of all EAR edges until
/// the tape has been silent for `silence` T-states after at least `min_total` T-states.
pub fn record_edges(tap: &mut Tap<MemAsset>, schedule: &[u8], min_total: u64, silence: u64, cap: u64) -> Result<Vec<u64>, String> {
    let mut edges = Vec::new();
    let mut t: u64 = 0;
    let mut last_edge: u64 = 0;
    let mut bit = tap.current_bit();
    let mut i = 0usize;
    loop {
        let step = schedule[i % schedule.len()].clamp(1, 16) as usize;
        i += 1;
        tap.process_clocks(step).map_err(|e| format!("process_clocks failed: {:?}", e))?;
        t += step as u64;
        let b = tap.current_bit();
        if b != bit {
            bit = b;
            edges.push(t);
            last_edge = t;
        }
        if t >= min_total && t - last_edge > silence {
            break;
        }
        if t > cap {
            return Err(format!("tape still producing edges after {} T-states (expected about {})", t, min_total));
        }
    }
    Ok(edges)
}

pub const PAUSE_MIN: u64 = 3_000_000;
pub const PAUSE_MAX: u64 = 4_000_000;

/// Checks observed pulses (intervals between edges) against the nominal waveform of `blocks`.
/// Returns the histogram of extra lengths.
pub fn check_waveform(edges: &[u64], blocks: &[Vec<u8>], rec: &mut Rec) -> Result<(), String> {
    let pulses: Vec<u64> = edges.windows(2).map(|w| w[1] - w[0]).collect();
    let mut p = 0usize;
    let mut extra_hist = [0u64; 4];
    for (bi, block) in blocks.iter().enumerate() {
        let nominal = block_pulses(block);
        let want_pilot = if block[0] == 0 { PILOT_HEADER } else { PILOT_DATA };
        // pilot: count pulses of pilot length
        let mut n = 0usize;
        while p + n < pulses.len() && pulses[p + n] >= PILOT as u64 && pulses[p + n] <= PILOT as u64 + 32 {
            n += 1;
        }
        let ok_count = if block[0] == 0 { n + 1 >= want_pilot && n <= want_pilot + 1 } else { n + 1 >= want_pilot };
        if !ok_count {
            return Err(format!(
                "block {} (flag {:#04x}): pilot tone has {} pulses of 2168..2200 T, expected {}{} (next pulses: {:?})",
                bi,
                block[0],
                n,
                if block[0] == 0 { "" } else { "at least " },
                want_pilot,
                &pulses[(p + n).min(pulses.len())..(p + n + 4).min(pulses.len())]
            ));
        }
        p += n;
        // sync + data
        let rest = &nominal[nominal.len() - (2 + 16 * block.len())..];
        for (k, (kind, len)) in rest.iter().enumerate() {
            let got = match pulses.get(p) {
                Some(g) => *g,
                None => return Err(format!("block {}: waveform ends after {} of {} sync/data pulses", bi, k, rest.len())),
            };
            if got < *len as u64 || got > *len as u64 + 32 {
                return Err(format!(
                    "block {}: pulse {} ({:?}{}) lasts {} T-states, nominal {} (allowed {}..={})",
                    bi,
                    k,
                    kind,
                    match kind {
                        PulseKind::Bit(_) => format!(", bit {} of byte {}", 7 - ((k - 2) / 2) % 8, (k - 2) / 16),
                        _ => String::new(),
                    },
                    got,
                    len,
                    len,
                    len + 32
                ));
            }
            let extra = got - *len as u64;
            extra_hist[(extra / 9).min(3) as usize] += 1;
            p += 1;
        }
        // pause (the first pilot pulse of the next block may merge with it)
        match pulses.get(p) {
            Some(g) => {
                if *g < PAUSE_MIN || *g > PAUSE_MAX + PILOT as u64 + 64 {
                    return Err(format!("block {}: after the last data pulse comes a pulse of {} T-states, expected a pause of about one second (3.5 M T)", bi, g));
                }
                p += 1;
            }
            None => {
                // last block: the pause may be cut by the end of the tape, nothing more to check
                if bi + 1 != blocks.len() {
                    return Err(format!("waveform ends after block {} of {}", bi, blocks.len()));
                }
            }
        }
    }
    if p < pulses.len() {
        return Err(format!("{} unexpected pulses after the last block: {:?}", pulses.len() - p, &pulses[p..(p + 6).min(pulses.len())]));
    }
    rec.class_n("extra-T:0-8", extra_hist[0]);
    rec.class_n("extra-T:9-17", extra_hist[1]);
    rec.class_n("extra-T:18-26", extra_hist[2]);
    rec.class_n("extra-T:27-32", extra_hist[3]);
    Ok(())
}

pub fn nominal_total(blocks: &[Vec<u8>]) -> u64 {
    blocks.iter().map(|b| block_pulses(b).iter().map(|(_, l)| *l as u64).sum::<u64>() + 3_500_000).sum()
}

pub fn check_wave(c: &WaveCase, rec: &mut Rec) -> Result<(), String> {
    let blocks: Vec<Vec<u8>> = c.blocks.iter().map(block_bytes).collect();
    let image = tap::write(&blocks);
    let mut tap = Tap::from_asset(MemAsset::chunked(image, c.asset_chunk as usize)).map_err(|e| format!("from_asset: {:?}", e))?;
    if c.asset_chunk != 0 {
        rec.class("tape-asset-with-short-reads");
    }
    tap.play();
    let total = nominal_total(&blocks);
    let edges = record_edges(&mut tap, &c.schedule, total.saturating_sub(3_400_000), 4_200_000, total * 3 + 30_000_000)?;
    // one oracle evaluation per block whose pulses are compared
    rec.evals(blocks.len() as u64);
    check_waveform(&edges, &blocks, rec)?;
    let mut distinct_steps: Vec<u8> = c.schedule.iter().map(|s| (*s).clamp(1, 16)).collect();
    distinct_steps.sort();
    distinct_steps.dedup();
    for b in &blocks {
        let mut d: Vec<u8> = b[1..].to_vec();
        d.sort();
        d.dedup();
        if d.len() >= 2 && b.len() != 19 && b.len() != 6914 && distinct_steps.len() >= 3 {
            rec.nontrivial(fnv(format!("{:?}{:?}", b, c.schedule).as_bytes()));
        }
        rec.class(if b[0] == 0 { "header-pilot-8063" } else { "data-pilot-3223" });
        if b.len() > 128 {
            rec.class("block-longer-than-buffer");
        }
    }
    rec.class(&format!("schedule-distinct-steps:{}", distinct_steps.len().min(4)));
    Ok(())
}

// ---------------------------------------------------------------------------------------
// system level: the real ROM loader in real time

#[derive(Clone, Debug, Serialize, Deserialize)]
pub struct SysCase {
    pub machine: Machine,
    pub blocks: Vec<BlockSpec>,
    pub requests: Vec<Rq>,
    pub ram_seed: u64,
    /// the host has fast loading switched on while the deck plays: the playing tape must still
    /// deliver every block, in order, through the EAR input
    #[serde(default)]
    pub fastload_enabled: bool,
    /// an SZX snapshot (of the rig's own RAM) whose KEYB chunk carries no "issue 2" flag is loaded
    /// before the tape is inserted: whatever keyboard issue the file asks for, EAR carries the tape
    #[serde(default)]
    pub szx_keyb_first: bool,
    /// before the first request the CPU spends `pre_frames` frames 1: halted (EI; HALT loop) or
    /// 2: in a JR $ loop in contended RAM, while the tape plays: the deck runs in emulated time
    /// whatever the CPU does
    #[serde(default)]
    pub pre_wait: u8,
    #[serde(default)]
    pub pre_frames: u8,
    /// the first block is consumed by a fast-load request (deck stopped, fast loading on) — which
    /// may leave it early: wrong flag byte, or fewer bytes asked for than it holds — and only then
    /// does the host press PLAY: the EAR input must carry the tape from its second block on
    #[serde(default)]
    pub fast_first: bool,
}

pub fn check_sys(c: &SysCase, rec: &mut Rec) -> Result<(), String> {
    let blocks: Vec<Vec<u8>> = c.blocks.iter().map(block_bytes).collect();
    let image = tap::write(&blocks);
    let mut rig = c10::mk_rig(c.machine, c.ram_seed, c.fastload_enabled);
    if c.szx_keyb_first {
        use crate::formats::szx;
        let is128 = c.machine == Machine::K128;
        let st = szx::SzxState {
            machine_id: if is128 { 2 } else { 1 },
            regs: RegFile { pc: 0x8000, sp: c10::SP0, im: 1, ..Default::default() },
            memptr: 0,
            cycles: 1000,
            halted: false,
            ei_last: false,
            f_set: false,
            border: 2,
            latch: if is128 { 0x10 } else { 0 },
            fe: 2,
            ay: None,
            kempston_joystick: Some(false),
            mouse: None,
        };
        let file = szx::write(&st, &rig.m.ram, &szx::Layout::default());
        rig.e.load_snapshot(rustzx_core::host::Snapshot::Szx(MemAsset::new(file))).map_err(|x| format!("load_snapshot(SZX with KEYB): {:?}", x))?;
        rec.class("szx-with-keyb-chunk-loaded-before-the-tape");
    }
    rig.e.load_tape(Tape::Tap(DynAsset::new(MemAsset::new(image)))).map_err(|x| format!("load_tape: {:?}", x))?;
    let fast_first = c.fast_first && blocks.len() >= 2 && !c.requests.is_empty();
    let k0 = if fast_first { 1 } else { 0 };
    if fast_first {
        rig.e.set_fast_load(true);
        let (rq, block) = (&c.requests[0], &blocks[0]);
        let r = c10::resolve(rq, Some(block));
        if !rq.load && block.len() >= 2 {
            let payload = &block[1..block.len() - 1];
            for (i, v) in payload.iter().enumerate().take(r.de as usize) {
                let a = r.ix.wrapping_add(i as u16);
                let v = if rq.verify_mismatch_at.map(|m| m as usize % payload.len().max(1)) == Some(i) { v ^ 1 } else { *v };
                mach::poke(&mut rig.e, &mut rig.m, a, v);
            }
        }
        c10::setup_call(&mut rig, &r);
        let snapshot_mem = rig.m.clone();
        let mut rd = |a: u16| snapshot_mem.read(a);
        let want = ld_bytes(block, &r, &mut rd);
        let hit = mach::run_to(&mut rig.e, &[c10::RET_ADDR], 3).map_err(|e| format!("fast request against block 0: {}", e))?;
        if hit.is_none() {
            return Err("harness: the fast request against the first block did not return (C10's subject)".into());
        }
        for (a, v) in &want.stores {
            rig.m.write(*a, *v);
        }
        rig.e.set_fast_load(c.fastload_enabled);
        rec.class("first-block-consumed-by-a-fast-request-then-PLAY");
        if want.consumed < block.len() {
            rec.class(if block.len() > 130 { "fast request left a block of more than 128 bytes early" } else { "fast request left a short block early" });
        }
    }
    rig.e.play_tape();
    let frame_len = c.machine.frame_len() as u64;
    let now_t = |e: &mut crate::host::Emu| e.verif_total_frames() * frame_len + e.verif_frame_clocks() as u64;
    let t_play = now_t(&mut rig.e);
    if c.pre_wait % 3 != 0 {
        // leave the ROM loader enough of the first block's pilot tone: it waits about a second after the
        // first edge and then wants 256 good leader pulse pairs (~66 frames in all); a data-flag pilot
        // lasts ~100 frames, a header pilot ~250
        let first_flag = blocks.get(k0).and_then(|b| b.first().copied()).unwrap_or(0xFF);
        let h = if first_flag == 0 { (c.pre_frames % 90) as usize + 10 } else { (c.pre_frames % 16) as usize + 5 };
        if c.pre_wait % 3 == 1 {
            mach::poke_bytes(&mut rig.e, &mut rig.m, 0x8000, &[0xFB, 0x76, 0x18, 0xFC]);
            mach::set_regs(&mut rig.e, &RegFile { pc: 0x8000, sp: c10::SP0, im: 1, iy: 0x5C3A, iff1: true, iff2: true, ..Default::default() });
            rec.class("cpu-halted-while-the-tape-plays");
        } else {
            mach::poke_bytes(&mut rig.e, &mut rig.m, 0x6000, &[0xF3, 0x18, 0xFE]);
            mach::set_regs(&mut rig.e, &RegFile { pc: 0x6000, sp: c10::SP0, ..Default::default() });
            rec.class("cpu-in-contended-ram-while-the-tape-plays");
        }
        mach::run_frames(&mut rig.e, h)?;
    }
    for (k, rq) in c.requests.iter().enumerate().skip(k0) {
        let block = match blocks.get(k) {
            Some(b) => b,
            None => break,
        };
        let r = c10::resolve(rq, Some(block));
        // VERIFY prefill as in C10
        if !rq.load && block.len() >= 2 {
            let payload = &block[1..block.len() - 1];
            for (i, v) in payload.iter().enumerate().take(r.de as usize) {
                let a = r.ix.wrapping_add(i as u16);
                let v = if rq.verify_mismatch_at.map(|m| m as usize % payload.len().max(1)) == Some(i) { v ^ 1 } else { *v };
                mach::poke(&mut rig.e, &mut rig.m, a, v);
            }
        }
        c10::setup_call(&mut rig, &r);
        let snapshot_mem = rig.m.clone();
        let mut rd = |a: u16| snapshot_mem.read(a);
        let want = ld_bytes(block, &r, &mut rd);
        let ctx = format!(
            "request {} (A={:#04x} {} IX={:#06x} DE={:#06x}) against playing block {} of {} bytes (flag {:#04x}){}",
            k, r.a, if r.load { "LOAD" } else { "VERIFY" }, r.ix, r.de, k, block.len(), block[0],
            if fast_first { format!(" — block 0 ({} bytes) was consumed by a fast request before PLAY", blocks[0].len()) } else { String::new() }
        );
        // pilot + data + pause is at most ~ 30 M T-states for these block sizes
        let hit = mach::run_to(&mut rig.e, &[c10::RET_ADDR], 700).map_err(|e| format!("{}: {}", ctx, e))?;
        rec.eval();
        if hit.is_none() {
            return Err(format!("{}: the ROM loader did not return within 700 frames of real-time tape", ctx));
        }
        let regs = mach::get_regs(&mut rig.e);
        let carry = regs.af & 1 == 1;
        for (a, v) in &want.stores {
            rig.m.write(*a, *v);
        }
        if carry != want.carry || regs.ix != want.ix || regs.de != want.de {
            return Err(format!(
                "{}: real-time load returned carry={} IX={:#06x} DE={:#06x}; the block's bytes give carry={} IX={:#06x} DE={:#06x} ({:?}) — the EAR waveform did not carry the block as the standard loader expects",
                ctx, carry, regs.ix, regs.de, want.carry, want.ix, want.de, want.outcome
            ));
        }
        c10::compare_memory(&rig, &ctx)?;
        // tape time is emulated time: a header block (pilot of exactly 8063 pulses) read to its end
        // must be over when its nominal duration (plus at most 32 T per pulse) has passed since PLAY
        if k == k0 && block[0] == 0x00 && want.consumed == block.len() {
            let pulses = block_pulses(block);
            let nominal: u64 = pulses.iter().map(|(_, l)| *l as u64).sum();
            let elapsed = now_t(&mut rig.e) - t_play;
            let (lo, hi) = (nominal.saturating_sub(2 * 1710 + 3000), nominal + 32 * pulses.len() as u64 + 3000);
            if elapsed < lo || elapsed > hi {
                return Err(format!(
                    "{}: the block's waveform lasts {} T-states nominally ({} pulses); the loader returned {} T-states after PLAY (allowed {}..{}) — the deck did not run in emulated time{}",
                    ctx, nominal, pulses.len(), elapsed, lo, hi,
                    match c.pre_wait % 3 { 1 => " while the CPU was halted", 2 => " while the CPU ran in contended RAM", _ => "" }
                ));
            }
            rec.class("tape-time-equals-emulated-time");
        }
        rec.class(&format!("outcome:{:?}", want.outcome));
        rec.nontrivial(fnv(format!("{:?}{}", c, k).as_bytes()));
        if want.consumed < block.len() {
            rec.class("request-ended-mid-block");
        }
    }
    rec.class(if c.machine == Machine::K48 { "48k" } else { "128k" });
    if c.fastload_enabled {
        rec.class("deck-playing-with-fast-load-enabled");
    }
    Ok(())
}

// ---------------------------------------------------------------------------------------
// the EAR input is bit 6 of *every* ULA port address

#[derive(Clone, Debug, Serialize, Deserialize)]
pub struct EarCase {
    pub machine: Machine,
    pub block: BlockSpec,
    /// (delay loop count, high byte of the port address)
    pub samples: Vec<(u8, u8)>,
}

/// While the tape plays, a read of any even port address carries the EAR level in bit 6,
/// whatever the high byte (keyboard half-row selection) is: metamorphic relation between the
/// loader's 0x7FFE and a generated address, taken a few T-states apart and bracketed by a second
/// 0x7FFE read so that an edge falling in between is recognised and not judged.
pub fn check_ear(c: &EarCase, rec: &mut Rec) -> Result<(), String> {
    let image = tap::write(&[block_bytes(&c.block)]);
    let mut rig = c10::mk_rig(c.machine, 1, false);
    rig.e.load_tape(Tape::Tap(DynAsset::new(MemAsset::new(image)))).map_err(|x| format!("load_tape: {:?}", x))?;
    rig.e.play_tape();
    // 0x8000: IN A,(C)      0x8010: LD B,n ; DJNZ $ ; (stop at 0x8014)
    mach::poke_bytes(&mut rig.e, &mut rig.m, 0x8000, &[0xED, 0x78]);
    let mut levels = [0u32; 2];
    let mut judged = 0u32;
    let read = |rig: &mut c10::Rig, hh: u8| -> Result<u8, String> {
        mach::set_regs(&mut rig.e, &RegFile { pc: 0x8000, sp: 0xBF00, bc: ((hh as u16) << 8) | 0xFE, ..Default::default() });
        mach::step_over(&mut rig.e, 2)?;
        Ok((mach::get_regs(&mut rig.e).af >> 8) as u8)
    };
    for (k, (delay, hh)) in c.samples.iter().enumerate() {
        mach::poke_bytes(&mut rig.e, &mut rig.m, 0x8010, &[0x06, *delay, 0x10, 0xFE, 0x00]);
        mach::set_regs(&mut rig.e, &RegFile { pc: 0x8010, sp: 0xBF00, ..Default::default() });
        if mach::run_to(&mut rig.e, &[0x8014], 3)?.is_none() {
            return Err("harness: delay loop did not finish".into());
        }
        let a = read(&mut rig, 0x7F)?;
        let b = read(&mut rig, *hh)?;
        let a2 = read(&mut rig, 0x7F)?;
        rec.eval();
        if (a ^ a2) & 0x40 != 0 {
            rec.class("ear:edge-between-the-reads");
            continue;
        }
        judged += 1;
        levels[((a >> 6) & 1) as usize] += 1;
        if (a ^ b) & 0x40 != 0 {
            return Err(format!(
                "sample {}: with the tape playing, IN from {:#06x} gives {:#04x} (bit 6 = {}) between two reads of 0x7FFE that both give bit 6 = {}: the EAR input must appear on bit 6 of every ULA port address",
                k, ((*hh as u16) << 8) | 0xFE, b, (b >> 6) & 1, (a >> 6) & 1
            ));
        }
    }
    if levels[0] > 0 && levels[1] > 0 {
        rec.class("ear:both-levels-judged");
        rec.nontrivial(fnv(format!("{:?}", c).as_bytes()));
    }
    let _ = judged;
    Ok(())
}

pub fn ear_strategy() -> impl Strategy<Value = EarCase> {
    (
        prop_oneof![Just(Machine::K48), Just(Machine::K128)],
        small_block(),
        proptest::collection::vec((any::<u8>(), prop_oneof![2 => Just(0xFFu8), 1 => Just(0x00), 1 => Just(0xFE), 1 => Just(0xBF), 3 => any::<u8>()]), 8..=40),
    )
        .prop_map(|(machine, block, samples)| EarCase { machine, block, samples })
}

pub fn schedule_strategy() -> impl Strategy<Value = Vec<u8>> {
    prop_oneof![
        3 => proptest::collection::vec(1u8..=16, 1..=64),
        1 => Just(vec![1u8]),
        1 => Just(vec![16u8]),
        1 => Just((1u8..=16).collect::<Vec<u8>>()),
        // what the machine issues: 4-T fetches, 3-T memory cycles, single delay T-states, up to 8
        2 => proptest::collection::vec(prop_oneof![Just(4u8), Just(3), Just(1), Just(7), Just(8), Just(2), Just(5), Just(6)], 1..=64),
    ]
}

fn small_block() -> impl Strategy<Value = BlockSpec> {
    (
        prop_oneof![Just(0x00u8), Just(0xFF), any::<u8>()],
        prop_oneof![
            3 => prop_oneof![Just(0u16), Just(1), Just(17), Just(126), Just(127), Just(128), Just(254), Just(255)],
            4 => 0u16..260,
        ],
        any::<u64>(),
        prop_oneof![4 => Just(true), 1 => Just(false)],
    )
        .prop_map(|(flag, len, seed, good_checksum)| BlockSpec { flag, len, seed, good_checksum })
}

pub fn wave_strategy() -> impl Strategy<Value = WaveCase> {
    (proptest::collection::vec(small_block(), 1..=3), schedule_strategy(), prop_oneof![2 => Just(0u8), 1 => 1u8..=255, 1 => prop_oneof![Just(1u8), Just(2), Just(3), Just(127), Just(129)]])
        .prop_map(|(blocks, schedule, asset_chunk)| WaveCase { blocks, schedule, asset_chunk })
}

pub fn sys_strategy() -> impl Strategy<Value = SysCase> {
    (
        prop_oneof![Just(Machine::K48), Just(Machine::K128)],
        proptest::collection::vec(small_block(), 1..=2),
        proptest::collection::vec(c10::rq_strategy(), 2..=2),
        any::<u64>(),
        (any::<bool>(), prop_oneof![2 => Just(false), 1 => Just(true)], 0u8..3, any::<u8>()),
    )
        .prop_map(|(machine, mut blocks, requests, ram_seed, (fastload_enabled, szx_keyb_first, pre_wait, pre_frames))| {
            // a third of the two-block tapes: first block taken by a fast request before PLAY; that
            // block is then usually longer than the tape buffer (128 bytes)
            let fast_first = blocks.len() == 2 && ram_seed % 3 == 0;
            if fast_first && ram_seed % 4 != 1 {
                blocks[0].len = 129 + blocks[0].len % 132;
            }
            SysCase { machine, blocks, requests, ram_seed, fastload_enabled, szx_keyb_first, pre_wait, pre_frames, fast_first }
        })
}

pub fn run(run: &mut Run) {
    let t = run.tier;
    run.explore("waveform", t.pick(900, 60_000), wave_strategy, check_wave);
    run.explore("rom-loader-real-time", t.pick(160, 8_000), sys_strategy, check_sys);
    run.explore("ear-on-every-ula-address", t.pick(600, 30_000), ear_strategy, check_ear);
}

pub fn replay(run: &mut Run, phase: &str, case: &serde_json::Value) -> Result<(), String> {
    match phase {
        "waveform" => run.replay_one::<WaveCase, _>(phase, case, check_wave),
        "ear-on-every-ula-address" => run.replay_one::<EarCase, _>(phase, case, check_ear),
        "rom-loader-real-time" => run.replay_one::<SysCase, _>(phase, case, check_sys),
        _ => Err(format!("unknown phase {}", phase)),
    }
}

pub const LEVEL: &str = "exploration";
pub const RULE: &str = "waveform: TAP images of 1..3 blocks (all flag bytes, payload 0..260 bytes across the 128-byte refill boundary, right/wrong checksum) played through the pulse generator (tape asset delivering everything at once or at most 1..255 bytes per read call) with time advanced by a cycled schedule of 1..64 steps of 1..16 T-states (uniform, all-1, all-16, sawtooth, instruction-like mixes); every interval between EAR edges is compared with the nominal list synthesised from the bytes: pilot count 8063 (+-1) for flag 0x00 / >= 3223 otherwise, 667, 735, two equal 855/1710 pulses per bit MSB first for every byte, pause 3.0..4.0 M T; each pulse within [nominal, nominal+32]; count and order exact. rom-loader-real-time: the real ROM LD-BYTES is called (requests as in C10) while the tape plays on the emulator (in half of the cases with the host's fast-load setting switched on: a playing deck must still deliver every block through EAR; in two thirds with the CPU first halted or looping in contended RAM for 10..99 frames (5..20 before a data-flag block, whose pilot is shorter) while the tape plays; a header block read to its end must be over when its nominal duration plus at most 32 T per pulse has passed since PLAY); in a third of the two-block cases the first block (usually longer than the 128-byte tape buffer) is first consumed by a fast-load request with the deck stopped — possibly leaving it early — and PLAY is pressed only then: the real-time requests go on with the second block; carry, IX, DE and memory must equal the LD-BYTES model of the block's bytes (which C10 shows fast loading equals). ear-on-every-ula-address: while a block plays, IN from a generated even port address (high byte 0xFF, 0x00, 0xFE, 0xBF or any) must show in bit 6 the level that two bracketing reads of 0x7FFE show (samples where the bracketing reads differ are not judged). non-trivial (waveform) = block with >= 2 distinct bytes, length other than 19/6914, schedule with >= 3 distinct step sizes; (system) every request; distinct = hash of (block bytes, schedule) / (case, request)";
pub const ASSUMPTIONS: &[&str] = &[
    "pulse generator is driven through the cfg(rustzx_verif) re-export of Tap/TapeImpl; time between toggles is measured at the granularity of the schedule steps",
    "the first pilot pulse of a block may merge with the preceding silence (pilot count tolerance of one)",
    "system level uses blocks up to 262 bytes so that a load finishes within 700 frames",
];
