//! C03 — each instruction takes the documented T-states in the documented bus cycles.

use crate::driver::{fnv, Rec, Run};
use crate::e1::{CpuState, Diff, Evt, Proj, Sched};
use crate::props::c01::{encode, fill_mem, regs_strategy, table_name, u8_biased, TABLES};
use proptest::prelude::*;
use refz80::{StepKind, Table};
use serde::{Deserialize, Serialize};

#[derive(Clone, Debug, Serialize, Deserialize)]
pub struct Case {
    pub state: CpuState,
    pub operands: [u8; 3],
    pub mem_seed: u64,
    pub port_seed: u64,
    /// make (HL) equal to A so that CPI/CPIR-type instructions see a match
    pub a_eq_hl: bool,
    /// when not `a_eq_hl`: (HL) = A - this (A - (HL) = 1 or 255 with and without a half borrow are
    /// the states where a compare's "found" decision and its flag arithmetic are easily confused)
    #[serde(default)]
    pub a_minus_hl: Option<u8>,
    pub only: Option<(u8, u8)>,
}

fn shape(events: &[Evt]) -> String {
    // timing skeleton without addresses/data: distinguishes timing variants of an encoding
    let mut s = String::new();
    let mut delays = 0;
    for e in events {
        if let Evt::Delay { .. } = e {
            delays += 1;
            continue;
        }
        if delays > 0 {
            s.push_str(&format!("d{}", delays));
            delays = 0;
        }
        match e {
            Evt::Mem { clk, write, .. } => s.push_str(&format!("{}{}", if *write { 'w' } else { 'r' }, clk)),
            Evt::Internal { n } => s.push_str(&format!("i{}", n)),
            Evt::In { .. } => s.push('I'),
            Evt::Out { .. } => s.push('O'),
            Evt::IntAck { .. } => s.push('A'),
            _ => s.push('?'),
        }
    }
    if delays > 0 {
        s.push_str(&format!("d{}", delays));
    }
    s
}

fn is_prefix(b: u8) -> bool {
    matches!(b, 0xDD | 0xFD | 0xED | 0xCB)
}

fn run_single(c: &Case, base: &[u8; 65536], table: Table, op: u8, rec: &mut Rec) -> Result<(), String> {
    if matches!(table, Table::DD | Table::FD) && is_prefix(op) {
        return Ok(());
    }
    let bytes = encode(table, op, c.operands);
    let mut mem = Box::new(*base);
    let pc = c.state.regs.pc;
    if c.a_eq_hl {
        mem[c.state.regs.hl as usize] = (c.state.regs.af >> 8) as u8;
    } else if let Some(d) = c.a_minus_hl {
        mem[c.state.regs.hl as usize] = ((c.state.regs.af >> 8) as u8).wrapping_sub(d);
    }
    for (i, b) in bytes.iter().enumerate() {
        mem[pc.wrapping_add(i as u16) as usize] = *b;
    }
    let mut d = Diff::new(&mem, &c.state, c.port_seed, 0xFF, Sched::default(), Proj::Timing);
    let tag = || format!("[{} {:#04x} bytes {:02x?}]", table_name(table), op, bytes);
    let mut all: Vec<Evt> = Vec::new();
    let mut guard = 0;
    let mut last;
    loop {
        let rep = d.step().map_err(|e| format!("{} {}", tag(), e))?;
        all.extend(rep.events.iter().copied());
        last = rep.info;
        guard += 1;
        if rep.info.kind != StepKind::Prefix || guard > 4 {
            break;
        }
    }
    rec.eval();
    if !d.bus.q.is_empty() {
        return Err(format!("{} implementation performed extra bus activity {:?}", tag(), d.bus.q));
    }
    if d.bus.clocks != d.rbus.clocks {
        return Err(format!("{} total T-states: implementation {}, reference {}", tag(), d.bus.clocks, d.rbus.clocks));
    }
    if all.iter().any(|e| matches!(e, Evt::Anomaly(_))) {
        return Err(format!("{} bus protocol anomaly: {:?}", tag(), all));
    }
    let sh = shape(&all);
    rec.nontrivial(fnv(format!("{:?}{}{}", table, op, sh).as_bytes()));
    // named timing variants whose coverage is asserted
    let tot = d.rbus.clocks;
    let name = match (table, op) {
        (Table::None_, 0x20 | 0x28 | 0x30 | 0x38) => Some(if tot == 12 { "JRcc-taken" } else { "JRcc-not-taken" }),
        (Table::None_, 0x10) => Some(if tot == 13 { "DJNZ-taken" } else { "DJNZ-not-taken" }),
        (Table::None_, 0xC4 | 0xCC | 0xD4 | 0xDC | 0xE4 | 0xEC | 0xF4 | 0xFC) => Some(if tot == 17 { "CALLcc-taken" } else { "CALLcc-not-taken" }),
        (Table::None_, 0xC0 | 0xC8 | 0xD0 | 0xD8 | 0xE0 | 0xE8 | 0xF0 | 0xF8) => Some(if tot == 11 { "RETcc-taken" } else { "RETcc-not-taken" }),
        (Table::ED, 0xB0 | 0xB8) => Some(if last.repeated { "LDxR-repeat" } else { "LDxR-last" }),
        (Table::ED, 0xB1 | 0xB9) => Some(if last.repeated { "CPxR-repeat" } else if c.a_eq_hl { "CPxR-match" } else { "CPxR-bc0" }),
        (Table::ED, 0xB2 | 0xBA) => Some(if last.repeated { "INxR-repeat" } else { "INxR-last" }),
        (Table::ED, 0xB3 | 0xBB) => Some(if last.repeated { "OTxR-repeat" } else { "OTxR-last" }),
        _ => None,
    };
    if let Some(n) = name {
        rec.class(&format!("variant:{}", n));
    }
    Ok(())
}

pub fn check(c: &Case, rec: &mut Rec) -> Result<(), String> {
    let base = fill_mem(c.mem_seed);
    if let Some((t, op)) = c.only {
        return run_single(c, &base, TABLES[t as usize % 7], op, rec);
    }
    for (ti, t) in TABLES.iter().enumerate() {
        for op in 0..=255u8 {
            run_single(c, &base, *t, op, rec).map_err(|e| format!("{} (replay with only=({}, {}))", e, ti, op))?;
        }
        rec.class_n(table_name(*t), 256);
    }
    Ok(())
}

#[derive(Clone, Debug, Serialize, Deserialize)]
pub struct EntryCase {
    pub state: CpuState,
    pub mem_seed: u64,
    pub int_byte: u8,
    /// 0 = INT, 1 = NMI, 2 = HALT refetch cycles, 3 = INT out of HALT, 4 = NMI out of HALT
    pub kind: u8,
}

pub fn check_entry(c: &EntryCase, rec: &mut Rec) -> Result<(), String> {
    let mem = fill_mem(c.mem_seed);
    let mut st = c.state.clone();
    st.no_int = false;
    let mut sched = Sched::default();
    match c.kind % 5 {
        0 => {
            st.regs.iff1 = true;
            sched.int_always = true;
            st.halted = false;
        }
        1 => {
            sched.nmi_edges = vec![0];
            st.halted = false;
        }
        2 => {
            st.halted = true;
            st.regs.iff1 = false;
        }
        3 => {
            st.halted = true;
            st.regs.iff1 = true;
            sched.int_always = true;
        }
        _ => {
            st.halted = true;
            sched.nmi_edges = vec![0];
        }
    }
    let mut memb = mem;
    if st.halted {
        memb[st.regs.pc as usize] = 0x76;
    }
    let mut d = Diff::new(&memb, &st, 0, c.int_byte, sched, Proj::Timing);
    let rep = d.step()?;
    rec.eval();
    let want_kind = match c.kind % 5 {
        0 | 3 => StepKind::Int,
        1 | 4 => StepKind::Nmi,
        _ => StepKind::HaltCycle,
    };
    if rep.info.kind != want_kind {
        return Err(format!("reference did not perform {:?} (did {:?}) — harness scenario error", want_kind, rep.info.kind));
    }
    let total: u32 = rep.events.iter().map(|e| e.tstates()).sum();
    let documented = match (want_kind, st.regs.im % 3) {
        (StepKind::Int, 2) => 19,
        (StepKind::Int, _) => 13,
        (StepKind::Nmi, _) => 11,
        _ => 4,
    };
    if total != documented {
        return Err(format!("reference entry total {} != documented {} — oracle error", total, documented));
    }
    // a couple more halt cycles / the first handler instruction
    for _ in 0..2 {
        d.step()?;
        rec.eval();
    }
    rec.class(match (want_kind, st.regs.im % 3) {
        (StepKind::Int, 0) => "entry:IM0-13T",
        (StepKind::Int, 1) => "entry:IM1-13T",
        (StepKind::Int, _) => "entry:IM2-19T",
        (StepKind::Nmi, _) => "entry:NMI-11T",
        _ => "halt-refetch-4T",
    });
    rec.nontrivial(fnv(format!("{}{}{}", c.kind % 5, st.regs.im % 3, st.halted).as_bytes()) ^ (c.mem_seed & 0xFF));
    Ok(())
}

pub fn case_strategy() -> impl Strategy<Value = Case> {
    (
        regs_strategy(),
        // counters that select timing variants: B, BC in {0,1,2,...}
        prop_oneof![Just(0u8), Just(1), Just(2), any::<u8>()],
        prop_oneof![Just(0u16), Just(1), Just(2), Just(0x0100), Just(0x0101), any::<u16>()],
        any::<bool>(),
        proptest::array::uniform3(u8_biased()),
        any::<u64>(),
        any::<u64>(),
        (any::<bool>(), prop_oneof![2 => Just(None), 2 => Just(Some(1u8)), 1 => Just(Some(0xFF)), 1 => Just(Some(0x10)), 1 => any::<u8>().prop_map(Some)]),
    )
        .prop_map(|(mut regs, b, bc, use_bc, operands, mem_seed, port_seed, (a_eq_hl, a_minus_hl))| {
            if use_bc {
                regs.bc = bc;
            } else {
                regs.bc = (regs.bc & 0x00FF) | ((b as u16) << 8);
            }
            Case {
                state: CpuState {
                    regs,
                    memptr: 0,
                    q_is_f: false,
                    halted: false,
                    no_int: false,
                },
                operands,
                mem_seed,
                port_seed,
                a_eq_hl,
                a_minus_hl,
                only: None,
            }
        })
}

pub fn entry_strategy() -> impl Strategy<Value = EntryCase> {
    (regs_strategy(), any::<u64>(), any::<u8>(), 0u8..5).prop_map(|(regs, mem_seed, int_byte, kind)| EntryCase {
        state: CpuState {
            regs,
            memptr: 0,
            q_is_f: false,
            halted: false,
            no_int: false,
        },
        mem_seed,
        int_byte,
        kind,
    })
}

const REQUIRED_VARIANTS: &[&str] = &[
    "JRcc-taken", "JRcc-not-taken", "DJNZ-taken", "DJNZ-not-taken", "CALLcc-taken", "CALLcc-not-taken",
    "RETcc-taken", "RETcc-not-taken", "LDxR-repeat", "LDxR-last", "CPxR-repeat", "CPxR-match", "CPxR-bc0",
    "INxR-repeat", "INxR-last", "OTxR-repeat", "OTxR-last",
];

pub fn run(run: &mut Run) {
    if !crate::props::calibration::ensure(run) {
        return;
    }
    let t = run.tier;
    run.explore("all-encodings-per-state", t.pick(3_000, 60_000), case_strategy, check);
    run.explore("interrupt-entry-and-halt", t.pick(40_000, 1_000_000), entry_strategy, check_entry);
    // generator coverage is itself asserted: a hole is an infrastructure error, not a pass
    if !run.failed() {
        let p = &run.phases[run.phases.len() - 2];
        for v in REQUIRED_VARIANTS {
            if p.stats.classes.get(&format!("variant:{}", v)).copied().unwrap_or(0) == 0 {
                run.infra_error = Some(format!("generator hole: timing variant {} never produced", v));
            }
        }
        let p = &run.phases[run.phases.len() - 1];
        for v in ["entry:IM0-13T", "entry:IM1-13T", "entry:IM2-19T", "entry:NMI-11T", "halt-refetch-4T"] {
            if p.stats.classes.get(v).copied().unwrap_or(0) == 0 {
                run.infra_error = Some(format!("generator hole: {} never produced", v));
            }
        }
    }
}

pub fn replay(run: &mut Run, phase: &str, case: &serde_json::Value) -> Result<(), String> {
    match phase {
        "all-encodings-per-state" => run.replay_one::<Case, _>(phase, case, check),
        "interrupt-entry-and-halt" => run.replay_one::<EntryCase, _>(phase, case, check_entry),
        _ => Err(format!("unknown phase {}", phase)),
    }
}

pub const LEVEL: &str = "exploration";
pub const RULE: &str = "each generated state (registers, flags, B/BC biased to 0/1/2 so that every repeat/fall-through variant occurs, optional A==(HL) or A-(HL) in {1, 0xFF, 0x10, any}, operand bytes, random memory) is applied to ALL 1792 encodings; implementation and reference execute the instruction from the same state and the ordered timing skeleton is compared event by event: (kind read/write/delay/io, clocks 4/3/1, address of every memory cycle and of every single delay T-state — each presented as its own 1-T bus call —, port of every I/O cycle) plus the T-state total; second phase: INT entry in IM 0/1/2, NMI entry, HALT refetch, from running and halted states (totals 13/19/11/4 and the memory cycles). non-trivial/distinct = distinct (encoding, timing-skeleton shape) pairs; coverage of 17 named variants (taken/not taken, repeat/last, match) and 5 entry kinds is asserted";
pub const ASSUMPTIONS: &[&str] = &[
    "reference bus-cycle breakdown (refz80) follows the published ZX Spectrum contention tables; trusted after calibration and its own T-state table self-check",
    "inside interrupt entry totals and memory cycles are compared; the position of the 7/5 acknowledge T-states is not judged, but acknowledge T-states the implementation presents as addressed delay T-states must carry the return address (the pushed word; HALT+1 out of HALT); HALT refetch address PC or PC+1 both accepted",
    "data values and final registers are C01's business and are ignored here",
];
