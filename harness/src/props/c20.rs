//! C20 — VTX playback is frame-accurate and independent of play() chunking.

use crate::driver::{fnv, fp_of, Rec, Run, Tier};
use crate::formats::vtx::{self as vtxw, VtxSpec};
use aym::{AyMode, AymBackend, SoundChip, StereoSample};
use proptest::prelude::*;
use serde::{Deserialize, Serialize};
use std::cell::RefCell;
use vtx::{player::Player, Vtx};

#[derive(Clone, Debug, Serialize, Deserialize)]
pub struct Case {
    pub frames: Vec<[u8; 14]>,
    pub rate: usize,
    pub pf: u8,
    pub stereo: bool,
    pub ym: bool,
    pub mode: u8,
    pub frequency: u32,
    pub partition: Vec<usize>,
}

// ---------------------------------------------------------------------------------------
// recording backend

#[derive(Default)]
struct RecLog {
    created: Vec<(bool, u8, usize, usize)>,
    writes: Vec<(usize, u8, u8)>, // (samples generated so far, reg, value)
    samples: usize,
}

thread_local! {
    static LOG: RefCell<RecLog> = RefCell::new(RecLog::default());
}

struct RecBackend;

fn mode_idx(m: &AyMode) -> u8 {
    match m {
        AyMode::Mono => 0,
        AyMode::ABC => 1,
        AyMode::ACB => 2,
        AyMode::BAC => 3,
        AyMode::BCA => 4,
        AyMode::CAB => 5,
        AyMode::CBA => 6,
    }
}

fn sample_value(i: usize) -> f64 {
    // exactly representable in f32 and distinct for i < 2^20
    ((i % (1 << 20)) as f64 + 1.0) / (1u64 << 21) as f64
}

impl AymBackend for RecBackend {
    type SoundSample = f64;
    fn new(chip: SoundChip, mode: AyMode, frequency: usize, sample_rate: usize) -> Self {
        LOG.with(|l| {
            let mut l = l.borrow_mut();
            *l = RecLog::default();
            l.created
                .push((matches!(chip, SoundChip::YM), mode_idx(&mode), frequency, sample_rate));
        });
        RecBackend
    }
    fn write_register(&mut self, address: u8, value: u8) {
        LOG.with(|l| {
            let mut l = l.borrow_mut();
            let s = l.samples;
            l.writes.push((s, address, value));
        });
    }
    fn next_sample(&mut self) -> StereoSample<f64> {
        LOG.with(|l| {
            let mut l = l.borrow_mut();
            let i = l.samples;
            l.samples += 1;
            StereoSample {
                left: sample_value(i),
                right: -sample_value(i),
            }
        })
    }
}

fn mk_vtx(c: &Case) -> Vtx {
    let stereo = match c.mode % 7 {
        0 => vtx::Stereo::Mono,
        1 => vtx::Stereo::ABC,
        2 => vtx::Stereo::ACB,
        3 => vtx::Stereo::BAC,
        4 => vtx::Stereo::BCA,
        5 => vtx::Stereo::CAB,
        _ => vtx::Stereo::CBA,
    };
    Vtx {
        chip: if c.ym { vtx::SoundChip::YM } else { vtx::SoundChip::AY },
        stereo,
        frequency: c.frequency,
        player_frequency: c.pf,
        loop_start_frame: 0,
        year: 0,
        title: String::new(),
        author: String::new(),
        from: String::new(),
        tracker: String::new(),
        comment: String::new(),
        frame_data: c.frames.iter().flat_map(|f| f.iter().copied()).collect(),
    }
}

fn partition_nontrivial(c: &Case) -> bool {
    let spf = c.rate / c.pf as usize;
    let mut distinct: Vec<usize> = c.partition.clone();
    distinct.sort();
    distinct.dedup();
    let per_chan = |len: usize| if c.stereo { len / 2 } else { len };
    c.frames.len() >= 3 && distinct.len() >= 3 && c.partition.iter().any(|l| per_chan(*l) % spf != 0)
}

/// (a) scheduling against the recording backend
pub fn check_schedule(c: &Case, rec: &mut Rec) -> Result<(), String> {
    let spf = c.rate / c.pf as usize;
    let nframes = c.frames.len();
    let expected_per_chan = nframes * spf;
    let mut player: Player<RecBackend> = Player::new(mk_vtx(c), c.rate, c.stereo);
    let chans = if c.stereo { 2 } else { 1 };
    let mut out: Vec<f64> = Vec::new();
    let mut idx = 0usize;
    let mut guard_calls = 0usize;
    let mut ended = false;
    let mut calls_made = 0u64;
    while !ended {
        let len = c.partition[idx % c.partition.len()];
        idx += 1;
        guard_calls += 1;
        if guard_calls > 4 * (expected_per_chan * chans + 16) + 64 {
            return Err(format!("play() never reports the end: {} calls, {} samples so far", guard_calls, out.len()));
        }
        let mut buf = vec![0f64; len];
        let n = player.play(&mut buf);
        if n > len {
            return Err(format!("play returned {} for a buffer of {}", n, len));
        }
        if c.stereo && n % 2 != 0 {
            return Err(format!("stereo play returned odd count {}", n));
        }
        out.extend_from_slice(&buf[..n]);
        calls_made += 1;
        let capacity = if c.stereo { len & !1 } else { len };
        if capacity == 0 {
            // a stereo buffer of length 1 has no room for a sample pair: 0 does not mean "end"
            if n != 0 {
                return Err(format!("play returned {} for a buffer without room", n));
            }
        } else if n < capacity {
            ended = true;
        } else if out.len() > expected_per_chan * chans {
            return Err(format!(
                "more samples than frames*floor(rate/pf): got {} expected {}",
                out.len(),
                expected_per_chan * chans
            ));
        }
    }
    rec.eval();
    rec.class_n("play-calls", calls_made);
    if out.len() != expected_per_chan * chans {
        return Err(format!(
            "total samples {} != frames {} * spf {} * channels {}",
            out.len(),
            nframes,
            spf,
            chans
        ));
    }
    // after the end: a call with room returns 0
    let mut buf = vec![0f64; 8];
    let n = player.play(&mut buf);
    if n != 0 {
        return Err(format!("play after the end returned {}", n));
    }
    // samples are the backend's samples in order
    for i in 0..expected_per_chan {
        let (l, r) = (sample_value(i), -sample_value(i));
        if c.stereo {
            if out[2 * i] != l || out[2 * i + 1] != r {
                return Err(format!("stereo sample {} is not the backend's sample {}", i, i));
            }
        } else if out[i] != l {
            return Err(format!("mono sample {} is not the backend's left sample {}", i, i));
        }
    }
    // register writes
    let (created, writes, samples) = LOG.with(|l| {
        let l = l.borrow();
        (l.created.clone(), l.writes.clone(), l.samples)
    });
    if samples != expected_per_chan {
        return Err(format!("backend generated {} samples, expected {}", samples, expected_per_chan));
    }
    let want_mode = if c.stereo { c.mode % 7 } else { 0 };
    if created != vec![(c.ym, want_mode, c.frequency as usize, c.rate)] {
        return Err(format!("backend constructed as {:?}", created));
    }
    let mut want: Vec<(usize, u8, u8)> = Vec::new();
    for (k, f) in c.frames.iter().enumerate() {
        for r in 0..14u8 {
            if r == 13 && f[13] == 0xFF {
                continue;
            }
            want.push((k * spf, r, f[r as usize]));
        }
    }
    if writes != want {
        let pos = writes.iter().zip(want.iter()).position(|(a, b)| a != b).unwrap_or(writes.len().min(want.len()));
        return Err(format!(
            "register write log differs at entry {}: got {:?} want {:?} (lens {} vs {})",
            pos,
            writes.get(pos),
            want.get(pos),
            writes.len(),
            want.len()
        ));
    }
    if partition_nontrivial(c) {
        rec.nontrivial(fp_of(c));
    }
    rec.class(if c.stereo { "stereo" } else { "mono" });
    if c.frames.iter().any(|f| f[13] == 0xFF) {
        rec.class("has-r13-ff");
    }
    if c.partition.iter().any(|l| *l == 1) {
        rec.class("buffer-len-1");
    }
    if c.stereo && c.partition.iter().any(|l| l % 2 == 1) {
        rec.class("stereo-odd-buffer");
    }
    Ok(())
}

fn play_all<S: vtx::player::PlayerSample + Copy + Default>(c: &Case, partition: &[usize]) -> Result<Vec<S>, String> {
    let spf = c.rate / c.pf as usize;
    let chans = if c.stereo { 2 } else { 1 };
    let expected = c.frames.len() * spf * chans;
    let mut player: Player<aym::AymPrecise> = Player::new(mk_vtx(c), c.rate, c.stereo);
    let mut out: Vec<S> = Vec::with_capacity(expected);
    let mut idx = 0;
    let mut calls = 0usize;
    loop {
        let len = partition[idx % partition.len()];
        idx += 1;
        calls += 1;
        if calls > 4 * (expected + 16) + 64 {
            return Err("play() never reports the end".into());
        }
        let mut buf = vec![S::default(); len];
        let n = player.play(&mut buf);
        if n > len {
            return Err(format!("play returned {} for a buffer of {}", n, len));
        }
        out.extend_from_slice(&buf[..n]);
        let capacity = if c.stereo { len & !1 } else { len };
        if capacity > 0 && n < capacity {
            break;
        }
        if out.len() > expected {
            return Err(format!("more samples than expected: {} > {}", out.len(), expected));
        }
    }
    Ok(out)
}

/// (b) chunking independence with the real generator
pub fn check_chunking(c: &Case, rec: &mut Rec) -> Result<(), String> {
    let spf = c.rate / c.pf as usize;
    let chans = if c.stereo { 2 } else { 1 };
    let expected = c.frames.len() * spf * chans;
    let whole = vec![expected + 2 * chans + 2];
    let a16: Vec<i16> = play_all(c, &whole)?;
    let b16: Vec<i16> = play_all(c, &c.partition)?;
    rec.eval();
    if a16.len() != expected {
        return Err(format!("single-buffer i16 run produced {} samples, expected {}", a16.len(), expected));
    }
    if a16 != b16 {
        let pos = a16.iter().zip(b16.iter()).position(|(a, b)| a != b);
        return Err(format!(
            "i16 stream depends on chunking: lens {} vs {}, first difference at {:?}",
            a16.len(),
            b16.len(),
            pos
        ));
    }
    let a32: Vec<f32> = play_all(c, &whole)?;
    let b32: Vec<f32> = play_all(c, &c.partition)?;
    rec.eval();
    let ab: Vec<u32> = a32.iter().map(|x| x.to_bits()).collect();
    let bb: Vec<u32> = b32.iter().map(|x| x.to_bits()).collect();
    if ab != bb {
        let pos = ab.iter().zip(bb.iter()).position(|(a, b)| a != b);
        return Err(format!(
            "f32 stream depends on chunking: lens {} vs {}, first difference at {:?}",
            ab.len(),
            bb.len(),
            pos
        ));
    }
    if partition_nontrivial(c) {
        rec.nontrivial(fp_of(c));
    }
    rec.class(if c.stereo { "stereo" } else { "mono" });
    Ok(())
}

/// (c) decode: register-major → frame-major without losing or reordering a byte
pub fn check_decode(spec: &VtxSpec, rec: &mut Rec) -> Result<(), String> {
    let file = vtxw::write(spec);
    rec.eval();
    // the reader hands the file over all at once or in short reads (chosen by the file's bytes)
    struct Short<'a> {
        data: &'a [u8],
        pos: usize,
        max: usize,
    }
    impl<'a> std::io::Read for Short<'a> {
        fn read(&mut self, buf: &mut [u8]) -> std::io::Result<usize> {
            let n = buf.len().min(self.max).min(self.data.len() - self.pos);
            buf[..n].copy_from_slice(&self.data[self.pos..self.pos + n]);
            self.pos += n;
            Ok(n)
        }
    }
    impl<'a> std::io::Seek for Short<'a> {
        fn seek(&mut self, pos: std::io::SeekFrom) -> std::io::Result<u64> {
            let len = self.data.len() as i64;
            let new = match pos {
                std::io::SeekFrom::Start(n) => n as i64,
                std::io::SeekFrom::End(n) => len + n,
                std::io::SeekFrom::Current(n) => self.pos as i64 + n,
            };
            if new < 0 {
                return Err(std::io::Error::new(std::io::ErrorKind::InvalidInput, "seek before start"));
            }
            self.pos = (new as usize).min(self.data.len());
            Ok(new as u64)
        }
    }
    let max = [usize::MAX, usize::MAX, 1, 7, 64, 255, 257][(fnv(&file) % 7) as usize];
    if max != usize::MAX {
        rec.class("reader-with-short-reads");
    }
    let v = Vtx::load(Short { data: &file, pos: 0, max }).map_err(|e| format!("well-formed VTX rejected (reader returning at most {} bytes per read): {:?}", max, e))?;
    let want: Vec<u8> = spec.frames.iter().flat_map(|f| f.iter().copied()).collect();
    if v.frame_data != want {
        let pos = v.frame_data.iter().zip(want.iter()).position(|(a, b)| a != b);
        return Err(format!(
            "frame_data differs: len {} vs {}, first difference at {:?}",
            v.frame_data.len(),
            want.len(),
            pos
        ));
    }
    let strings = [&v.title, &v.author, &v.from, &v.tracker, &v.comment];
    for (i, s) in strings.iter().enumerate() {
        if **s != spec.strings[i] {
            return Err(format!("string {} decoded as {:?}, file has {:?}", i, s, spec.strings[i]));
        }
    }
    if v.frequency != spec.frequency || v.player_frequency != spec.player_frequency || v.year != spec.year || v.loop_start_frame != spec.loop_frame {
        return Err("header fields decoded wrongly".into());
    }
    if matches!(v.chip, vtx::SoundChip::YM) != spec.ym {
        return Err("chip decoded wrongly".into());
    }
    if spec.frames.len() >= 3 {
        let mut cols = std::collections::HashSet::new();
        for f in &spec.frames {
            cols.insert(fnv(f));
        }
        if cols.len() >= 2 {
            rec.nontrivial(fp_of(spec));
        }
    }
    if spec.frames.is_empty() {
        rec.class("zero-frames");
    }
    if spec.frames.len() * 14 > 0xFFFF {
        rec.class("multi-block-lh5");
    }
    Ok(())
}

// ---------------------------------------------------------------------------------------
// generators

fn frame_strategy() -> impl Strategy<Value = [u8; 14]> {
    (proptest::array::uniform14(any::<u8>()), any::<bool>()).prop_map(|(mut f, ff)| {
        if ff {
            f[13] = 0xFF;
        }
        f
    })
}

fn rate_strategy() -> impl Strategy<Value = usize> {
    prop_oneof![
        Just(8000usize),
        Just(11025),
        Just(22050),
        Just(44100),
        Just(48000),
        Just(96000),
        8000usize..=96000,
    ]
}

pub fn case_strategy(sample_budget: usize) -> impl Strategy<Value = Case> {
    (
        rate_strategy(),
        prop_oneof![Just(50u8), Just(1u8), Just(255u8), 1u8..=255],
        any::<bool>(),
        any::<bool>(),
        0u8..7,
        prop_oneof![Just(1_773_400u32), 1_000_000u32..=2_000_000],
        proptest::collection::vec(frame_strategy(), 0..=400),
        proptest::collection::vec((0u8..10, 1usize..2000), 1..=12),
    )
        .prop_map(move |(rate, pf, stereo, ym, mode, frequency, mut frames, parts)| {
            let spf = rate / pf as usize;
            let max_frames = (sample_budget / spf).max(3);
            frames.truncate(max_frames);
            let total = frames.len() * spf;
            let partition = parts
                .into_iter()
                .map(|(k, u)| match k {
                    0 => 1,
                    1 => 2,
                    2 => 3,
                    3 => 2 * (u % 50) + 1,
                    4 => spf.saturating_sub(1).max(1),
                    5 => spf,
                    6 => spf + 1,
                    7 => 2 * spf + 1,
                    8 => 2 * total + 10,
                    _ => u,
                })
                .collect::<Vec<usize>>();
            let mut partition = partition;
            if partition.iter().all(|l| *l < 2) {
                // at least one buffer with room for a stereo pair, or nothing ever advances
                partition.push(2);
            }
            Case {
                frames,
                rate,
                pf,
                stereo,
                ym,
                mode,
                frequency,
                partition,
            }
        })
}

pub fn spec_strategy() -> impl Strategy<Value = VtxSpec> {
    (
        any::<bool>(),
        0u8..7,
        any::<u16>(),
        any::<u32>(),
        1u8..=255,
        any::<u16>(),
        // (text fields: usually short; now and then together longer than the decoder's 256-byte window)
        prop_oneof![4 => proptest::array::uniform5("[ -~]{0,40}"), 1 => proptest::array::uniform5("[ -~]{0,300}")],
        prop_oneof![
            8 => proptest::collection::vec(frame_strategy(), 0..=400),
            1 => proptest::collection::vec(frame_strategy(), 4600..=5000),
        ],
    )
        .prop_map(|(ym, stereo, loop_frame, frequency, pf, year, strings, frames)| VtxSpec {
            ym,
            stereo,
            loop_frame,
            frequency,
            player_frequency: pf,
            year,
            strings,
            frames,
        })
}

pub fn run(run: &mut Run) {
    let t = run.tier;
    run.explore("schedule", t.pick(24_000, 600_000), || case_strategy(300_000), check_schedule);
    run.explore("chunking", t.pick(3_000, 60_000), || case_strategy(40_000), check_chunking);
    run.explore("decode", t.pick(6_000, 100_000), spec_strategy, check_decode);
    // tracks longer than 65535 frames (frame counters are not 16-bit)
    let mut long = Vec::new();
    for (stereo, extra) in [(false, 11usize), (true, 1)] {
        let frames: Vec<[u8; 14]> = (0..65_536 + extra)
            .map(|i| {
                let mut f = [0u8; 14];
                for (r, b) in f.iter_mut().enumerate() {
                    *b = ((i * 7 + r * 31) >> (r % 3)) as u8;
                }
                f[13] = if i % 5 == 0 { 0xFF } else { f[13] & 0x0F };
                f
            })
            .collect();
        long.push(Case { frames, rate: 8000, pf: 250, stereo, ym: false, mode: if stereo { 1 } else { 0 }, frequency: 1_773_400, partition: vec![100_000, 7, 4096] });
    }
    run.enumerate("long-track", long, false, check_schedule);
}

pub fn replay(run: &mut Run, phase: &str, case: &serde_json::Value) -> Result<(), String> {
    match phase {
        "schedule" | "long-track" => run.replay_one::<Case, _>(phase, case, check_schedule),
        "chunking" => run.replay_one::<Case, _>(phase, case, check_chunking),
        "decode" => run.replay_one::<VtxSpec, _>(phase, case, check_decode),
        _ => Err(format!("unknown phase {}", phase)),
    }
}

pub const RULE: &str = "cases = (register log of 0..400 frames with R13=0xFF in half of them, sample rate 8000..96000, player frequency 1..255, mono/stereo, cyclic partition of the output into 1..12 buffer lengths from {1,2,3,odd,spf-1,spf,spf+1,2spf+1,huge,uniform}); non-trivial = >=3 frames and a partition with >=3 distinct buffer lengths at least one of which is not a multiple of samples-per-frame (decode phase: >=3 frames with >=2 distinct frame contents); distinct = hash of the whole case long-track: two tracks of more than 65536 frames (mono and stereo) are played to the end under the same schedule oracle. decode: text fields of up to 300 characters each, readers with short reads.";
pub const ASSUMPTIONS: &[&str] = &[
    "the AymBackend trait is the seam at which register writes are observed (recording backend)",
    "literal-only LH5 encoder of the harness produces streams a conforming LH5 decoder accepts",
    "player_frequency 0 and sample rates below the player frequency are outside the quantified domain",
];
pub const LEVEL: &str = "exploration";

#[allow(dead_code)]
fn _tier(_: Tier) {}
