//! C05 — frames last 69888/70908 T with a 32-T INT pulse; no T-state is ever lost.

use crate::driver::{fnv, Rec, Run};
use crate::e1::{set_ref, CpuState};
use crate::e2::RefMachine;
use crate::host::{mk_emu, BpMode, EmuOpts, Machine, MemRomSet, LONG};
use crate::mach::{self, MemModel, RegFile};
use proptest::prelude::*;
use refz80::StepKind;
use rustzx_core::EmulationMode;
use serde::{Deserialize, Serialize};

#[derive(Clone, Debug, Serialize, Deserialize)]
pub struct Case {
    pub machine: Machine,
    /// where the main program lives: 0 = 0x8000 (uncontended), 1 = 0x6000 (contended), 2 = 0xC000 with `bank`
    pub placement: u8,
    pub bank: u8,
    pub body: Vec<u8>,
    pub handler: Vec<u8>,
    pub handler_ends_with_ei: bool,
    pub handler_reti: bool,
    pub im: u8,
    pub iff: bool,
    pub start_t: u32,
    /// frames per emulate_frames call
    pub calls: Vec<u8>,
    /// 0 = no tape; 1 = a well-formed tape is playing all along; 2 = a playing tape whose first
    /// block is empty (process_clocks reports InvalidTapFile once, emulate_frames returns Err and
    /// the host carries on). Programs of such cases contain no port reads (EAR is not modelled).
    #[serde(default)]
    pub tape: u8,
    /// a host I/O extender claims every port whose low byte is 0xFE (the programs' port traffic then
    /// goes to it): time is conserved all the same
    #[serde(default)]
    pub extender: bool,
    /// the host stops the machine with a breakpoint after this many instructions (somewhere inside a
    /// frame) and pokes a byte into contended RAM before it lets it run on: a poke is not a CPU
    /// access and takes no emulated time
    #[serde(default)]
    pub poke_after_instructions: Option<u16>,
}

const COUNTER: u16 = 0xB000;
const HANDLER: u16 = 0xA000;
const STACK: u16 = 0xBF00;

/// program building blocks: no prefix chains, no reads from unclaimed ports, stack-balanced
fn block() -> impl Strategy<Value = Vec<u8>> {
    prop_oneof![
        8 => Just(vec![0x00u8]),
        4 => (0u8..7, any::<u8>()).prop_map(|(r, n)| { let r = if r == 6 { 7 } else { r }; vec![0x06 | (r << 3), n] }),
        4 => (0x80u8..=0xBF).prop_map(|op| vec![if op & 7 == 6 { op | 1 } else { op }]),
        3 => Just(vec![0xFBu8]),
        2 => Just(vec![0xF3u8]),
        2 => Just(vec![0x76u8]),
        2 => Just(vec![0xFBu8, 0x76]),
        3 => prop_oneof![Just(vec![0xC5u8, 0xC1]), Just(vec![0xF5, 0xF1]), Just(vec![0xDD, 0xE5, 0xDD, 0xE1]), Just(vec![0xE5, 0xE3, 0xE1])],
        // memory traffic into the data page (uncontended) and the screen (contended)
        3 => (any::<u8>(), prop_oneof![Just(0xB1u8), Just(0x58), Just(0x40)]).prop_map(|(lo, hi)| vec![0x32, lo, hi]),
        3 => (any::<u8>(), prop_oneof![Just(0xB1u8), Just(0x58), Just(0x40)]).prop_map(|(lo, hi)| vec![0x3A, lo, hi]),
        2 => (any::<u8>(), prop_oneof![Just(0xB1u8), Just(0x58)]).prop_map(|(lo, hi)| vec![0x21, lo, hi, 0x34, 0x35, 0x7E, 0xCB, 0x46]),
        2 => (any::<u8>(), any::<i8>()).prop_map(|(lo, d)| vec![0xDD, 0x21, lo, 0xB1, 0xDD, 0x34, d as u8, 0xFD, 0x21, lo, 0x59, 0xFD, 0x7E, d as u8]),
        // small LDIR inside the data page / into the screen
        2 => (1u8..6, prop_oneof![Just(0xB2u8), Just(0x48)]).prop_map(|(n, dhi)| vec![0x21, 0x00, 0xB1, 0x11, 0x00, dhi, 0x01, n, 0x00, 0xED, 0xB0]),
        // DJNZ delay loop
        3 => (1u8..40).prop_map(|n| vec![0x06, n, 0x10, 0xFE]),
        // ULA port traffic
        2 => any::<u8>().prop_map(|v| vec![0x3E, v, 0xD3, 0xFE]),
        2 => Just(vec![0x3Eu8, 0x7F, 0xDB, 0xFE]),
        2 => Just(vec![0x01u8, 0xFE, 0x40, 0xED, 0x78, 0xED, 0x79]),
        2 => prop_oneof![Just(vec![0xED, 0x44]), Just(vec![0xED, 0x57]), Just(vec![0xED, 0x5F]), Just(vec![0xED, 0x6F]), Just(vec![0x27]), Just(vec![0x37]), Just(vec![0x3F])],
        1 => Just(vec![0x21u8, 0x00, 0xB1, 0xED, 0x67]),
    ]
}

/// fillers of 0..~20 T-states for short handlers (re-entry near the end of the 32-T window)
fn filler() -> impl Strategy<Value = Vec<u8>> {
    proptest::collection::vec(
        prop_oneof![Just(vec![0x00u8]), Just(vec![0x23]), Just(vec![0x06, 0x00]), Just(vec![0x7E]), Just(vec![0xED, 0x44]), Just(vec![0x03])],
        0..=5,
    )
    .prop_map(|v| v.into_iter().flatten().collect())
}

/// Programs for the runs with a tape: no port reads (the reference has no EAR input).
pub fn tape_case_strategy(max_frames: u8) -> impl Strategy<Value = Case> {
    (case_strategy_with(max_frames, false), 1u8..3).prop_map(|(mut c, tape)| {
        c.tape = tape;
        c
    })
}

pub fn case_strategy(max_frames: u8) -> impl Strategy<Value = Case> {
    case_strategy_with(max_frames, true)
}

fn case_strategy_with(max_frames: u8, port_reads: bool) -> impl Strategy<Value = Case> {
    let blk = move || {
        block().prop_map(move |b| {
            let reads = b.windows(2).any(|w| w == [0xDB, 0xFE] || w == [0xED, 0x78]);
            if reads && !port_reads {
                vec![0x00u8]
            } else {
                b
            }
        })
    };
    (
        prop_oneof![Just(Machine::K48), Just(Machine::K128)],
        0u8..3,
        0u8..8,
        prop_oneof![
            3 => proptest::collection::vec(blk(), 1..=40).prop_map(|v| v.into_iter().flatten().collect::<Vec<u8>>()),
            // HALT-synchronised main loop: the handler starts at T = 0..3 of every frame
            1 => filler().prop_map(|mut f| { f.extend_from_slice(&[0xFB, 0x76]); f }),
        ],
        prop_oneof![
            // short handler: filler; [EI]; RET — may be re-entered inside the same 32-T pulse
            3 => filler(),
            // counting handler of generated length
            3 => (0usize..1200).prop_map(|n| {
                let mut h = vec![0xF5, 0xE5, 0x21, COUNTER as u8, (COUNTER >> 8) as u8, 0x34];
                h.extend(std::iter::repeat(0x00).take(n));
                h.extend_from_slice(&[0xE1, 0xF1]);
                h
            }),
        ],
        any::<bool>(),
        any::<bool>(),
        0u8..3,
        any::<bool>(),
        any::<u32>(),
        proptest::collection::vec(1u8..=max_frames, 1..=6),
    )
        .prop_map(move |(machine, placement, bank, mut body, handler, handler_ends_with_ei, handler_reti, im, iff, start_t, calls)| {
            // programs that do not live in the paged window also write the paging port (values incl. the
            // lock bit; once locked every later pass of the loop issues ignored writes): an OUT takes its
            // time whether the latch accepts it or not
            if placement % 3 != 2 && start_t % 3 == 0 {
                for k in 0..(start_t >> 4) % 3 + 1 {
                    let v = (start_t >> (8 + 8 * k)) as u8;
                    body.extend_from_slice(&[0x01, 0xFD, 0x7F, 0x3E, v, 0xED, 0x79]);
                }
            }
            Case {
            machine,
            placement,
            bank,
            body,
            handler,
            handler_ends_with_ei,
            handler_reti,
            im,
            iff,
            start_t,
            extender: calls.len() % 3 == 0 && port_reads,
            poke_after_instructions: if start_t % 5 == 1 { Some((start_t >> 12) as u16 % 12_000) } else { None },
            calls,
            tape: 0,
            }
        })
}

pub fn check(c: &Case, rec: &mut Rec) -> Result<(), String> {
    let machine = c.machine;
    let frame_len = machine.frame_len() as u64;
    // ROM set supplied by the host: NOPs, JP HANDLER at 0x0038, RETN at 0x0066
    let mut rom = vec![0u8; mach::PAGE];
    rom[0x38] = 0xC3;
    rom[0x39] = HANDLER as u8;
    rom[0x3A] = (HANDLER >> 8) as u8;
    rom[0x66] = 0xED;
    rom[0x67] = 0x45;
    // handler bytes
    let mut h = c.handler.clone();
    if c.handler_ends_with_ei {
        h.push(0xFB);
    }
    if c.handler_reti {
        h.extend_from_slice(&[0xED, 0x4D]);
    } else {
        h.push(0xC9);
    }
    if h.len() <= 40 {
        // short handlers sit directly at 0x0038 so that EI;RET can complete inside the 32-T pulse
        rom[0x38..0x38 + h.len()].copy_from_slice(&h);
    }
    let roms: Vec<Vec<u8>> = (0..if machine == Machine::K48 { 1 } else { 2 }).map(|_| rom.clone()).collect();
    let mut opts = EmuOpts::new(machine);
    opts.default_rom = false;
    let mut e = mk_emu(&opts);
    e.load_rom(MemRomSet { pages: roms.clone().into(), chunk: 0 }).map_err(|x| format!("load_rom: {:?}", x))?;
    let mut mem = MemModel::new(machine, roms);
    let latch = if machine == Machine::K128 { c.bank & 7 } else { 0 };
    if machine == Machine::K128 {
        e.verif_set_paging(latch);
        mem.latch = latch;
    }
    let base: u16 = match c.placement % 3 {
        0 => 0x8000,
        1 => 0x6000,
        _ => 0xC000,
    };
    // main program: body; JP base
    let mut prog = c.body.clone();
    prog.extend_from_slice(&[0xC3, base as u8, (base >> 8) as u8]);
    mach::poke_bytes(&mut e, &mut mem, base, &prog);
    mach::poke_bytes(&mut e, &mut mem, HANDLER, &h);
    // IM 2 vector: I = 0xA8, bus byte 0xFF → word at 0xA8FF/0xA900
    mach::poke_bytes(&mut e, &mut mem, 0xA8FF, &[HANDLER as u8, (HANDLER >> 8) as u8]);
    let regs = RegFile {
        pc: base,
        sp: STACK,
        i: 0xA8,
        im: c.im % 3,
        iff1: c.iff,
        iff2: c.iff,
        hl: 0xB100,
        ..Default::default()
    };
    mach::set_regs(&mut e, &regs);
    let start_t = c.start_t as u64 % frame_len;
    e.verif_set_frame_clocks(start_t as usize);
    let mut m = RefMachine::new(mem);
    if c.extender {
        e.set_io_extender(crate::host::LoggingExtender::new(vec![(0x00FF, 0x00FE)], 0x5A));
        m.bus.ext = Some((vec![(0x00FF, 0x00FE)], 0x5A));
        rec.class("io-extender-claims-xxFE");
    }
    set_ref(&mut m.cpu, &CpuState { regs, memptr: 0, q_is_f: false, halted: false, no_int: false });
    {
        let cpu = e.verif_cpu();
        cpu.regs.set_mem_ptr(0);
        cpu.regs.clear_q();
    }
    m.bus.t = start_t;
    e.debug_interface().unwrap().mode = BpMode::Never;
    let frames0 = e.verif_total_frames();
    let tb = crate::e2::TimeBase { emu_frames0: frames0, frame_len };
    // model time origin: frame 0 T 0 of the emulator's current frame
    let mut target = 0u64;
    let mut straddles = 0u64;
    let mut groups = 0u64;
    if c.tape % 3 != 0 {
        use crate::formats::tap;
        use crate::host::{DynAsset, MemAsset};
        let good = tap::block(0xFF, &[1, 2, 3], true);
        let mut image = Vec::new();
        if c.tape % 3 == 2 {
            image.extend_from_slice(&[0x00, 0x00]);
        }
        image.extend_from_slice(&tap::write(&[good.clone(), good]));
        e.load_tape(rustzx_core::host::Tape::Tap(DynAsset::new(MemAsset::new(image)))).map_err(|x| format!("load_tape: {:?}", x))?;
        e.play_tape();
        rec.class(if c.tape % 3 == 2 { "tape-with-an-empty-block-playing" } else { "tape-playing" });
    }
    if let (Some(steps), 0) = (c.poke_after_instructions, c.tape % 3) {
        e.debug_interface().unwrap().mode = BpMode::AfterCalls(steps as u64 + 1);
        e.set_speed(EmulationMode::FrameCount(1000));
        e.emulate_frames(LONG).map_err(|x| format!("emulate_frames: {:?}", x))?;
        e.debug_interface().unwrap().mode = BpMode::Never;
        let et = tb.emu_t(&e);
        let mut guard = 0u64;
        while m.bus.t < et {
            m.step_fine();
            guard += 1;
            if guard > 80_000_000 {
                return Err("model did not reach the emulator's position".into());
            }
        }
        if m.bus.t != et {
            let _ = m.catch_up(&mut e, &tb);
        }
        struct P([rustzx_core::poke::PokeAction; 1]);
        impl rustzx_core::poke::Poke for P {
            fn actions(&self) -> &[rustzx_core::poke::PokeAction] {
                &self.0
            }
        }
        let addr = 0x5B00 + (steps & 0xFF);
        let before_t = tb.emu_t(&e);
        e.execute_poke(P([rustzx_core::poke::PokeAction::mem(addr, steps as u8)]));
        m.bus.mem.write(addr, steps as u8);
        rec.eval();
        if tb.emu_t(&e) != before_t {
            return Err(format!(
                "execute_poke({:#06x}) with the machine stopped at frame T {}: the frame clock moved by {} T-states — a poke takes no emulated time",
                addr, before_t % frame_len, tb.emu_t(&e) as i64 - before_t as i64
            ));
        }
        rec.class("host-poke-into-contended-ram-mid-frame");
        // the same for a snapshot taken at this moment (48K: the format parks PC on the stack for a
        // moment — with the stack in contended RAM that must not cost emulated time either)
        {
            // (SP is moved into contended RAM for the snapshot and put back afterwards)
            let sp_was = e.verif_cpu().regs.get_sp();
            e.verif_cpu().regs.set_sp(0x5BF0);
            let before_t = tb.emu_t(&e);
            let mut file = Vec::new();
            let r = e.save_snapshot(rustzx_core::host::SnapshotRecorder::Sna(crate::props::c13::VecRecorder(&mut file)));
            rec.eval();
            let after_t = tb.emu_t(&e);
            e.verif_cpu().regs.set_sp(sp_was);
            // ... and for a screen file loaded at this moment (its bytes go to the model as well; the
            // loader parks the CPU in a loop of its own at 0x8000, so registers and that loop are
            // put back as they were)
            if c.placement % 3 != 0 && machine == Machine::K48 {
                let regs_was = mach::get_regs(&mut e);
                let scr: Vec<u8> = (0..6912u32).map(|i| (i as u8) ^ steps as u8).collect();
                let saved: Vec<u8> = e.verif_ram_page(1)[0..8].to_vec();
                let t1 = tb.emu_t(&e);
                e.load_screen(rustzx_core::host::Screen::Scr(crate::host::MemAsset::new(scr.clone()))).map_err(|x| format!("load_screen: {:?}", x))?;
                let t2 = tb.emu_t(&e);
                e.verif_ram_page_mut(1)[0..8].copy_from_slice(&saved);
                mach::set_regs(&mut e, &regs_was);
                for (i, b) in scr.iter().enumerate() {
                    m.bus.mem.write(0x4000 + i as u16, *b);
                }
                rec.eval();
                if t2 != t1 {
                    return Err(format!("load_screen with the machine stopped at frame T {}: the frame clock moved by {} T-states — loading a screen file takes no emulated time", t1 % frame_len, t2 as i64 - t1 as i64));
                }
                rec.class("screen-file-loaded-mid-frame");
            }
            if r.is_ok() && after_t != before_t {
                return Err(format!(
                    "save_snapshot with the machine stopped at frame T {} and SP = 0x5bf0 (contended RAM): the frame clock moved by {} T-states — taking a snapshot takes no emulated time",
                    before_t % frame_len, after_t as i64 - before_t as i64
                ));
            }
        }
        // frames completed on the way to the breakpoint count from here on
        target = e.verif_total_frames() - frames0;
    }
    let mut tape_errors = 0u32;
    for (k, n) in c.calls.iter().enumerate() {
        target += *n as u64;
        // a tape error makes emulate_frames return early; the host carries on with what is left
        let mut guard = 0;
        loop {
            let done = e.verif_total_frames() - frames0;
            if done >= target {
                break;
            }
            e.set_speed(EmulationMode::FrameCount((target - done) as usize));
            match e.emulate_frames(LONG) {
                Ok(_) => {}
                Err(x) => {
                    tape_errors += 1;
                    if c.tape % 3 != 2 || tape_errors > 4 {
                        return Err(format!("emulate_frames: {:?}", x));
                    }
                    rec.class("emulate_frames-returned-a-tape-error-and-the-host-carried-on");
                }
            }
            guard += 1;
            if guard > 16 {
                return Err("harness: emulate_frames does not make progress".into());
            }
        }
        // model: run to the emulator's position. The emulator returns at some instruction boundary
        // after the n-th frame end (which one is emulate()'s business); the model steps up to the
        // same emulated time and, if the boundaries do not coincide, both sides catch up.
        let et = tb.emu_t(&e);
        let mut guard = 0u64;
        while m.bus.t < et {
            let f0 = m.bus.frames();
            let info = m.step_fine();
            groups += 1;
            if m.bus.frames() > f0 {
                let over = m.bus.frame_t();
                if over > 0 {
                    straddles += 1;
                }
                rec.class(&format!("overrun-{}", over.min(40)));
            }
            let _ = info;
            guard += 1;
            if guard > 80_000_000 {
                return Err("model did not reach the emulator's position".into());
            }
        }
        if m.bus.t != et {
            let _ = m.catch_up(&mut e, &tb);
        }
        if tb.emu_t(&e) < target * frame_len || tb.emu_t(&e) >= (target + 1) * frame_len {
            return Err(format!(
                "after call {} (FrameCount({})) the emulator stands at T {} since the start; {} frames of {} T end at {}",
                k, n, tb.emu_t(&e), target, frame_len, target * frame_len
            ));
        }
        rec.eval();
        let got_frames = e.verif_total_frames() - frames0;
        let got_clock = e.verif_frame_clocks() as u64;
        let ctx = format!("after call {} (FrameCount({})), {} frames in total", k, n, target);
        if got_frames != m.bus.frames() || got_clock != m.bus.frame_t() {
            return Err(format!(
                "{}: emulator is at frame {} T {}, time-conserving model at frame {} T {} (total T {} vs {})",
                ctx,
                got_frames,
                got_clock,
                m.bus.frames(),
                m.bus.frame_t(),
                got_frames * frame_len + got_clock,
                m.bus.t
            ));
        }
        let got = mach::get_regs(&mut e);
        let want = crate::e1::get_ref_regs(&m.cpu);
        if got != want {
            return Err(format!("{}: registers: emulator {:x?}, model {:x?} (interrupts taken by the model: {})", ctx, got, want, m.ints_taken));
        }
        if e.verif_cpu().halted != m.cpu.halted {
            return Err(format!("{}: halted: emulator {}, model {}", ctx, e.verif_cpu().halted, m.cpu.halted));
        }
    }
    // memory (handler invocation counter included)
    for b in 0..machine.ram_banks() {
        if e.verif_ram_page(b) != &m.bus.mem.ram[b as usize][..] {
            let pos = e.verif_ram_page(b).iter().zip(m.bus.mem.ram[b as usize].iter()).position(|(x, y)| x != y).unwrap();
            return Err(format!(
                "after the run RAM bank {} offset {:#06x}: emulator {:#04x}, model {:#04x} (handler counter is at {:#06x})",
                b, pos, e.verif_ram_page(b)[pos], m.bus.mem.ram[b as usize][pos], COUNTER
            ));
        }
    }
    rec.class_n("interrupts-taken", m.ints_taken);
    rec.class_n("emulate-groups", groups);
    if m.ints_taken as u64 > target {
        rec.class("handler-re-entered-within-one-pulse");
    }
    if m.ints_taken == 0 {
        rec.class("no-interrupt-taken");
    }
    rec.class(if machine == Machine::K48 { "48k" } else { "128k" });
    if target >= 2 && straddles >= 1 {
        rec.nontrivial(fnv(format!("{:?}", c).as_bytes()));
    }
    Ok(())
}

#[derive(Clone, Debug, Serialize, Deserialize)]
pub struct Edge {
    pub machine: Machine,
    pub im: u8,
    /// frame clock at the instruction boundary (set through the hook)
    pub t: u32,
    /// instruction executed at the boundary if no interrupt is taken
    pub op: u8,
    pub halted: bool,
}

/// Exhaustive over boundary T-states around the pulse: INT must be taken iff T mod frame < 32.
pub fn check_edge(c: &Edge, rec: &mut Rec) -> Result<(), String> {
    let machine = c.machine;
    let mut e = mk_emu(&EmuOpts::new(machine));
    let mut mem = MemModel::new(machine, mach::rom_images(machine));
    let ops: &[u8] = match c.op % 3 {
        0 => &[0x00],
        1 => &[0xDD, 0xE3], // EX (SP),IX — 23 T
        _ => &[0x76],
    };
    mach::poke_bytes(&mut e, &mut mem, 0x8000, ops);
    mach::poke_bytes(&mut e, &mut mem, 0xA8FF, &[0x00, 0x90]);
    let regs = RegFile { pc: 0x8000, sp: STACK, i: 0xA8, im: c.im % 3, iff1: true, iff2: true, ..Default::default() };
    mach::set_regs(&mut e, &regs);
    e.verif_cpu().halted = c.halted;
    if c.halted {
        mach::poke_bytes(&mut e, &mut mem, 0x8000, &[0x76]);
    }
    let frame_len = machine.frame_len() as u64;
    let t = c.t as u64 % frame_len;
    e.verif_set_frame_clocks(t as usize);
    let mut m = RefMachine::new(mem);
    set_ref(&mut m.cpu, &CpuState { regs, memptr: 0, q_is_f: false, halted: c.halted, no_int: false });
    m.bus.t = t;
    let tb = crate::e2::TimeBase::new(&e, machine);
    mach::single_step(&mut e)?;
    m.step_group();
    if tb.emu_t(&e) != m.bus.t {
        // different grouping of interrupt entry / prefixes inside emulate(): common boundary
        let _ = m.catch_up(&mut e, &tb);
    }
    rec.eval();
    let got_t = tb.emu_t(&e);
    let got = mach::get_regs(&mut e);
    let want = crate::e1::get_ref_regs(&m.cpu);
    let expect_int = t < 32;
    if (m.ints_taken == 1) != expect_int {
        return Err("oracle error: model INT window is not [0,32)".into());
    }
    if got != want || got_t != m.bus.t {
        return Err(format!(
            "boundary at frame T {} (INT must{} be accepted, IM {}): emulator ends at T {} with {:x?}; model ends at T {} with {:x?}",
            t, if expect_int { "" } else { " not" }, c.im % 3, got_t, got, m.bus.t, want
        ));
    }
    rec.class(if expect_int { "inside-pulse" } else { "outside-pulse" });
    if t == 31 || t == 32 || t == 0 || t == frame_len - 1 {
        rec.nontrivial(fnv(format!("{:?}", c).as_bytes()));
    }
    Ok(())
}

#[derive(Clone, Debug, Serialize, Deserialize)]
pub struct FastLoadTime {
    pub machine: Machine,
    pub len: u8,
    pub seed: u64,
    pub start_t: u32,
}

/// Fast loading is instantaneous: between the CALL of LD-BYTES and its return only the ROM
/// instructions that really execute take time (the entry code up to the trap at 0x056B and the
/// SA/LD-RET exit code); the block transfer itself adds no T-states to the frame clock.
pub fn check_fastload_time(c: &FastLoadTime, rec: &mut Rec) -> Result<(), String> {
    use crate::formats::tap;
    use crate::host::{DynAsset, MemAsset};
    use crate::props::c10::{self, RET_ADDR};
    use crate::tape::Request;
    let machine = c.machine;
    let frame_len = machine.frame_len() as u64;
    let len = c.len as usize % 60 + 1;
    let mut x = c.seed | 1;
    let payload: Vec<u8> = (0..len).map(|_| { x ^= x << 13; x ^= x >> 7; x ^= x << 17; x as u8 }).collect();
    let image = tap::write(&[tap::block(0xFF, &payload, true)]);
    let mut rig = c10::mk_rig(machine, c.seed, true);
    rig.e.load_tape(rustzx_core::host::Tape::Tap(DynAsset::new(MemAsset::new(image)))).map_err(|x| format!("load_tape: {:?}", x))?;
    let rq = Request { a: 0xFF, load: true, ix: 0x9000, de: len as u16 };
    c10::setup_call(&mut rig, &rq);
    // anywhere in the frame, away from the INT pulse and the frame end
    let t0 = 200 + c.start_t as u64 % (frame_len - 4000);
    rig.e.verif_set_frame_clocks(t0 as usize);
    // reference: the same call on the reference machine; at the trap address the loader's own exit is
    // taken (pop the address LD-BYTES pushed for SA/LD-RET) without any time passing
    let regs = mach::get_regs(&mut rig.e);
    let mut m = RefMachine::new(rig.m.clone());
    set_ref(&mut m.cpu, &CpuState { regs, memptr: 0, q_is_f: false, halted: false, no_int: false });
    m.bus.t = t0;
    let mut trapped = false;
    let mut guard = 0;
    while m.cpu.pc != RET_ADDR {
        if m.cpu.pc == 0x056B && !trapped {
            trapped = true;
            let sp = m.cpu.sp;
            m.cpu.pc = u16::from_le_bytes([m.bus.mem.read(sp), m.bus.mem.read(sp.wrapping_add(1))]);
            m.cpu.sp = sp.wrapping_add(2);
            continue;
        }
        m.step_group();
        guard += 1;
        if guard > 400 {
            return Err("harness: the reference did not reach the return address".into());
        }
    }
    if !trapped {
        return Err("harness: the reference never passed the trap address".into());
    }
    let frames0 = rig.e.verif_total_frames();
    if mach::run_to(&mut rig.e, &[RET_ADDR], 3)?.is_none() {
        return Err("LD-BYTES did not return within 3 frames with fast loading enabled".into());
    }
    rec.eval();
    let got = (rig.e.verif_total_frames() - frames0) * frame_len + rig.e.verif_frame_clocks() as u64;
    if got != m.bus.t {
        return Err(format!(
            "fast load of a {}-byte block called at frame T {}: the call returned at T {}; the ROM instructions that execute (entry up to the trap at 0x056B, exit through SA/LD-RET) end at T {} — the transfer itself takes no emulated time",
            len + 2, t0, got, m.bus.t
        ));
    }
    rec.class("fast-load-takes-no-extra-time");
    rec.nontrivial(fnv(format!("{:?}", c).as_bytes()));
    Ok(())
}

pub fn run(run: &mut Run) {
    if !crate::props::calibration::ensure(run) {
        return;
    }
    let t = run.tier;
    let mut edges = Vec::new();
    for machine in [Machine::K48, Machine::K128] {
        let fl = machine.frame_len() as u32;
        for im in 0..3u8 {
            for op in 0..3u8 {
                for halted in [false, true] {
                    for tt in (0..80).chain(fl - 40..fl) {
                        edges.push(Edge { machine, im, t: tt, op, halted });
                    }
                }
            }
        }
    }
    run.enumerate("int-window-edges", edges, true, check_edge);
    run.explore("programs", t.pick(2_400, 60_000), || case_strategy(12), check);
    run.explore("long-runs", t.pick(64, 2_000), || case_strategy(200), check);
    run.explore("programs-with-a-tape-playing", t.pick(600, 20_000), || tape_case_strategy(8), check);
    run.explore(
        "fast-load-takes-no-extra-time",
        t.pick(800, 30_000),
        || (prop_oneof![Just(Machine::K48), Just(Machine::K128)], any::<u8>(), any::<u64>(), any::<u32>()).prop_map(|(machine, len, seed, start_t)| FastLoadTime { machine, len, seed, start_t }),
        check_fastload_time,
    );
}

pub fn replay(run: &mut Run, phase: &str, case: &serde_json::Value) -> Result<(), String> {
    if phase == "fast-load-takes-no-extra-time" {
        return run.replay_one::<FastLoadTime, _>(phase, case, check_fastload_time);
    }
    if phase == "int-window-edges" {
        return run.replay_one::<Edge, _>(phase, case, check_edge);
    }
    run.replay_one::<Case, _>(phase, case, check)
}

pub const LEVEL: &str = "exploration";
pub const RULE: &str = "case = machine x program (loop of 1..40 generated blocks: ALU, loads, stack, HALT, EI/DI, DJNZ delays, LDIR, contended screen traffic, ULA port I/O, paging-port writes incl. the lock bit and writes after the lock) placed in uncontended, contended or paged RAM x interrupt handler (short filler+[EI]+RET that may re-enter within one pulse, or a self-counting handler of 0..1200 NOPs) x IM 0/1/2 x start T-state x 1..6 emulate_frames calls of 1..200 frames each; after EVERY call the emulator's (frame counter, frame clock, registers, halted) must equal the reference machine, whose clock is a single monotone T-state counter (frame = T div length, INT asserted iff T mod length < 32); all RAM compared at the end; in a fifth of the cases the host first stops the machine with a breakpoint somewhere inside a frame and pokes a byte into contended RAM (which must take no emulated time); in a third of the cases a host I/O extender claims the ports xxFE the programs use. programs-with-a-tape-playing: the same with a tape playing in real time (programs without port reads), in half of the cases a tape whose first block is empty, so that emulate_frames returns a tape error once and the host carries on with the remaining frames — time must be conserved all the same. fast-load-takes-no-extra-time: a ROM LD-BYTES call served by the fast loader must return at the T-state at which the reference machine, executing the ROM's entry code up to the trap address and its SA/LD-RET exit code, arrives. evaluations = emulate_frames calls compared. non-trivial = run of >= 2 frames in which >= 1 instruction straddled a frame end with non-zero overrun; distinct = hash of the case";
pub const ASSUMPTIONS: &[&str] = &[
    "reference Z80 + contention model trusted (calibration, C03, C04)",
    "programs contain no prefix chains and no reads from unclaimed ports, so one emulate() call = optional interrupt entry + one instruction",
    "ROM set is host-supplied (NOPs, JP handler at 0x38, RETN at 0x66)",
];
