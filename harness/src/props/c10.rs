//! C10 — fast tape loading leaves the machine exactly as the ROM loader would.

use crate::driver::{fnv, Rec, Run};
use crate::formats::tap;
use crate::host::{mk_emu, BpMode, DynAsset, Emu, EmuOpts, Machine, MemAsset, LONG};
use crate::mach::{self, MemModel, Pg, RegFile};
use crate::tape::{ld_bytes, Outcome, Request};
use proptest::prelude::*;
use rustzx_core::{host::Tape, EmulationStopReason};
use serde::{Deserialize, Serialize};

#[derive(Clone, Debug, Serialize, Deserialize)]
pub struct BlockSpec {
    pub flag: u8,
    pub len: u16,
    pub seed: u64,
    pub good_checksum: bool,
}

#[derive(Clone, Debug, Serialize, Deserialize)]
pub struct Rq {
    /// 0: A = the block's flag, 1: A = generated
    pub a_mode: u8,
    pub a: u8,
    pub load: bool,
    pub ix: u16,
    /// mod 12: 0-4 exact payload length, 5-6 length +-2, 7: 0, 8: 1, 9: >= 0xFF00, else uniform
    pub de_mode: u8,
    pub de: u16,
    /// VERIFY: memory pre-filled with the block's payload, with a mismatch at this index if Some
    pub verify_mismatch_at: Option<u16>,
}

#[derive(Clone, Debug, Serialize, Deserialize)]
pub struct Case {
    pub machine: Machine,
    pub blocks: Vec<BlockSpec>,
    /// cut this many bytes off the end of the TAP image (truncated tail)
    pub truncate: u16,
    pub requests: Vec<Rq>,
    pub ram_seed: u64,
    /// what happened to the machine before the tape requests: 0 nothing; 1 an SZX snapshot (of the
    /// very RAM contents the rig holds) was loaded; 2 (128K) the program locked the paging latch
    /// with the 48K BASIC ROM selected and then issued another, ignored, paging write
    #[serde(default)]
    pub prelude: u8,
    /// the host's debugger has a breakpoint on the ROM address where the fast-load trap fires
    /// (LD-BREAK, 0x056B) and resumes whenever it is hit
    #[serde(default)]
    pub break_at_trap: bool,
    /// the host rewinds the tape right before the request with this index (taken modulo the number
    /// of requests; 0 = before the first one): whatever the earlier requests left unread of their
    /// blocks, the request meets the first block of the tape again
    #[serde(default)]
    pub rewind_before: Option<u8>,
}

pub const STUB: u16 = 0xBE00;
pub const RET_ADDR: u16 = 0xBE03;
pub const SP0: u16 = 0xBF80;

pub fn block_bytes(b: &BlockSpec) -> Vec<u8> {
    let mut x = b.seed | 1;
    let payload: Vec<u8> = (0..b.len)
        .map(|_| {
            x ^= x << 13;
            x ^= x >> 7;
            x ^= x << 17;
            x as u8
        })
        .collect();
    tap::block(b.flag, &payload, b.good_checksum)
}

fn fill(seed: u64, bank: usize) -> Vec<u8> {
    let mut x = (seed ^ ((bank as u64 + 7).wrapping_mul(0x9E3779B97F4A7C15))) | 1;
    let mut v = vec![0u8; mach::PAGE];
    for chunk in v.chunks_mut(8) {
        x ^= x << 13;
        x ^= x >> 7;
        x ^= x << 17;
        chunk.copy_from_slice(&x.to_le_bytes());
    }
    v
}

pub fn excluded(addr: u16) -> bool {
    // system variables (the ROM epilogue and a possible interrupt use them; the 128K's interrupt
    // routine keeps its keypad state in 0x5B00-0x5BFF) and the stack/stub page
    (0x5B00..0x5CC0).contains(&addr) || (0xBD00..0xC000).contains(&addr)
}

/// Resolve a request against the block it will meet.
pub fn resolve(rq: &Rq, block: Option<&Vec<u8>>) -> Request {
    let blen = block.map(|b| b.len()).unwrap_or(19) as i32;
    let flag = block.and_then(|b| b.first().copied()).unwrap_or(0);
    let a = if rq.a_mode % 4 != 0 { flag } else { rq.a };
    let de = match rq.de_mode % 12 {
        0..=4 => (blen - 2).clamp(0, 0xFFFF) as u16,
        5 | 6 => (blen - 2 + (rq.de % 5) as i32 - 2).clamp(0, 0xFFFF) as u16,
        7 => 0,
        8 => 1,
        9 => 0xFF00 | (rq.de & 0xFF),
        _ => rq.de,
    };
    // keep the stored span away from the stack/stub page
    let span = (de as usize).min(blen as usize) + 2;
    let mut ix = rq.ix;
    let end = ix as usize + span;
    if (ix as usize) < 0xC000 && end > 0xBD00 {
        ix = 0xC000;
    }
    if end > 0x10000 && (end - 0x10000) > 0 && ix >= 0xC000 {
        // wraps into ROM: fine
    }
    Request { a, load: rq.load, ix, de }
}

pub struct Rig {
    pub e: Emu,
    pub m: MemModel,
}

pub fn mk_rig(machine: Machine, ram_seed: u64, fastload: bool) -> Rig {
    let mut o = EmuOpts::new(machine);
    o.fastload = fastload;
    let mut e = mk_emu(&o);
    let mut m = MemModel::new(machine, mach::rom_images(machine));
    if machine == Machine::K128 {
        e.verif_set_paging(0x10);
        m.latch = 0x10;
    }
    for b in 0..machine.ram_banks() {
        let p = fill(ram_seed, b as usize);
        e.verif_ram_page_mut(b).copy_from_slice(&p);
        m.ram[b as usize] = p;
    }
    e.verif_refresh_memory_dependent_devices();
    Rig { e, m }
}

pub fn setup_call(rig: &mut Rig, rq: &Request) {
    mach::poke_bytes(&mut rig.e, &mut rig.m, STUB, &[0xCD, 0x56, 0x05, 0x18, 0xFE]);
    let regs = RegFile {
        pc: STUB,
        sp: SP0,
        af: ((rq.a as u16) << 8) | (rq.load as u16),
        ix: rq.ix,
        de: rq.de,
        iy: 0x5C3A,
        im: 1,
        ..Default::default()
    };
    mach::set_regs(&mut rig.e, &regs);
    let cpu = rig.e.verif_cpu();
    cpu.halted = false;
    cpu.skip_interrupt = false;
}

/// Prefill for VERIFY requests.
fn prefill(rig: &mut Rig, rq: &Rq, r: &Request, block: Option<&Vec<u8>>) {
    if rq.load {
        return;
    }
    if let Some(b) = block {
        if b.len() >= 2 {
            let payload = &b[1..b.len() - 1];
            for (i, v) in payload.iter().enumerate().take(r.de as usize) {
                let a = r.ix.wrapping_add(i as u16);
                let v = if rq.verify_mismatch_at.map(|k| k as usize % payload.len().max(1)) == Some(i) { v ^ 0x01 } else { *v };
                mach::poke(&mut rig.e, &mut rig.m, a, v);
            }
        }
    }
}

pub fn compare_memory(rig: &Rig, what: &str) -> Result<(), String> {
    // the ROM is not writable by a load aimed at (or wrapping into) 0x0000-0x3FFF
    for a in 0x0000..0x4000u16 {
        let got = rig.e.peek(a);
        let want = rig.m.read(a);
        if got != want {
            return Err(format!("{}: ROM address {:#06x} now reads {:#04x}, the ROM image has {:#04x} — a load must not alter the ROM", what, a, got, want));
        }
    }
    for a in 0x4000..=0xFFFFu16 {
        if excluded(a) {
            continue;
        }
        let got = rig.e.peek(a);
        let want = rig.m.read(a);
        if got != want {
            return Err(format!("{}: memory at {:#06x} is {:#04x}, ROM loader would leave {:#04x}", what, a, got, want));
        }
    }
    Ok(())
}

pub fn check(c: &Case, rec: &mut Rec) -> Result<(), String> {
    let blocks: Vec<Vec<u8>> = c.blocks.iter().map(block_bytes).collect();
    let mut image = tap::write(&blocks);
    let cut = (c.truncate as usize).min(image.len());
    image.truncate(image.len() - cut);
    // which blocks are complete in the file?
    let mut complete = Vec::new();
    let mut off = 0usize;
    for b in &blocks {
        off += 2 + b.len();
        complete.push(off <= image.len());
    }
    // preludes 4: fast loading is off when the emulator is created and switched on at run time
    let mut rig = mk_rig(c.machine, c.ram_seed, c.prelude % 6 != 4);
    if c.prelude % 6 == 4 {
        rig.e.set_fast_load(true);
        rec.class("prelude:fast-loading-switched-on-at-run-time");
    }
    match c.prelude % 6 {
        1 => {
            use crate::formats::szx;
            let is128 = c.machine == Machine::K128;
            let st = szx::SzxState {
                machine_id: if is128 { 2 } else { 1 },
                regs: RegFile { pc: 0x8000, sp: SP0, im: 1, ..Default::default() },
                memptr: 0,
                cycles: 1000,
                halted: false,
                ei_last: false,
                f_set: false,
                border: 3,
                latch: if is128 { 0x10 } else { 0 },
                fe: 3,
                ay: None,
                kempston_joystick: None,
                mouse: None,
            };
            let file = szx::write(&st, &rig.m.ram, &szx::Layout::default());
            rig.e.load_snapshot(rustzx_core::host::Snapshot::Szx(MemAsset::new(file))).map_err(|x| format!("prelude: load_snapshot(SZX): {:?}", x))?;
            rec.class("prelude:szx-snapshot-loaded-before-the-requests");
        }
        2 if c.machine == Machine::K128 => {
            mach::poke_bytes(&mut rig.e, &mut rig.m, 0xBE20, &[0x01, 0xFD, 0x7F, 0x3E, 0x30, 0xED, 0x79, 0x3E, 0x00, 0xED, 0x79]);
            mach::set_regs(&mut rig.e, &RegFile { pc: 0xBE20, sp: SP0, ..Default::default() });
            for len in [3u16, 2, 2, 2, 2] {
                mach::step_over(&mut rig.e, len)?;
            }
            rig.m.latch = 0x30;
            rig.m.locked = true;
            rec.class("prelude:latch-locked-then-ignored-paging-write");
        }
        _ => {}
    }
    rig.e.load_tape(Tape::Tap(DynAsset::new(MemAsset::new(image.clone())))).map_err(|x| format!("load_tape: {:?}", x))?;
    if c.prelude % 6 == 3 {
        // the user pressed PLAY and STOP (no emulated time in between): the deck is stopped at the start
        rig.e.play_tape();
        rig.e.stop_tape();
        rec.class("prelude:play-then-stop-before-the-requests");
    }
    if c.break_at_trap {
        rec.class("debugger-breakpoint-on-the-trap-address");
    }
    if c.prelude % 6 == 5 {
        // fast loading was on at construction and is switched off at run time: the deck is stopped,
        // so a request finds a silent tape and nothing may be taken from the tape image
        rig.e.set_fast_load(false);
        if let Some(rq) = c.requests.first() {
            let r = resolve(rq, blocks.first());
            setup_call(&mut rig, &r);
            rec.eval();
            if mach::run_to(&mut rig.e, &[RET_ADDR], 12)?.is_some() {
                let regs = mach::get_regs(&mut rig.e);
                if regs.af & 1 == 1 || regs.ix != r.ix {
                    return Err(format!(
                        "fast loading switched off at run time, deck stopped: LD-BYTES (A={:#04x} IX={:#06x} DE={:#06x}) returned with carry={} IX={:#06x} — a block was taken from a tape that is not playing",
                        r.a, r.ix, r.de, regs.af & 1, regs.ix
                    ));
                }
            }
            compare_memory(&rig, "fast loading switched off at run time, deck stopped")?;
            rec.class("prelude:fast-loading-switched-off-at-run-time");
            rec.nontrivial(fnv(format!("{:?}", c).as_bytes()));
        }
        return Ok(());
    }
    let rewind_at = c.rewind_before.map(|j| j as usize % c.requests.len());
    let mut base = 0usize;
    for (rq_index, rq) in c.requests.iter().enumerate() {
        if rewind_at == Some(rq_index) {
            rig.e.rewind_tape().map_err(|x| format!("rewind_tape: {:?}", x))?;
            base = rq_index;
            rec.class(if rq_index == 0 { "host-rewind:before-the-first-request" } else { "host-rewind:between-requests" });
        }
        // index of the block this request meets
        let k = rq_index - base;
        let block = blocks.get(k);
        let r = resolve(rq, block);
        prefill(&mut rig, rq, &r, block);
        setup_call(&mut rig, &r);
        rig.e.verif_set_frame_clocks(1000);
        let ctx = format!(
            "request {}{} (A={:#04x} {} IX={:#06x} DE={:#06x}) against block {}",
            rq_index,
            if rewind_at.map_or(false, |j| j <= rq_index) { format!(" (tape rewound by the host before request {})", base) } else { String::new() },
            r.a,
            if r.load { "LOAD" } else { "VERIFY" },
            r.ix,
            r.de,
            match block {
                Some(b) => format!("{} of {} bytes (flag {:#04x})", k, b.len(), b.first().copied().unwrap_or(0)),
                None => "<none: past the end of the tape>".to_string(),
            }
        );
        rec.eval();
        if block.is_none() || (k < complete.len() && !complete[k] && off_header_missing(&image, &blocks, k)) {
            // no block left: must never complete successfully; CPU state undisturbed
            let mut returned = None;
            {
                let d = rig.e.debug_interface().unwrap();
                d.mode = BpMode::At(vec![RET_ADDR]);
                d.last_hit = None;
            }
            // the full 150 frames for the first past-the-end request of every fourth case, 12 otherwise
            let wait = if k == blocks.len() && c.ram_seed % 4 == 0 { 150 } else { 12 };
            for _ in 0..wait {
                match rig.e.emulate_frames(LONG) {
                    Ok(info) => {
                        if info.stop_reason == EmulationStopReason::Breakpoint {
                            returned = Some(mach::get_regs(&mut rig.e));
                            break;
                        }
                    }
                    Err(_) => {
                        rec.class("end-of-tape:emulation-error");
                        return Ok(());
                    }
                }
            }
            if let Some(regs) = returned {
                if regs.af & 1 == 1 {
                    return Err(format!(
                        "{}: the request completed SUCCESSFULLY (carry set) although no block is left; IX={:#06x} DE={:#06x}",
                        ctx, regs.ix, regs.de
                    ));
                }
                rec.class("end-of-tape:returned-failure");
            } else {
                let regs = mach::get_regs(&mut rig.e);
                if regs.ix != r.ix || regs.de != r.de {
                    return Err(format!("{}: IX/DE disturbed while waiting on a silent tape: IX={:#06x} DE={:#06x}", ctx, regs.ix, regs.de));
                }
                if (regs.af_ >> 8) as u8 != r.a || (regs.af_ & 1 == 1) != r.load {
                    return Err(format!("{}: AF' (the loader's saved A and LOAD/VERIFY flag) disturbed while waiting on a silent tape: AF'={:#06x}", ctx, regs.af_));
                }
                rec.class("end-of-tape:waits");
            }
            compare_memory(&rig, &ctx)?;
            rec.nontrivial(fnv(format!("{:?}{}", c, rq_index).as_bytes()));
            // the CPU is now inside the ROM loop; later requests restart from the stub
            continue;
        }
        let block = block.unwrap();
        let truncated = !complete[k];
        // model
        let snapshot_mem = rig.m.clone();
        let mut rd = |a: u16| snapshot_mem.read(a);
        let want = ld_bytes(block, &r, &mut rd);
        // emulator
        let run = |rig: &mut Rig| -> Result<Option<u16>, String> {
            if !c.break_at_trap {
                return mach::run_to(&mut rig.e, &[RET_ADDR], 10);
            }
            // stop on the trap address as well and resume each time
            for _ in 0..64 {
                match mach::run_to(&mut rig.e, &[RET_ADDR, 0x056B], 10)? {
                    Some(0x056B) => continue,
                    other => return Ok(other),
                }
            }
            Ok(None)
        };
        let hit = match run(&mut rig) {
            Ok(h) => h,
            Err(e) => {
                if truncated {
                    rec.class("truncated-block:error");
                    return Ok(());
                }
                return Err(format!("{}: {}", ctx, e));
            }
        };
        if hit.is_none() {
            if truncated {
                rec.class("truncated-block:no-return");
                return Ok(());
            }
            return Err(format!("{}: LD-BYTES did not return within 10 frames with fast loading enabled", ctx));
        }
        let regs = mach::get_regs(&mut rig.e);
        let carry = regs.af & 1 == 1;
        if truncated {
            // weaker rule: success implies the stored bytes are the file's bytes
            if carry {
                for (i, (a, _)) in want.stores.iter().enumerate() {
                    if let Pg::Ram(_) = rig.m.page_at(*a) {
                        if !excluded(*a) && rig.e.peek(*a) != block[1 + i] {
                            return Err(format!("{}: truncated block reported success but memory at {:#06x} is not the file's byte", ctx, a));
                        }
                    }
                }
            }
            rec.class("truncated-block:returned");
            return Ok(());
        }
        for (a, v) in &want.stores {
            rig.m.write(*a, *v);
        }
        if carry != want.carry || regs.ix != want.ix || regs.de != want.de {
            return Err(format!(
                "{}: fast load returned carry={} IX={:#06x} DE={:#06x}; the ROM's LD-BYTES would return carry={} IX={:#06x} DE={:#06x} ({:?})",
                ctx, carry, regs.ix, regs.de, want.carry, want.ix, want.de, want.outcome
            ));
        }
        compare_memory(&rig, &ctx)?;
        rec.class(&format!("outcome:{:?}", want.outcome));
        if matches!(block.len(), 127 | 128 | 129 | 130 | 255 | 256 | 257 | 258) {
            rec.class("buffer-boundary-length");
        }
        if r.de >= 0xFF00 {
            rec.class("D=0xFF:flag-byte-treated-as-data");
        }
        let plain = want.outcome == Outcome::Ok && r.load && r.de as usize + 2 == block.len() && r.a == block[0];
        if !plain || block.len() > 128 {
            rec.nontrivial(fnv(format!("{:?}{}", c, rq_index).as_bytes()));
        }
    }
    rec.class(if c.machine == Machine::K48 { "48k" } else { "128k" });
    Ok(())
}

/// true if not even the length header + first byte of block k is in the (truncated) image
fn off_header_missing(image: &[u8], blocks: &[Vec<u8>], k: usize) -> bool {
    let start: usize = blocks.iter().take(k).map(|b| 2 + b.len()).sum();
    image.len() < start + 2
}

pub fn block_strategy() -> impl Strategy<Value = BlockSpec> {
    (
        prop_oneof![Just(0x00u8), Just(0xFF), any::<u8>()],
        prop_oneof![
            4 => prop_oneof![Just(0u16), Just(1), Just(2), Just(17), Just(125), Just(126), Just(127), Just(128), Just(253), Just(254), Just(255), Just(256)],
            4 => 0u16..600,
            1 => 600u16..2000,
        ],
        any::<u64>(),
        prop_oneof![4 => Just(true), 1 => Just(false)],
    )
        .prop_map(|(flag, len, seed, good_checksum)| BlockSpec { flag, len, seed, good_checksum })
}

pub fn rq_strategy() -> impl Strategy<Value = Rq> {
    (
        0u8..4,
        any::<u8>(),
        prop_oneof![3 => Just(true), 1 => Just(false)],
        prop_oneof![4 => 0x6000u16..0xB000, 1 => any::<u16>(), 1 => 0xFF00u16..=0xFFFF, 1 => 0x3F00u16..0x4100, 1 => 0xC000u16..0xFFFF],
        0u8..12,
        any::<u16>(),
        prop_oneof![2 => Just(None), 1 => any::<u16>().prop_map(Some)],
    )
        .prop_map(|(a_mode, a, load, ix, de_mode, de, verify_mismatch_at)| Rq { a_mode, a, load, ix, de_mode, de, verify_mismatch_at })
}

pub fn case_strategy() -> impl Strategy<Value = Case> {
    (
        prop_oneof![Just(Machine::K48), Just(Machine::K128)],
        proptest::collection::vec(block_strategy(), 0..=6),
        prop_oneof![5 => Just(0u16), 1 => 1u16..300],
        proptest::collection::vec(rq_strategy(), 1..=8),
        any::<u64>(),
        prop_oneof![3 => Just(0u8), 1 => Just(1), 1 => Just(2), 1 => Just(3), 1 => Just(4), 1 => Just(5)],
    )
        .prop_map(|(machine, blocks, truncate, requests, ram_seed, prelude)| Case {
            machine,
            blocks,
            truncate,
            requests,
            ram_seed,
            prelude,
            break_at_trap: ram_seed % 5 == 2,
            rewind_before: if (ram_seed >> 16) % 3 == 0 { Some((ram_seed >> 24) as u8) } else { None },
        })
}

#[derive(Clone, Debug, Serialize, Deserialize)]
pub struct PlayAfterEnd {
    pub machine: Machine,
    pub block: BlockSpec,
    pub ram_seed: u64,
    /// frames the request past the end is left waiting before the host presses play
    pub wait_frames: u8,
}

/// Fast loading and the deck together: the tape's only block is fast-loaded, a second request finds
/// no block and keeps waiting (silent tape); the host then presses PLAY — the deck is back at the
/// start (C12) and the waiting request must receive block 1 through the EAR input, with the result
/// LD-BYTES gives for that block.
pub fn check_play_after_end(c: &PlayAfterEnd, rec: &mut Rec) -> Result<(), String> {
    let block = block_bytes(&c.block);
    let image = tap::write(&[block.clone()]);
    let mut rig = mk_rig(c.machine, c.ram_seed, true);
    rig.e.load_tape(Tape::Tap(DynAsset::new(MemAsset::new(image)))).map_err(|x| format!("load_tape: {:?}", x))?;
    let payload_len = block.len().saturating_sub(2) as u16;
    let rq = Request { a: block[0], load: true, ix: 0x6000, de: payload_len };
    // request 1: served at once by the fast loader
    setup_call(&mut rig, &rq);
    let snapshot_mem = rig.m.clone();
    let mut rd = |a: u16| snapshot_mem.read(a);
    let want = ld_bytes(&block, &rq, &mut rd);
    if mach::run_to(&mut rig.e, &[RET_ADDR], 10)?.is_none() {
        return Err("request 0: LD-BYTES did not return within 10 frames with fast loading enabled".into());
    }
    for (a, v) in &want.stores {
        rig.m.write(*a, *v);
    }
    compare_memory(&rig, "request 0 (fast load of the only block)")?;
    // request 2: nothing left
    let rq2 = Request { a: block[0], load: true, ix: 0x7000, de: payload_len };
    setup_call(&mut rig, &rq2);
    let snapshot_mem = rig.m.clone();
    let mut rd = |a: u16| snapshot_mem.read(a);
    let want2 = ld_bytes(&block, &rq2, &mut rd);
    if mach::run_to(&mut rig.e, &[RET_ADDR], c.wait_frames as usize % 8 + 2)?.is_some() {
        let f = mach::get_regs(&mut rig.e).af & 1;
        if f == 1 {
            return Err("request 1 past the end of the tape completed SUCCESSFULLY".into());
        }
        // a failed return (BREAK-like) is not what a silent tape does either, but that is C10's first phase
        return Ok(());
    }
    // PLAY: the deck is at the start again, block 1 arrives in real time (pilot ~100 frames)
    rig.e.play_tape();
    rec.eval();
    if mach::run_to(&mut rig.e, &[RET_ADDR], 400)?.is_none() {
        return Err(format!(
            "one-block tape ({} bytes, flag {:#04x}): block fast-loaded, second request left waiting at the end of the tape, host pressed PLAY: the request did not complete within 400 frames — the deck did not replay the tape from its first block",
            block.len(), block[0]
        ));
    }
    let regs = mach::get_regs(&mut rig.e);
    let carry = regs.af & 1 == 1;
    for (a, v) in &want2.stores {
        rig.m.write(*a, *v);
    }
    if carry != want2.carry || regs.ix != want2.ix || regs.de != want2.de {
        return Err(format!(
            "after PLAY at the end of the tape the waiting request returned carry={} IX={:#06x} DE={:#06x}; block 1 gives carry={} IX={:#06x} DE={:#06x}",
            carry, regs.ix, regs.de, want2.carry, want2.ix, want2.de
        ));
    }
    compare_memory(&rig, "request 1 (served in real time after PLAY at the end of the tape)")?;
    rec.class("play-pressed-at-the-end:block-1-delivered");
    rec.nontrivial(fnv(format!("{:?}", c).as_bytes()));
    Ok(())
}

#[derive(Clone, Debug, Serialize, Deserialize)]
pub struct StackLoad {
    pub machine: Machine,
    pub len: u8,
    /// offset inside the block's payload that lands on the return address of the LD-BYTES call
    pub k: u8,
    pub seed: u64,
    pub ram_seed: u64,
}

/// A block loaded over the stack (the classic autostart): LD-BYTES returns through whatever the
/// load put where its return address was — as the ROM's own RET does.
pub fn check_stack_load(c: &StackLoad, rec: &mut Rec) -> Result<(), String> {
    const TARGET: u16 = 0xBE40;
    let len = (c.len as usize % 100) + 8;
    // LD-BYTES has pushed the address of SA/LD-RET (0x053F) below the caller's return address and
    // leaves through it with a RET; its LD-EDGE calls work below that. A block that starts exactly at
    // that word replaces it, and the RET at the end goes to the loaded address (anything lower would
    // derail the real ROM while it is still loading).
    let k = 0usize;
    let _ = c.k;
    let mut x = c.seed | 1;
    let mut payload: Vec<u8> = (0..len)
        .map(|_| {
            x ^= x << 13;
            x ^= x >> 7;
            x ^= x << 17;
            x as u8
        })
        .collect();
    payload[k] = TARGET as u8;
    payload[k + 1] = (TARGET >> 8) as u8;
    let block = tap::block(0xFF, &payload, true);
    let image = tap::write(&[block.clone()]);
    let mut rig = mk_rig(c.machine, c.ram_seed, true);
    rig.e.load_tape(Tape::Tap(DynAsset::new(MemAsset::new(image)))).map_err(|x| format!("load_tape: {:?}", x))?;
    mach::poke_bytes(&mut rig.e, &mut rig.m, TARGET, &[0x18, 0xFE]);
    let ix = (SP0 - 4).wrapping_sub(k as u16);
    let rq = Request { a: 0xFF, load: true, ix, de: len as u16 };
    setup_call(&mut rig, &rq);
    let snapshot_mem = rig.m.clone();
    let mut rd = |a: u16| snapshot_mem.read(a);
    let want = ld_bytes(&block, &rq, &mut rd);
    rec.eval();
    let hit = mach::run_to(&mut rig.e, &[TARGET, RET_ADDR], 10)?;
    let regs = mach::get_regs(&mut rig.e);
    match hit {
        Some(TARGET) => {}
        other => {
            return Err(format!(
                "block of {} bytes fast-loaded to {:#06x}, over the stack: its bytes {} and {} replace the address LD-BYTES leaves through (SA/LD-RET, pushed at entry) with {:#06x}; execution continued at {:?} (SP = {:#06x}) instead",
                len, ix, k, k + 1, TARGET, other.map(|a| format!("{:#06x}", a)), regs.sp
            ))
        }
    }
    for (a, v) in &want.stores {
        rig.m.write(*a, *v);
    }
    if regs.sp != SP0 - 2 || (regs.af & 1 == 1) != want.carry || regs.ix != want.ix || regs.de != want.de {
        return Err(format!(
            "block loaded over the stack: returned with SP={:#06x} carry={} IX={:#06x} DE={:#06x}; LD-BYTES gives SP={:#06x} carry={} IX={:#06x} DE={:#06x}",
            regs.sp, regs.af & 1, regs.ix, regs.de, SP0 - 2, want.carry, want.ix, want.de
        ));
    }
    compare_memory(&rig, "block loaded over the stack")?;
    rec.class("block-loaded-over-the-stack");
    rec.nontrivial(fnv(format!("{:?}", c).as_bytes()));
    Ok(())
}

/// Targeted probe for a listed finding: one LOAD request on an empty tape.
pub fn probe_end_of_tape_success() -> Result<bool, String> {
    let c = Case {
        machine: Machine::K48,
        blocks: vec![],
        truncate: 0,
        requests: vec![Rq { a_mode: 0, a: 0xFF, load: true, ix: 0x8000, de_mode: 5, de: 100, verify_mismatch_at: None }],
        ram_seed: 1,
        prelude: 0,
        break_at_trap: false,
        rewind_before: None,
    };
    let mut rec = Rec::default();
    match check(&c, &mut rec) {
        Ok(()) => Ok(false),
        Err(e) if e.contains("completed SUCCESSFULLY") => Ok(true),
        Err(e) => Err(e),
    }
}

pub fn run(run: &mut Run) {
    let t = run.tier;
    run.explore("request-sequences", t.pick(6_000, 200_000), case_strategy, check);
    run.explore(
        "block-loaded-over-the-stack",
        t.pick(400, 20_000),
        || (prop_oneof![Just(Machine::K48), Just(Machine::K128)], any::<u8>(), any::<u8>(), any::<u64>(), any::<u64>()).prop_map(|(machine, len, k, seed, ram_seed)| StackLoad { machine, len, k, seed, ram_seed }),
        check_stack_load,
    );
    run.explore(
        "play-pressed-after-the-end",
        t.pick(96, 3_000),
        || {
            (prop_oneof![Just(Machine::K48), Just(Machine::K128)], (prop_oneof![Just(0xFFu8), Just(0x00), any::<u8>()], 1u16..40, any::<u64>()), any::<u64>(), any::<u8>())
                .prop_map(|(machine, (flag, len, seed), ram_seed, wait_frames)| PlayAfterEnd { machine, block: BlockSpec { flag, len, seed, good_checksum: true }, ram_seed, wait_frames })
        },
        check_play_after_end,
    );
}

pub fn replay(run: &mut Run, phase: &str, case: &serde_json::Value) -> Result<(), String> {
    if phase == "block-loaded-over-the-stack" {
        return run.replay_one::<StackLoad, _>(phase, case, check_stack_load);
    }
    if phase == "play-pressed-after-the-end" {
        return run.replay_one::<PlayAfterEnd, _>(phase, case, check_play_after_end);
    }
    run.replay_one::<Case, _>(phase, case, check)
}

pub const LEVEL: &str = "exploration";
pub const RULE: &str = "case = machine (128K with the 48K BASIC ROM paged) x TAP image of 0..6 blocks (flag 0x00/0xFF/any, payload lengths biased to 0,1,2,17 and the 127/128/129 and 255/256/257/258 buffer boundaries, up to 2000, right or wrong checksum, optionally a truncated tail) x sequence of 1..8 calls of the ROM routine at 0x0556 from a RAM stub (A = block flag or generated, LOAD or VERIFY, IX anywhere incl. ROM and the 0xFFFF wrap, DE around the block length, 0, 1, >= 0xFF00, uniform; VERIFY memory pre-filled to match or mismatch at a chosen index), continuing past the end of the tape; preludes: nothing / an SZX snapshot loaded first / latch locked then an ignored paging write / PLAY and STOP pressed before the requests / fast loading off at construction and switched on at run time / on at construction and switched off at run time (then nothing may be loaded from the stopped deck); in a fifth of the cases the host's debugger has a breakpoint on the trap address 0x056B and resumes on every hit; in a third of the cases the host rewinds the tape right before one of the requests (whatever the earlier ones left unread of their blocks), and that request meets block 0 again. Oracle: LD-BYTES semantic model written from the ROM listing; compared at the return address: carry, IX, DE and all RAM outside system variables and the stack page. Past the end: within 150 frames the routine must not return with carry set and IX, DE, AF' must be intact. block-loaded-over-the-stack: a block whose first bytes replace the address LD-BYTES has pushed for its own exit must leave through the loaded address with SP, carry, IX, DE and memory as the ROM leaves them. play-pressed-after-the-end: a one-block tape is fast-loaded, a second request is left waiting at the end, the host presses PLAY: the waiting request must receive block 1 in real time with the result LD-BYTES gives for it. non-trivial = request that is not 'matching flag, LOAD, DE = length' or a block longer than 128 bytes; distinct = hash of (case, request index)";
pub const ASSUMPTIONS: &[&str] = &[
    "LD-BYTES model from the ROM disassembly (flag compare skipped when D = 0xFF, store/compare order, parity over all bytes, DE = 0 shortcut, short block = time-out failure, long block = parity failure); cross-checked against the real ROM code running in real time by C11's system-level phase",
    "A, H, L, the zero flag are not compared; system variables 0x5C00-0x5CBF and the stack/stub page 0xBD00-0xBFFF are excluded from the memory comparison",
    "for a truncated final block only 'success implies the stored bytes are the file's bytes' is applied and an Err from emulate_frames is accepted",
];
