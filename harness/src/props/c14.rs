//! C14 — loading a well-formed SNA/SZX/SCR file yields exactly the described state.

use crate::driver::{fnv, Rec, Run};
use crate::e1::{set_ref, CpuState};
use crate::e2::RefMachine;
use crate::formats::{sna, szx};
use crate::host::{mk_emu, Emu, EmuOpts, Machine, MemAsset};
use crate::mach::{self, MemModel, RegFile};
use crate::props::c01::regs_strategy;
use crate::props::c08;
use crate::props::c13::{read_state, Receiver};
use proptest::prelude::*;
use rustzx_core::host::{Screen, Snapshot};
use rustzx_core::zx::mouse::kempston::KempstonMouseButton;
use serde::{Deserialize, Serialize};

#[derive(Clone, Copy, Debug, PartialEq, Eq, Serialize, Deserialize)]
pub enum Enc {
    Sna,
    SzxStored,
    SzxZlib,
    /// permuted chunk order, unknown chunks, lower-case ids, mixed compression
    SzxFancy,
}

#[derive(Clone, Debug, Serialize, Deserialize)]
pub struct State {
    pub machine: Machine,
    pub regs: RegFile,
    pub border: u8,
    pub latch: u8,
    pub ram_seed: u64,
    pub edits: Vec<(u8, u16, u8)>,
    // SZX-only items
    pub halted: bool,
    pub ei_last: bool,
    pub memptr: u16,
    pub cycles: u32,
    pub ay: Option<(u8, [u8; 16])>,
    pub mouse: Option<bool>,
    /// SZX: the last instruction before the snapshot set the flags (ZXSTZF_FSET; the Q latch)
    #[serde(default)]
    pub f_set: bool,
    /// the first instruction of the restored program is SCF (its undocumented flags depend on Q)
    #[serde(default)]
    pub scf_first: bool,
}

#[derive(Clone, Debug, Serialize, Deserialize)]
pub struct Case {
    pub st: State,
    pub enc: Enc,
    pub receiver: Receiver,
    pub layout_seed: u64,
}

/// code at PC: touches HL (prefix leak), memory, the border, the stack; loops
pub const CODE: [u8; 20] = [0x23, 0x2B, 0x24, 0xE5, 0xE1, 0x7C, 0x3C, 0x34, 0xD3, 0xFE, 0x04, 0x0C, 0x00, 0x08, 0xD9, 0x00, 0x00, 0x00, 0x18, 0xEC];

fn fill(seed: u64, bank: usize) -> Vec<u8> {
    let mut x = (seed ^ ((bank as u64 + 13).wrapping_mul(0x9E3779B97F4A7C15))) | 1;
    let mut v = vec![0u8; mach::PAGE];
    for chunk in v.chunks_mut(8) {
        x ^= x << 13;
        x ^= x >> 7;
        x ^= x << 17;
        chunk.copy_from_slice(&x.to_le_bytes());
    }
    v
}

/// RAM image of the state (48K: 3 pages in CPU order; 128K: 8 banks)
pub fn ram_of(st: &State) -> Vec<Vec<u8>> {
    let n = st.machine.ram_banks() as usize;
    let mut ram: Vec<Vec<u8>> = (0..n).map(|b| fill(st.ram_seed, b)).collect();
    for (b, off, v) in &st.edits {
        ram[*b as usize % n][(*off & 0x3FFF) as usize] = *v;
    }
    // code at PC (PC is in 0x8000..0xBE00 = 48K page 1 / 128K bank 2)
    let pb = if st.machine == Machine::K48 { 1 } else { 2 };
    let off = (st.regs.pc - 0x8000) as usize;
    if st.halted {
        // HALT on both addresses a loader could take PC to refer to; DI; code behind must not run
        ram[pb][off.saturating_sub(1)] = 0x76;
        ram[pb][off] = 0x76;
        ram[pb][off + 1..off + 4].copy_from_slice(&[0x3E, 0x99, 0x3C]);
    } else {
        ram[pb][off..off + CODE.len()].copy_from_slice(&CODE);
        if st.scf_first {
            ram[pb][off] = 0x37;
        }
    }
    if st.regs.im % 3 == 2 {
        let v = ((st.regs.i as u16) << 8) | 0xFF;
        let target = st.regs.pc.wrapping_add(15);
        for (k, byte) in target.to_le_bytes().iter().enumerate() {
            let a = v.wrapping_add(k as u16);
            if a >= 0x4000 {
                let (bank, o) = bank_of(st, a);
                ram[bank][o] = *byte;
            }
        }
    }
    ram
}

/// (index into `ram`, offset) of a CPU address >= 0x4000 under the state's paging
fn bank_of(st: &State, a: u16) -> (usize, usize) {
    let o = (a & 0x3FFF) as usize;
    match st.machine {
        Machine::K48 => ((a >> 14) as usize - 1, o),
        Machine::K128 => match a >> 14 {
            1 => (5, o),
            2 => (2, o),
            _ => ((st.latch & 7) as usize, o),
        },
    }
}

pub fn mem_model(st: &State) -> MemModel {
    let mut m = MemModel::new(st.machine, mach::rom_images(st.machine));
    m.ram = ram_of(st);
    if st.machine == Machine::K128 {
        m.latch = st.latch;
        m.locked = st.latch & 0x20 != 0;
    }
    m
}

pub fn encode(st: &State, enc: Enc, layout_seed: u64) -> Vec<u8> {
    let mut ram = ram_of(st);
    let is128 = st.machine == Machine::K128;
    match enc {
        Enc::Sna => {
            let mut regs = st.regs.clone();
            if is128 {
                sna::write_128k(&sna::SnaState { regs, border: st.border, latch: st.latch, is_128k: true }, &ram)
            } else {
                // PC goes on the stack
                regs.sp = regs.sp.wrapping_sub(2);
                for (k, byte) in st.regs.pc.to_le_bytes().iter().enumerate() {
                    let a = regs.sp.wrapping_add(k as u16);
                    if a >= 0x4000 {
                        let (b, o) = bank_of(st, a);
                        ram[b][o] = *byte;
                    }
                }
                sna::write_48k(&sna::SnaState { regs, border: st.border, latch: 0, is_128k: false }, &ram)
            }
        }
        _ => {
            let s = szx::SzxState {
                machine_id: if is128 { 2 } else { 1 },
                regs: st.regs.clone(),
                memptr: st.memptr,
                cycles: st.cycles,
                halted: st.halted,
                ei_last: st.ei_last,
                f_set: st.f_set,
                border: st.border,
                latch: if is128 { st.latch } else { 0 },
                // last byte written to port 0xFE: its low bits need not repeat the border field
                fe: (st.ram_seed >> 24) as u8 & 0x1F,
                ay: st.ay.map(|(cur, regs)| szx::AyChunk { flags: 2, current: cur, regs }),
                kempston_joystick: None,
                // no Kempston mouse: "none" (0) or an AMX mouse (1), which this machine does not have either
                mouse: st.mouse.map(|m| if m { 2 } else if st.ram_seed & 0x100 != 0 { 1 } else { 0 }),
            };
            let mut layout = szx::Layout::default();
            match enc {
                Enc::SzxZlib => layout.compress_pages = vec![true; 8],
                Enc::SzxFancy => {
                    let mut x = layout_seed | 1;
                    let mut rnd = || {
                        x ^= x << 13;
                        x ^= x >> 7;
                        x ^= x << 17;
                        x
                    };
                    // Fisher-Yates on the chunk kinds
                    for i in (1..layout.order.len()).rev() {
                        let j = (rnd() % (i as u64 + 1)) as usize;
                        layout.order.swap(i, j);
                    }
                    layout.compress_pages = (0..8).map(|_| rnd() & 1 == 0).collect();
                    // (now and then an unknown chunk bigger than a RAM page: an embedded tape or disk image)
                    let big = if rnd() % 4 == 0 { 65_540 + (rnd() % 5_000) as u32 } else { (rnd() % 300) as u32 };
                    layout.unknown_after = vec![((rnd() % 6) as u8, big), ((rnd() % 12) as u8, 0)];
                    layout.lowercase_ids = rnd() & 1 == 0;
                    layout.ramp_page_order_reversed = rnd() & 1 == 0;
                }
                _ => {}
            }
            szx::write(&s, &ram, &layout)
        }
    }
}

pub fn prepare_receiver(machine: Machine, receiver: Receiver, sound: bool) -> Result<Emu, String> {
    prepare_receiver_with(machine, receiver, sound, false)
}

/// `mouse`: the receiving machine has a Kempston mouse plugged in (host setting)
pub fn prepare_receiver_with(machine: Machine, receiver: Receiver, sound: bool, mouse: bool) -> Result<Emu, String> {
    let mut o = EmuOpts::new(machine);
    o.mouse = mouse;
    if sound {
        o.sound = true;
        o.ay = true;
        o.beeper = false;
    }
    let mut e = mk_emu(&o);
    let page_no = if machine == Machine::K48 { 1 } else { 2 };
    match receiver {
        Receiver::Fresh => {}
        Receiver::SameAfterScramble(frames) => {
            // a dirty machine: junk everywhere, other border, other bank, IM 2, AY programmed
            let prog: Vec<u8> = vec![
                0xF3, 0x31, 0x00, 0xBF, 0x3E, 0x05, 0xD3, 0xFE, 0x21, 0x00, 0x40, 0x11, 0x01, 0x40, 0x01, 0xFF, 0x3F, 0x36, 0xA5, 0xED, 0xB0,
                0x21, 0x00, 0xC0, 0x11, 0x01, 0xC0, 0x01, 0xFF, 0x3F, 0x36, 0x5A, 0xED, 0xB0, 0x08, 0xD9, 0x3C, 0x04, 0xDD, 0x23, 0xFD, 0x2B,
                0xED, 0x4F, 0xED, 0x5E, 0x01, 0xFD, 0xFF, 0x3E, 0x07, 0xED, 0x79, 0x01, 0xFD, 0xBF, 0x3E, 0x3F, 0xED, 0x79, 0x01, 0xFD, 0x7F,
                0x3E, 0x0B, 0xED, 0x79, 0x18, 0xFE,
            ];
            e.verif_ram_page_mut(page_no)[0x100..0x100 + prog.len()].copy_from_slice(&prog);
            mach::set_regs(&mut e, &RegFile { pc: 0x8100, sp: 0xBF00, ..Default::default() });
            mach::run_frames(&mut e, frames as usize % 3 + 1)?;
        }
        Receiver::Halted => {
            e.verif_ram_page_mut(page_no)[0] = 0x76;
            mach::set_regs(&mut e, &RegFile { pc: 0x8000, sp: 0xBF00, ..Default::default() });
            mach::single_step(&mut e)?;
        }
        Receiver::MidPrefixChain => {
            e.verif_ram_page_mut(page_no)[0..4].copy_from_slice(&[0xFD, 0xFD, 0xFD, 0xFD]);
            mach::set_regs(&mut e, &RegFile { pc: 0x8000, sp: 0xBF00, ..Default::default() });
            mach::single_step(&mut e)?;
        }
        Receiver::PagingLocked => {
            crate::props::c13::set_border(&mut e, machine, 6)?;
            if machine == Machine::K128 {
                e.verif_set_paging(0x20 | 0x0B);
            }
        }
        Receiver::MidFrame(n) => {
            e.verif_ram_page_mut(page_no)[0..3].copy_from_slice(&[0xF3, 0x18, 0xFE]);
            mach::set_regs(&mut e, &RegFile { pc: 0x8000, sp: 0xBF00, ..Default::default() });
            e.debug_interface().unwrap().mode = crate::host::BpMode::AfterCalls(n as u64 + 1);
            let _ = e.emulate_frames(crate::host::LONG);
            e.debug_interface().unwrap().mode = crate::host::BpMode::Never;
        }
        Receiver::EiPending => {
            e.verif_ram_page_mut(page_no)[0] = 0xFB;
            mach::set_regs(&mut e, &RegFile { pc: 0x8000, sp: 0xBF00, ..Default::default() });
            mach::single_step(&mut e)?;
        }
    }
    Ok(e)
}

const STUB: u16 = 0xBE80;

fn port_in(e: &mut Emu, port: u16) -> Result<u8, String> {
    mach::set_regs(e, &RegFile { pc: STUB, sp: 0xBF00, bc: port, ..Default::default() });
    mach::step_over(e, 2)?;
    Ok((mach::get_regs(e).af >> 8) as u8)
}
fn port_out(e: &mut Emu, port: u16, v: u8) -> Result<(), String> {
    mach::set_regs(e, &RegFile { pc: STUB + 2, sp: 0xBF00, bc: port, af: (v as u16) << 8, ..Default::default() });
    mach::step_over(e, 2)
}

pub fn load(e: &mut Emu, enc: Enc, file: Vec<u8>) -> Result<(), String> {
    // the file arrives all at once or in short reads (chosen by the file's own bytes, so that every
    // phase meets every delivery): what is loaded must not depend on it
    let chunk = [0usize, 0, 1, 7, 100, 4096][(fnv(&file) % 6) as usize];
    let a = MemAsset::chunked(file, chunk);
    match enc {
        Enc::Sna => e.load_snapshot(Snapshot::Sna(a)),
        _ => e.load_snapshot(Snapshot::Szx(a)),
    }
    .map_err(|x| format!("{:?}", x))
}

/// Hash of everything observable (registers, RAM, paging, border, frame clock).
pub fn state_hash(e: &mut Emu, machine: Machine) -> u64 {
    let s = read_state(e, machine);
    let mut h = fnv(format!("{:?}{}{}{}", s.regs, s.border, s.latch, s.locked).as_bytes());
    for b in &s.ram {
        h = h.rotate_left(7) ^ fnv(b);
    }
    h ^ (e.verif_frame_clocks() as u64).wrapping_mul(0x9E3779B97F4A7C15) ^ (e.verif_cpu().halted as u64)
}

pub fn check(c: &Case, rec: &mut Rec) -> Result<(), String> {
    let st = &c.st;
    let machine = st.machine;
    let szx_enc = c.enc != Enc::Sna;
    let file = encode(st, c.enc, c.layout_seed);
    let mut e = prepare_receiver(machine, c.receiver, false)?;
    load(&mut e, c.enc, file.clone()).map_err(|x| format!("well-formed {:?} file rejected: {}", c.enc, x))?;
    rec.eval();
    let tag = format!("{:?} into receiver {:?}", c.enc, c.receiver);
    // ---- (a) direct state
    let got = read_state(&mut e, machine);
    let mut want_regs = st.regs.clone();
    let mut got_regs = got.regs.clone();
    if !szx_enc {
        want_regs.iff1 = want_regs.iff2;
    }
    if st.halted && szx_enc {
        // PC of a halted CPU: the HALT's own address or the one behind it, by convention
        if got_regs.pc != want_regs.pc && got_regs.pc != want_regs.pc.wrapping_sub(1) {
            return Err(format!("{}: halted CPU with PC {:#06x} in the file ends up with PC {:#06x}: the HALT is at {:#06x}/{:#06x} and the code behind it must not run", tag, st.regs.pc, got_regs.pc, st.regs.pc.wrapping_sub(1), st.regs.pc));
        }
        got_regs.pc = want_regs.pc;
    }
    if got_regs != want_regs {
        return Err(format!("{}: registers after load {:x?}, file says {:x?}", tag, got_regs, want_regs));
    }
    if got.border != st.border {
        return Err(format!("{}: border after load {}, file says {}", tag, got.border, st.border));
    }
    if machine == Machine::K128 && (got.latch != st.latch || got.locked != (st.latch & 0x20 != 0)) {
        return Err(format!("{}: paging latch after load {:#04x} (locked {}), file says {:#04x}", tag, got.latch, got.locked, st.latch));
    }
    let ram = ram_of(st);
    for b in 0..ram.len() {
        if got.ram[b] != ram[b] {
            let pos = got.ram[b].iter().zip(ram[b].iter()).position(|(x, y)| x != y).unwrap();
            let a = pos as u16;
            // 48K SNA: the two bytes below SP hold PC
            let stack_bytes = c.enc == Enc::Sna && machine == Machine::K48 && {
                let addr = 0x4000u32 + (b as u32) * 0x4000 + a as u32;
                addr as u16 == st.regs.sp.wrapping_sub(1) || addr as u16 == st.regs.sp.wrapping_sub(2)
            };
            if !stack_bytes {
                return Err(format!("{}: RAM page {} offset {:#06x} after load {:#04x}, file says {:#04x}", tag, b, pos, got.ram[b][pos], ram[b][pos]));
            }
        }
    }
    let mm = mem_model(st);
    for a in (0x4000..=0xFFFFu16).step_by(7) {
        if e.peek(a) != mm.read(a) {
            let below = c.enc == Enc::Sna && machine == Machine::K48 && (a == st.regs.sp.wrapping_sub(1) || a == st.regs.sp.wrapping_sub(2));
            if !below {
                return Err(format!("{}: CPU sees {:#04x} at {:#06x}, file says {:#04x}", tag, e.peek(a), a, mm.read(a)));
            }
        }
    }
    if szx_enc {
        if e.verif_frame_clocks() as u32 != st.cycles {
            return Err(format!("{}: frame cycle counter after load {}, file says {}", tag, e.verif_frame_clocks(), st.cycles));
        }
        if e.verif_cpu().regs.get_mem_ptr() != st.memptr {
            return Err(format!("{}: MEMPTR after load {:#06x}, file says {:#06x}", tag, e.verif_cpu().regs.get_mem_ptr(), st.memptr));
        }
    }
    // ---- behaviour: next instructions against the reference machine started from the described state
    if !st.halted {
        let mut m = RefMachine::new(mem_model(st));
        let mut regs = want_regs.clone();
        regs.pc = st.regs.pc;
        set_ref(&mut m.cpu, &CpuState { regs, memptr: st.memptr, q_is_f: szx_enc && st.f_set, halted: false, no_int: szx_enc && st.ei_last });
        let t0 = if szx_enc { st.cycles as u64 } else { machine.frame_len() as u64 - 40 };
        if !szx_enc {
            e.verif_set_frame_clocks(t0 as usize);
        }
        m.bus.t = t0;
        let tb = crate::e2::TimeBase::new(&e, machine);
        if !szx_enc {
            // SNA does not carry the Q latch
            e.verif_cpu().regs.clear_q();
        } else if st.scf_first {
            rec.class(if st.f_set { "szx:FSET-then-SCF" } else { "szx:no-FSET-then-SCF" });
        }
        let v = ((st.regs.i as u16) << 8) | 0xFF;
        let skip = st.regs.im % 3 == 2 && (v < 0x4000 || v.wrapping_add(1) < 0x4000);
        for k in 0..if skip { 0 } else { 12 } {
            if m.cpu.pc < 0x4000 {
                break;
            }
            m.lockstep(&mut e, &tb)?;
            let g = mach::get_regs(&mut e);
            let w = crate::e1::get_ref_regs(&m.cpu);
            if g != w {
                return Err(format!(
                    "{}: instruction {} after load (EILAST {}, frame T at load {}): emulator {:x?}, the described machine {:x?}",
                    tag, k, st.ei_last, t0, g, w
                ));
            }
            rec.eval();
        }
    } else {
        // halted with interrupts off: PC must stay on the HALT, the code behind must never run
        let mut e2 = e;
        e2.verif_cpu().regs.set_iff1(false);
        for _ in 0..40 {
            mach::single_step(&mut e2)?;
        }
        let g = mach::get_regs(&mut e2);
        if g.pc != st.regs.pc && g.pc != st.regs.pc.wrapping_sub(1) {
            return Err(format!("{}: the file says the CPU is halted at {:#06x} with interrupts disabled, but after 40 steps PC = {:#06x}, A = {:#04x}", tag, st.regs.pc, g.pc, g.af >> 8));
        }
        rec.class("halted");
        e = e2;
    }
    let _ = &mut e;
    let fancy = c.enc == Enc::SzxFancy || c.enc == Enc::SzxZlib;
    if fancy || st.halted || st.ei_last || st.latch & 0x28 != 0 || c.receiver != Receiver::Fresh {
        rec.nontrivial(fnv(format!("{:?}", c).as_bytes()));
    }
    rec.class(&format!("enc:{:?}", c.enc));
    rec.class(&format!("receiver:{:?}", c.receiver).replace(|ch: char| ch == '(' || ch == ')', "-"));
    if st.ei_last && szx_enc {
        rec.class("EILAST");
    }
    rec.class(if machine == Machine::K48 { "48k" } else { "128k" });
    Ok(())
}

// ---------------------------------------------------------------------------------------
// devices carried by SZX: AY registers (read-back and audible), mouse presence; display

#[derive(Clone, Debug, Serialize, Deserialize)]
pub struct DevCase {
    pub st: State,
    pub enc: Enc,
    pub receiver: Receiver,
    pub tone_period: u16,
    pub channel: u8,
    /// 48K receivers only (a 48K file's AY chunk switches the optional AY on): 0 = AY enabled
    /// in the receiver, 1 = disabled by the host settings, 2 = switched off by a previously
    /// loaded 48K SZX whose AY chunk does not ask for the AY
    #[serde(default)]
    pub ay_off: u8,
}

pub fn check_devices(c: &DevCase, rec: &mut Rec) -> Result<(), String> {
    let mut st = c.st.clone();
    let machine = st.machine;
    st.halted = false;
    // AY: a plain tone on one channel
    let ch = (c.channel % 3) as usize;
    let tp = c.tone_period.clamp(40, 1500);
    let mut regs = [0u8; 16];
    regs[2 * ch] = tp as u8;
    regs[2 * ch + 1] = (tp >> 8) as u8;
    regs[7] = 0x3F & !(1 << ch);
    regs[8 + ch] = 0x0F;
    regs[6] = 0x11;
    regs[11] = 0x34;
    regs[12] = 0x12;
    regs[13] = 0x09;
    let current = 8 + ch as u8;
    st.ay = Some((current, regs));
    // idle program so that nothing else writes to the AY: DI ; JR $
    st.regs.iff1 = false;
    st.regs.iff2 = false;
    let file = {
        let mut s2 = st.clone();
        s2.halted = false;
        let mut f_state = s2.clone();
        f_state.regs.pc = st.regs.pc;
        // overwrite the code by an idle loop through an edit of the RAM image
        let pb = if machine == Machine::K48 { 1u8 } else { 2 };
        let off = st.regs.pc - 0x8000;
        f_state.edits.retain(|(b, o, _)| !(*b % machine.ram_banks() == pb && (*o & 0x3FFF) >= off && (*o & 0x3FFF) < off + 24));
        encode_with_idle(&f_state, c.enc)
    };
    // half of the receivers have a Kempston mouse of their own: the file decides what is there afterwards
    let receiver_has_mouse = c.tone_period % 2 == 0;
    let mut e = prepare_receiver_with(machine, c.receiver, true, receiver_has_mouse)?;
    if receiver_has_mouse {
        // ... which has been used: moved, wheel turned, a button held
        e.send_mouse_pos_diff(33, -21);
        e.send_mouse_wheel(rustzx_core::zx::mouse::kempston::KempstonMouseWheelDirection::Up);
        e.send_mouse_button(KempstonMouseButton::Right, true);
        rec.class("receiver-with-a-mouse-of-its-own");
    }
    let ay_off = if machine == Machine::K48 { c.ay_off % 3 } else { 0 };
    match ay_off {
        1 => e.set_ay_enabled(false),
        2 => {
            // an earlier 48K snapshot without the AY flag
            let mut prev = st.clone();
            prev.ay = Some((1, [0x55; 16]));
            let f0 = encode_with_idle_flags(&prev, Enc::SzxStored, 0);
            load(&mut e, Enc::SzxStored, f0).map_err(|x| format!("well-formed 48K SZX with AY flags 0 rejected: {}", x))?;
        }
        _ => {}
    }
    load(&mut e, c.enc, file).map_err(|x| format!("well-formed {:?} file rejected: {}", c.enc, x))?;
    rec.eval();
    let tag = format!("{:?} into receiver {:?}{}", c.enc, c.receiver, ["", " with the AY disabled by settings", " whose AY was switched off by an earlier 48K SZX"][ay_off as usize]);
    if ay_off != 0 {
        rec.class(if ay_off == 1 { "ay-off-receiver:settings" } else { "ay-off-receiver:earlier-snapshot" });
    }
    // audible state first (before any port access touches the chip)
    while e.next_audio_sample().is_some() {}
    let mut samples: Vec<f32> = Vec::new();
    for _ in 0..12 {
        mach::run_frames(&mut e, 1)?;
        while let Some(s) = e.next_audio_sample() {
            samples.push(s.left + s.right);
        }
    }
    let n = samples.len();
    if n < 12 * 800 {
        return Err(format!("{}: only {} audio samples in 12 frames", tag, n));
    }
    let tail = &samples[n / 3..];
    let mean: f32 = tail.iter().sum::<f32>() / tail.len() as f32;
    let amp = tail.iter().map(|s| (s - mean).abs()).fold(0.0f32, f32::max);
    let mut crossings = 0u32;
    let mut sign = 0i8;
    for s in tail {
        let d = s - mean;
        let sg = if d > amp * 0.25 { 1 } else if d < -amp * 0.25 { -1 } else { 0 };
        if sg != 0 && sg != sign {
            if sign != 0 {
                crossings += 1;
            }
            sign = sg;
        }
    }
    let secs = tail.len() as f64 / 44100.0;
    let want_f = 1_773_400.0 / (16.0 * tp as f64);
    let got_f = crossings as f64 / 2.0 / secs;
    if amp < 1e-4 || (got_f - want_f).abs() > want_f * 0.06 + 15.0 {
        return Err(format!(
            "{}: the file's AY registers define a tone of {:.0} Hz on channel {} at full volume; the audio of the 12 frames after loading has amplitude {:.5} and {:.0} Hz",
            tag, want_f, ch, amp, got_f
        ));
    }
    rec.class("ay-audible");
    // read-back through the ports: selected register first, then all of them
    let page_no = if machine == Machine::K48 { 1 } else { 2 };
    let _ = page_no;
    let mut mm = mem_model(&st);
    mach::poke_bytes(&mut e, &mut mm, STUB, &[0xED, 0x78, 0xED, 0x79]);
    let v = port_in(&mut e, 0xFFFD)?;
    if v != regs[current as usize] {
        return Err(format!("{}: AY data port reads {:#04x}; the file selects register {} holding {:#04x}", tag, v, current, regs[current as usize]));
    }
    for r in 0..16u8 {
        port_out(&mut e, 0xFFFD, r)?;
        let v = port_in(&mut e, 0xFFFD)?;
        let full = regs[r as usize];
        let masks = [0xFFu8, 0x0F, 0xFF, 0x0F, 0xFF, 0x0F, 0x1F, 0xFF, 0x1F, 0x1F, 0x1F, 0xFF, 0xFF, 0x0F, 0xFF, 0xFF];
        if v != full && v != full & masks[r as usize] {
            return Err(format!("{}: AY register {} reads back {:#04x}, file says {:#04x}", tag, r, v, full));
        }
    }
    rec.class("ay-readback");
    // the display: the bank the file selects, then (128K) the other one after flipping the
    // screen-select bit without touching memory — every RAM page "as seen by the display"
    {
        let vb = if machine == Machine::K48 { 0 } else if st.latch & 8 != 0 { 7 } else { 5 };
        let vis: Vec<u8> = e.verif_ram_page(vb)[..6912].to_vec();
        mach::set_regs(&mut e, &RegFile { pc: st.regs.pc, sp: 0xBF00, ..Default::default() });
        mach::run_frames(&mut e, 2)?;
        let px = e.screen_buffer().px.clone();
        if px[..] != c08::decode(&vis, false)[..] && px[..] != c08::decode(&vis, true)[..] {
            return Err(format!("{}: the canvas does not show the file's screen (bank {})", tag, vb));
        }
        if machine == Machine::K128 {
            let (latch, _, _) = e.verif_paging();
            e.verif_set_paging((latch ^ 8) & !0x20);
            let ob = if vb == 7 { 5 } else { 7 };
            let other: Vec<u8> = e.verif_ram_page(ob)[..6912].to_vec();
            mach::run_frames(&mut e, 2)?;
            let px = &e.screen_buffer().px;
            if px[..] != c08::decode(&other, false)[..] && px[..] != c08::decode(&other, true)[..] {
                return Err(format!("{}: after flipping the screen-select bit the canvas does not show the file's bank {} (its content was loaded but the display shows something else)", tag, ob));
            }
            rec.class("display-both-banks");
        }
    }
    // mouse presence
    if let Some(present) = st.mouse {
        if present {
            // the file's mouse is a mouse nobody has touched: its ports read what a fresh machine's do
            // (the format carries no counters), whatever the receiver's own mouse had been through
            let mut o = EmuOpts::new(machine);
            o.mouse = true;
            let mut fresh = mk_emu(&o);
            let mut mm2 = mem_model(&st);
            mach::poke_bytes(&mut fresh, &mut mm2, STUB, &[0xED, 0x78, 0xED, 0x79]);
            for port in [0xFADFu16, 0xFBDF, 0xFFDF] {
                e.verif_set_frame_clocks(100);
                fresh.verif_set_frame_clocks(100);
                let (got, want) = (port_in(&mut e, port)?, port_in(&mut fresh, port)?);
                if got != want {
                    return Err(format!(
                        "{}: file declares a Kempston mouse: port {:#06x} reads {:#04x} after the load, a machine with an untouched mouse reads {:#04x} (the receiver's own mouse had been moved and had a button held)",
                        tag, port, got, want
                    ));
                }
            }
        }
        e.send_mouse_button(KempstonMouseButton::Left, true);
        e.verif_set_frame_clocks(100);
        let b = port_in(&mut e, 0xFADF)?;
        if present && b & 1 != 0 {
            return Err(format!("{}: file declares a Kempston mouse; after pressing the left button port 0xFADF reads {:#04x}", tag, b));
        }
        if !present && b != 0xFF {
            return Err(format!("{}: file declares no mouse; port 0xFADF reads {:#04x} instead of the floating bus", tag, b));
        }
        rec.class(if present { "mouse-present" } else { "mouse-absent" });
    }
    rec.nontrivial(fnv(format!("{:?}", c).as_bytes()));
    Ok(())
}

#[derive(Clone, Debug, Serialize, Deserialize)]
pub struct EnvCase {
    pub st: State,
    pub enc: Enc,
    /// envelope period (R11/R12) and a one-shot shape: the level runs to zero and stays there
    pub ep: u16,
    pub shape: u8,
}

/// "Audible AY state ... independent of what the machine was doing before": the file's R13 starts
/// its envelope when the file is loaded — also in a machine whose AY registers already hold
/// exactly the file's values because the same file was loaded earlier and its one-shot envelope
/// has long run out. Compared with a fresh receiver by the peak level of the frames after the load.
pub fn check_envelope_restart(c: &EnvCase, rec: &mut Rec) -> Result<(), String> {
    let mut st = c.st.clone();
    st.halted = false;
    st.regs.iff1 = false;
    st.regs.iff2 = false;
    let ep = c.ep.clamp(150, 1500);
    // (register 13 is 4 bits wide: 0xFF and 0x1F are shape 15, not "leave alone")
    let shapes = [0x00u8, 0x01, 0x03, 0x04, 0x07, 0x09, 0x0F, 0xFF, 0x1F, 0xF0];
    let shape = shapes[c.shape as usize % shapes.len()];
    let mut regs = [0u8; 16];
    regs[7] = 0x3F;
    regs[8] = 0x10;
    regs[9] = 0x10;
    regs[10] = 0x10;
    regs[11] = ep as u8;
    regs[12] = (ep >> 8) as u8;
    regs[13] = shape;
    st.ay = Some((13, regs));
    let file = encode_with_idle(&st, c.enc);
    let burst = |e: &mut Emu| -> Result<f32, String> {
        while e.next_audio_sample().is_some() {}
        let mut peak = 0f32;
        for _ in 0..6 {
            mach::run_frames(e, 1)?;
            while let Some(s) = e.next_audio_sample() {
                peak = peak.max(s.left.abs()).max(s.right.abs());
            }
        }
        Ok(peak)
    };
    // receiver A: fresh
    let mut a = prepare_receiver(st.machine, Receiver::Fresh, true)?;
    load(&mut a, c.enc, file.clone()).map_err(|x| format!("well-formed {:?} file rejected: {}", c.enc, x))?;
    let peak_a = burst(&mut a)?;
    rec.eval();
    if peak_a < 1e-3 {
        return Err(format!("fresh receiver: the file sets all channels to envelope mode with one-shot shape {:#04x}, period {}; no sound in the 6 frames after loading (peak {})", shape, ep, peak_a));
    }
    // receiver B: the same file loaded before, envelope run out (one-shot: 256*EP/f_clk <= 0.22 s)
    let mut b = prepare_receiver(st.machine, Receiver::Fresh, true)?;
    load(&mut b, c.enc, file.clone()).map_err(|x| format!("well-formed {:?} file rejected: {}", c.enc, x))?;
    for _ in 0..40 {
        mach::run_frames(&mut b, 1)?;
        while b.next_audio_sample().is_some() {}
    }
    let mut tail = 0f32;
    mach::run_frames(&mut b, 1)?;
    while let Some(s) = b.next_audio_sample() {
        tail = tail.max(s.left.abs()).max(s.right.abs());
    }
    if tail > peak_a * 0.05 {
        rec.class("envelope-restart:not-settled(not-judged)");
        return Ok(());
    }
    load(&mut b, c.enc, file).map_err(|x| format!("second load of the same file rejected: {}", x))?;
    let peak_b = burst(&mut b)?;
    rec.eval();
    if peak_b < peak_a * 0.5 {
        return Err(format!(
            "{:?} file with all AY channels on a one-shot envelope (shape {:#04x}, period {}): loaded into a fresh machine the 6 frames after the load peak at {:.4}; loaded into a machine that had loaded the same file 41 frames earlier (envelope run out, silent) they peak at {:.4} — the file's envelope did not start",
            c.enc, shape, ep, peak_a, peak_b
        ));
    }
    rec.class("envelope-restarts-on-a-second-load-of-the-same-file");
    rec.nontrivial(fnv(format!("{:?}", c).as_bytes()));
    Ok(())
}

fn encode_with_idle(st: &State, enc: Enc) -> Vec<u8> {
    encode_with_idle_flags(st, enc, 2)
}

fn encode_with_idle_flags(st: &State, enc: Enc, ay_flags: u8) -> Vec<u8> {
    // like `encode`, but the code at PC is DI ; JR $
    let mut s = st.clone();
    s.halted = false;
    let pb = if st.machine == Machine::K48 { 1u8 } else { 2 };
    let off = st.regs.pc - 0x8000;
    // edits are applied before the code in ram_of; emulate the idle loop by making CODE irrelevant:
    // jump over it — first byte of CODE replaced through a dedicated edit list is not possible,
    // so build the file from a patched RAM image directly
    let mut ram = ram_of(&s);
    ram[pb as usize][off as usize..off as usize + 3].copy_from_slice(&[0xF3, 0x18, 0xFE]);
    let is128 = st.machine == Machine::K128;
    let sz = szx::SzxState {
        machine_id: if is128 { 2 } else { 1 },
        regs: s.regs.clone(),
        memptr: s.memptr,
        cycles: s.cycles,
        halted: false,
        ei_last: false,
        f_set: s.f_set,
        border: s.border,
        latch: if is128 { s.latch } else { 0 },
        fe: (s.ram_seed >> 24) as u8 & 0x1F,
        ay: s.ay.map(|(cur, regs)| szx::AyChunk { flags: ay_flags, current: cur, regs }),
        kempston_joystick: None,
        mouse: s.mouse.map(|m| if m { 2 } else if s.ram_seed & 0x100 != 0 { 1 } else { 0 }),
    };
    let mut layout = szx::Layout::default();
    if enc == Enc::SzxZlib {
        layout.compress_pages = vec![true; 8];
    }
    if enc == Enc::SzxFancy {
        layout.order = vec![4, 6, 3, 0, 2, 1, 5];
        layout.compress_pages = vec![true, false, true, false, true, false, true, false];
    }
    szx::write(&sz, &ram, &layout)
}

// ---------------------------------------------------------------------------------------
// equivalence of encodings

#[derive(Clone, Debug, Serialize, Deserialize)]
pub struct EqCase {
    pub st: State,
    pub frames: u8,
    pub layout_seed: u64,
    pub dirty: Receiver,
}

pub fn check_equiv(c: &EqCase, rec: &mut Rec) -> Result<(), String> {
    // restrict to what SNA can express so that all four encodings describe the same state
    let mut st = c.st.clone();
    st.halted = false;
    st.ei_last = false;
    st.regs.iff1 = st.regs.iff2;
    st.cycles = 0;
    st.memptr = 0;
    st.ay = None;
    st.mouse = None;
    // SNA has no Q latch: only states with Q = 0 are describable by all four encodings
    st.f_set = false;
    let machine = st.machine;
    let mut hashes: Vec<(String, u64)> = Vec::new();
    for enc in [Enc::Sna, Enc::SzxStored, Enc::SzxZlib, Enc::SzxFancy] {
        for receiver in [Receiver::Fresh, c.dirty] {
            // a SNA does not carry the frame position: only fresh receivers (frame clock 0) are comparable
            if enc == Enc::Sna && receiver != Receiver::Fresh {
                continue;
            }
            let mut e = prepare_receiver(machine, receiver, false)?;
            load(&mut e, enc, encode(&st, enc, c.layout_seed)).map_err(|x| format!("well-formed {:?} rejected: {}", enc, x))?;
            if enc == Enc::Sna && machine == Machine::K48 {
                // the two bytes below SP hold PC after a 48K SNA load (format): make them equal everywhere
            }
            e.verif_cpu().regs.set_mem_ptr(0);
            e.verif_cpu().regs.clear_q();
            mach::run_frames(&mut e, c.frames as usize % 4 + 1)?;
            rec.eval();
            let mut h = state_hash(&mut e, machine);
            if machine == Machine::K48 {
                // neutralise the SNA stack artefact: hash without the two bytes below the saved SP
                let s = read_state(&mut e, machine);
                let mut ram = s.ram.clone();
                for k in 1..=2u16 {
                    let a = st.regs.sp.wrapping_sub(k);
                    if a >= 0x4000 {
                        ram[(a as usize - 0x4000) / mach::PAGE][(a as usize - 0x4000) % mach::PAGE] = 0;
                    }
                }
                h = fnv(format!("{:?}{}{}", s.regs, s.border, e.verif_frame_clocks()).as_bytes());
                for b in &ram {
                    h = h.rotate_left(7) ^ fnv(b);
                }
            }
            hashes.push((format!("{:?}/{:?}", enc, receiver), h));
        }
    }
    let first = hashes[0].1;
    if hashes.iter().any(|(_, h)| *h != first) {
        return Err(format!("encodings of the same state behave differently after {} frames: {:x?}", c.frames % 4 + 1, hashes));
    }
    rec.nontrivial(fnv(format!("{:?}", c).as_bytes()));
    rec.class(if machine == Machine::K48 { "48k" } else { "128k" });
    Ok(())
}

// ---------------------------------------------------------------------------------------
// model mismatch

#[derive(Clone, Debug, Serialize, Deserialize)]
pub struct MismatchCase {
    pub st: State,
    pub enc: Enc,
}

pub fn check_mismatch(c: &MismatchCase, rec: &mut Rec) -> Result<(), String> {
    let st = &c.st;
    let emu_machine = if st.machine == Machine::K48 { Machine::K128 } else { Machine::K48 };
    let file = encode(st, c.enc, 1);
    let mut e = mk_emu(&EmuOpts::new(emu_machine));
    let res = load(&mut e, c.enc, file);
    rec.eval();
    match res {
        Err(_) => {
            rec.class("rejected");
            // still usable
            mach::run_frames(&mut e, 1)?;
        }
        Ok(()) => {
            if st.machine == Machine::K128 {
                return Err(format!("a 128K {:?} file was accepted by a 48K machine, which cannot represent it", c.enc));
            }
            // 48K file on a 128K machine: acceptable only if the CPU sees the file's RAM
            let mm = mem_model(st);
            for a in 0x4000..=0xFFFFu16 {
                if e.peek(a) != mm.read(a) {
                    let below = c.enc == Enc::Sna && (a == st.regs.sp.wrapping_sub(1) || a == st.regs.sp.wrapping_sub(2));
                    if !below {
                        return Err(format!(
                            "a 48K {:?} file loaded into a 128K machine returned Ok, but the CPU sees {:#04x} at {:#06x} where the file has {:#04x}: applied with a wrong memory layout instead of being rejected",
                            c.enc, e.peek(a), a, mm.read(a)
                        ));
                    }
                }
            }
            rec.class("accepted-with-right-layout");
        }
    }
    rec.nontrivial(fnv(format!("{:?}", c).as_bytes()));
    Ok(())
}

// ---------------------------------------------------------------------------------------
// SCR

#[derive(Clone, Debug, Serialize, Deserialize)]
pub struct ScrCase {
    pub machine: Machine,
    pub kind: u8,
    pub seed: u64,
    pub receiver: Receiver,
}

pub fn check_scr(c: &ScrCase, rec: &mut Rec) -> Result<(), String> {
    let bytes = c08::content(c.kind, c.seed);
    let mut e = prepare_receiver(c.machine, c.receiver, false)?;
    // a receiver with locked/paged memory keeps its paging: SCR describes only the primary screen
    e.load_screen(Screen::Scr(MemAsset::new(bytes.clone()))).map_err(|x| format!("well-formed SCR rejected: {:?}", x))?;
    rec.eval();
    for (i, b) in bytes.iter().enumerate() {
        if e.peek(0x4000 + i as u16) != *b {
            return Err(format!("after SCR load (receiver {:?}) the CPU sees {:#04x} at {:#06x}, file has {:#04x}", c.receiver, e.peek(0x4000 + i as u16), 0x4000 + i, b));
        }
    }
    mach::run_frames(&mut e, 2)?;
    let shadow = c.machine == Machine::K128 && e.verif_paging().0 & 8 != 0;
    if !shadow {
        let d0 = c08::decode(&bytes, false);
        let d1 = c08::decode(&bytes, true);
        let px = &e.screen_buffer().px;
        if px[..] != d0[..] && px[..] != d1[..] {
            return Err(format!("two frames after SCR load (receiver {:?}) the canvas is not the decode of the file", c.receiver));
        }
    }
    if c.receiver != Receiver::Fresh {
        rec.nontrivial(fnv(format!("{:?}", c).as_bytes()));
    }
    rec.class("scr");
    Ok(())
}

// ---------------------------------------------------------------------------------------

pub fn receiver_strategy() -> impl Strategy<Value = Receiver> {
    prop_oneof![
        (0u8..3).prop_map(Receiver::SameAfterScramble),
        Just(Receiver::Fresh),
        Just(Receiver::Halted),
        Just(Receiver::MidPrefixChain),
        Just(Receiver::PagingLocked),
        Just(Receiver::EiPending),
        (0u16..17000).prop_map(Receiver::MidFrame),
    ]
}

pub fn state_strategy() -> impl Strategy<Value = State> {
    (
        prop_oneof![Just(Machine::K48), Just(Machine::K128)],
        regs_strategy(),
        0u8..8,
        any::<u8>(),
        any::<u64>(),
        proptest::collection::vec((0u8..8, any::<u16>(), any::<u8>()), 0..=10),
        (prop_oneof![3 => Just(false), 1 => Just(true)], prop_oneof![3 => Just(false), 1 => Just(true)], any::<u16>(), any::<u32>()),
        prop_oneof![1 => Just(None), 1 => (any::<u8>(), proptest::array::uniform16(any::<u8>())).prop_map(|(c, r)| Some((c & 0x0F, r)))],
        prop_oneof![1 => Just(None), 1 => any::<bool>().prop_map(Some)],
        (
            0x8010u16..0xBD00,
            // SP at a 16 KiB page boundary: the 48K SNA keeps PC in the two bytes below SP
            prop_oneof![4 => Just(None), 1 => prop_oneof![Just(0x4004u16), Just(0x8000), Just(0x8001), Just(0x8002), Just(0xC000), Just(0xC001), Just(0xC002), Just(0xFFFF)].prop_map(Some)],
        ),
    )
        .prop_map(|(machine, mut regs, border, latch, ram_seed, edits, (halted, ei_last, memptr, cycles), ay, mouse, (pc, sp_edge))| {
            regs.pc = pc;
            if let Some(sp) = sp_edge {
                regs.sp = sp;
            }
            if regs.sp.wrapping_sub(pc) < 48 || pc.wrapping_sub(regs.sp) < 8 {
                regs.sp = pc.wrapping_add(0x180);
            }
            // keep the stack in RAM (48K SNA proviso) and away from the IM 2 vector
            if regs.sp < 0x4004 {
                regs.sp = 0x5F00;
            }
            let halted = halted && !ei_last;
            // EILAST is observable only if an interrupt is pending right away: mostly generate
            // such states (IFF1 set, frame cycle counter inside the 32-T INT pulse)
            let mut cycles = cycles;
            if ei_last && ram_seed % 4 != 0 {
                regs.iff1 = true;
                regs.iff2 = true;
                cycles %= 24;
            }
            // the IM 2 vector must not lie on top of the code at PC
            let v = ((regs.i as u16) << 8) | 0xFF;
            if v.wrapping_add(2) >= pc.wrapping_sub(2) && v <= pc.wrapping_add(40) {
                regs.i ^= 0x08;
            }
            // edits must not hit the code / stack neighbourhood
            let edits = edits.into_iter().filter(|(_, o, _)| {
                let a = 0x8000 + (*o & 0x3FFF);
                !(a + 4 >= pc && a < pc + 32)
            }).collect();
            State {
                machine,
                regs,
                border,
                latch,
                ram_seed,
                edits,
                halted,
                ei_last,
                memptr,
                cycles: cycles % machine.frame_len() as u32,
                ay,
                mouse,
                f_set: ram_seed & 0x400 != 0,
                scf_first: ram_seed & 0x800 != 0,
            }
        })
}

pub fn case_strategy() -> impl Strategy<Value = Case> {
    (
        state_strategy(),
        prop_oneof![Just(Enc::Sna), Just(Enc::SzxStored), Just(Enc::SzxZlib), Just(Enc::SzxFancy), Just(Enc::SzxFancy)],
        receiver_strategy(),
        any::<u64>(),
    )
        .prop_map(|(mut st, enc, receiver, layout_seed)| {
            if enc == Enc::Sna {
                st.halted = false;
                st.ei_last = false;
            }
            Case { st, enc, receiver, layout_seed }
        })
}

/// Real snapshot files shipped with the repository, read by the harness' own parser and by the
/// emulator: both must arrive at the same state (validates the harness' format code on files
/// it did not write).
pub fn check_asset(path: &String, rec: &mut Rec) -> Result<(), String> {
    let raw = std::fs::read(path).map_err(|e| format!("{}: {}", path, e))?;
    let data = if path.ends_with(".gz") {
        use std::io::Read;
        let mut out = Vec::new();
        flate2::read::GzDecoder::new(&raw[..]).read_to_end(&mut out).map_err(|e| format!("{}: {}", path, e))?;
        out
    } else {
        raw
    };
    let parsed = sna::parse(&data).map_err(|e| format!("harness parser rejects {}: {}", path, e))?;
    let machine = if parsed.state.is_128k { Machine::K128 } else { Machine::K48 };
    let mut e = mk_emu(&EmuOpts::new(machine));
    e.load_snapshot(Snapshot::Sna(MemAsset::new(data))).map_err(|x| format!("{}: {:?}", path, x))?;
    rec.eval();
    let got = read_state(&mut e, machine);
    let mut a = got.regs.clone();
    a.iff1 = a.iff2;
    if a != parsed.state.regs || got.border != parsed.state.border || (parsed.state.is_128k && got.latch != parsed.state.latch) {
        return Err(format!("{}: emulator state {:x?} border {} latch {:#04x}; harness parser reads {:x?} border {} latch {:#04x}", path, a, got.border, got.latch, parsed.state.regs, parsed.state.border, parsed.state.latch));
    }
    for b in 0..got.ram.len() {
        if got.ram[b] != parsed.ram[b] {
            return Err(format!("{}: RAM page {} differs between emulator and harness parser", path, b));
        }
    }
    rec.nontrivial(fnv(path.as_bytes()));
    Ok(())
}

pub fn run(run: &mut Run) {
    if !crate::props::calibration::ensure(run) {
        return;
    }
    let t = run.tier;
    let mut assets: Vec<String> = vec![
        "/repo/rustzx-core/src/emulator/snapshot/autoload/tape_48k.sna".into(),
        "/repo/rustzx-core/src/emulator/snapshot/autoload/tape_128k.sna".into(),
    ];
    if let Ok(rd) = std::fs::read_dir("/repo/rustzx-test/test_data") {
        let mut v: Vec<String> = rd.filter_map(|e| e.ok()).map(|e| e.path().to_string_lossy().to_string()).filter(|p| p.ends_with(".sna.gz")).collect();
        v.sort();
        assets.extend(v);
    }
    run.enumerate("repository-sna-assets", assets, true, check_asset);
    run.explore("load-direct-and-behaviour", t.pick(12_000, 400_000), case_strategy, check);
    run.explore(
        "devices-ay-mouse",
        t.pick(400, 12_000),
        || {
            (state_strategy(), prop_oneof![Just(Enc::SzxStored), Just(Enc::SzxZlib), Just(Enc::SzxFancy)], receiver_strategy(), 40u16..1500, 0u8..3, 0u8..3)
                .prop_map(|(st, enc, receiver, tone_period, channel, ay_off)| DevCase { st, enc, receiver, tone_period, channel, ay_off })
        },
        check_devices,
    );
    run.explore(
        "ay-envelope-restarts-on-load",
        t.pick(120, 4_000),
        || {
            (state_strategy(), prop_oneof![Just(Enc::SzxStored), Just(Enc::SzxZlib), Just(Enc::SzxFancy)], 150u16..1500, any::<u8>())
                .prop_map(|(st, enc, ep, shape)| EnvCase { st, enc, ep, shape })
        },
        check_envelope_restart,
    );
    run.explore(
        "encodings-equivalent",
        t.pick(500, 20_000),
        || (state_strategy(), 0u8..4, any::<u64>(), receiver_strategy()).prop_map(|(st, frames, layout_seed, dirty)| EqCase { st, frames, layout_seed, dirty }),
        check_equiv,
    );
    run.explore(
        "model-mismatch",
        t.pick(600, 10_000),
        || (state_strategy(), prop_oneof![Just(Enc::Sna), Just(Enc::SzxStored), Just(Enc::SzxZlib)]).prop_map(|(mut st, enc)| {
            st.halted = false;
            MismatchCase { st, enc }
        }),
        check_mismatch,
    );
    run.explore(
        "scr",
        t.pick(600, 10_000),
        || (prop_oneof![Just(Machine::K48), Just(Machine::K128)], 0u8..5, any::<u64>(), receiver_strategy()).prop_map(|(machine, kind, seed, receiver)| ScrCase { machine, kind, seed, receiver }),
        check_scr,
    );
}

pub fn replay(run: &mut Run, phase: &str, case: &serde_json::Value) -> Result<(), String> {
    match phase {
        "load-direct-and-behaviour" => run.replay_one::<Case, _>(phase, case, check),
        "devices-ay-mouse" => run.replay_one::<DevCase, _>(phase, case, check_devices),
        "ay-envelope-restarts-on-load" => run.replay_one::<EnvCase, _>(phase, case, check_envelope_restart),
        "encodings-equivalent" => run.replay_one::<EqCase, _>(phase, case, check_equiv),
        "model-mismatch" => run.replay_one::<MismatchCase, _>(phase, case, check_mismatch),
        "scr" => run.replay_one::<ScrCase, _>(phase, case, check_scr),
        "repository-sna-assets" => run.replay_one::<String, _>(phase, case, check_asset),
        _ => Err(format!("unknown phase {}", phase)),
    }
}

pub const LEVEL: &str = "exploration";
pub const RULE: &str = "abstract machine states (registers, IFF1/IFF2, IM, HALTED, EILAST, MEMPTR, frame cycle counter, border, 128K latch incl. lock and shadow screen, RAM pattern + sparse edits, AY registers + selected register, mouse presence) are encoded by the harness' own writers as SNA, SZX with stored pages, SZX with zlib pages, and 'fancy' SZX (permuted chunk order, unknown and zero-length chunks, lower-case ids, mixed compression, reversed page order) and loaded into receivers in prior states {fresh, dirty after a scrambling program, halted, mid FD-chain, paging locked, EI pending}. Phases: (1) direct comparison of registers, every RAM page, CPU view, latch+lock, border, frame clock, MEMPTR, then 12 instructions in lock-step with the reference machine started from the described state (EILAST / interrupt arrival), or for HALTED: PC never leaves the HALT; (2) AY read-back through the ports and the audible tone (zero-crossing frequency of the 12 frames after loading), mouse presence; (3) the four encodings of one state, loaded into fresh and dirty receivers and run for 1..4 frames, must give identical state hashes; (4) 48K file into 128K machine and vice versa: Err, or Ok with the CPU seeing exactly the file's RAM, never a panic; (5) SCR. non-trivial = file using a compressed page, permuted order, unknown chunk, HALTED, EILAST, lock bit, shadow screen or a non-fresh receiver; distinct = hash of the case ay-envelope-restarts-on-load: a SZX that puts all AY channels on a one-shot envelope is loaded into a fresh machine and into a machine that loaded the same file 41 frames earlier (envelope run out, silent): the peak level of the six frames after the load must be comparable (>= 50 %) — the file's R13 starts its envelope whatever the receiver held.";
pub const ASSUMPTIONS: &[&str] = &[
    "every file is delivered either all at once or in short reads of 1/7/100/4096 bytes (chosen by a hash of the file), in every phase",
    "only files a conforming reader must accept are generated (malformed input is C15's domain): IM 0..2, border 0..7 with chFe low bits equal to it, cycle counter below the frame length, 16384-byte pages valid for the model, one Z80R and one SPCR chunk, HALTED and EILAST never both set",
    "HALTED + PC is judged convention-independently (HALT bytes on both candidate addresses); chKeyboardJoystick is not judged",
    "a SNA does not carry the frame position, so SNA-loaded machines are compared for behaviour only from fresh receivers",
    "reference machine trusted (calibration, C04/C05); the harness' SNA/SZX writers were validated against the repository's own asset files",
];
