//! C13 — SNA save then load restores the machine; saving is side-effect free.

use crate::driver::{fnv, Rec, Run};
use crate::e1::{set_ref, CpuState};
use crate::e2::RefMachine;
use crate::formats::sna;
use crate::host::{mk_emu, Emu, EmuOpts, Machine, MemAsset};
use crate::mach::{self, MemModel, RegFile};
use crate::props::c01::regs_strategy;
use proptest::prelude::*;
use rustzx_core::{
    error::IoError,
    host::{DataRecorder, Snapshot, SnapshotRecorder},
};
use serde::{Deserialize, Serialize};

pub struct VecRecorder<'a>(pub &'a mut Vec<u8>);
impl<'a> DataRecorder for VecRecorder<'a> {
    fn write(&mut self, buf: &[u8]) -> Result<usize, IoError> {
        self.0.extend_from_slice(buf);
        Ok(buf.len())
    }
}

/// recorder that takes at most `max` bytes per call (a legitimate DataRecorder: `write` returns
/// the count it took)
pub struct ShortRecorder<'a> {
    pub out: &'a mut Vec<u8>,
    pub max: usize,
}
impl<'a> DataRecorder for ShortRecorder<'a> {
    fn write(&mut self, buf: &[u8]) -> Result<usize, IoError> {
        let n = buf.len().min(self.max.max(1));
        self.out.extend_from_slice(&buf[..n]);
        Ok(n)
    }
}

/// recorder that accepts `limit` bytes and then refuses (Ok(0)) or fails (Err)
pub struct FailingRecorder {
    pub taken: usize,
    pub limit: usize,
    pub hard_error: bool,
}
impl DataRecorder for FailingRecorder {
    fn write(&mut self, buf: &[u8]) -> Result<usize, IoError> {
        if self.taken >= self.limit {
            return if self.hard_error { Err(IoError::HostAssetImplFailed) } else { Ok(0) };
        }
        let n = buf.len().min(self.limit - self.taken);
        self.taken += n;
        Ok(n)
    }
}

#[derive(Clone, Copy, Debug, PartialEq, Eq, Serialize, Deserialize)]
pub enum Receiver {
    /// the same emulator, after running a scrambling program for some frames
    SameAfterScramble(u8),
    Fresh,
    Halted,
    MidPrefixChain,
    PagingLocked,
    EiPending,
    /// a fresh machine stopped by a breakpoint after this many instructions of an idle loop:
    /// somewhere inside a frame (x 12 T-states)
    MidFrame(u16),
}

#[derive(Clone, Debug, Serialize, Deserialize)]
pub struct Case {
    pub machine: Machine,
    pub regs: RegFile,
    pub border: u8,
    pub latch: u8,
    pub ram_seed: u64,
    pub edits: Vec<(u8, u16, u8)>,
    pub receiver: Receiver,
    /// the saved machine is halted (HALT at PC executed before the snapshot is taken)
    #[serde(default)]
    pub saved_halted: bool,
    /// the host's recorder refuses data after this many bytes (Ok(0) for even, Err for odd
    /// values): save_snapshot fails and the running machine must be as it was
    #[serde(default)]
    pub recorder_fails_after: Option<u32>,
    /// behaviour step: INT is already active when the loaded machine starts (frame clock 4)
    /// instead of arriving 30 T-states later
    #[serde(default)]
    pub int_active_at_load: bool,
}

/// code placed at PC in the saved state: exercises HL (so a leaked DD prefix shows), the stack,
/// and runs long enough for the next frame interrupt to arrive
pub const CODE: [u8; 16] = [0x23, 0x2B, 0x24, 0xE5, 0xE1, 0x7C, 0x3C, 0x00, 0x04, 0x0C, 0x00, 0x00, 0x00, 0x00, 0x18, 0xF0];

fn fill(seed: u64, bank: usize) -> Vec<u8> {
    let mut x = (seed ^ ((bank as u64 + 11).wrapping_mul(0x9E3779B97F4A7C15))) | 1;
    let mut v = vec![0u8; mach::PAGE];
    for chunk in v.chunks_mut(8) {
        x ^= x << 13;
        x ^= x >> 7;
        x ^= x << 17;
        chunk.copy_from_slice(&x.to_le_bytes());
    }
    v
}

pub fn set_border(e: &mut Emu, machine: Machine, colour: u8) -> Result<(), String> {
    // OUT (0xFE),A executed from a scratch location at 0x8000, RAM restored afterwards
    let page_no = if machine == Machine::K48 { 1 } else { 2 };
    let saved: Vec<u8> = e.verif_ram_page(page_no)[0..2].to_vec();
    e.verif_ram_page_mut(page_no)[0..2].copy_from_slice(&[0xD3, 0xFE]);
    let r = RegFile { pc: 0x8000, sp: 0x9000, af: (colour as u16) << 8, ..Default::default() };
    mach::set_regs(e, &r);
    mach::step_over(e, 2)?;
    e.verif_ram_page_mut(page_no)[0..2].copy_from_slice(&saved);
    Ok(())
}

pub struct Saved {
    pub regs: RegFile,
    pub border: u8,
    pub latch: u8,
    pub locked: bool,
    pub ram: Vec<Vec<u8>>,
}

pub fn read_state(e: &mut Emu, machine: Machine) -> Saved {
    let regs = mach::get_regs(e);
    let (latch, enabled, _) = e.verif_paging();
    Saved {
        regs,
        border: e.border_color().into(),
        latch,
        locked: machine == Machine::K128 && !enabled,
        ram: (0..machine.ram_banks()).map(|b| e.verif_ram_page(b).to_vec()).collect(),
    }
}

/// Builds the machine state of the case in a fresh emulator.
pub fn build(c: &Case) -> Result<(Emu, MemModel), String> {
    let machine = c.machine;
    let mut e = mk_emu(&EmuOpts::new(machine));
    let mut mm = MemModel::new(machine, mach::rom_images(machine));
    set_border(&mut e, machine, c.border & 7)?;
    for b in 0..machine.ram_banks() {
        let p = fill(c.ram_seed, b as usize);
        e.verif_ram_page_mut(b).copy_from_slice(&p);
        mm.ram[b as usize] = p;
    }
    for (b, off, v) in &c.edits {
        let b = b % machine.ram_banks();
        e.verif_ram_page_mut(b)[(*off & 0x3FFF) as usize] = *v;
        mm.ram[b as usize][(*off & 0x3FFF) as usize] = *v;
    }
    if machine == Machine::K128 {
        e.verif_set_paging(c.latch);
        mm.latch = c.latch;
        mm.locked = c.latch & 0x20 != 0;
    }
    // code at PC (PC is forced into plain RAM at 0x8000..0xBF00 by the generator)
    mach::poke_bytes(&mut e, &mut mm, c.regs.pc, &CODE);
    if c.regs.im % 3 == 2 {
        // IM 2 vector -> a NOP inside the code block (ignored where the table lies in ROM)
        let v = ((c.regs.i as u16) << 8) | 0xFF;
        let target = c.regs.pc.wrapping_add(10);
        mach::poke(&mut e, &mut mm, v, target as u8);
        mach::poke(&mut e, &mut mm, v.wrapping_add(1), (target >> 8) as u8);
    }
    // a machine whose latch is locked has usually seen further paging writes since (all ignored):
    // what it saves is the latch the hardware holds, not the last value written to the port
    if machine == Machine::K128 && c.latch & 0x20 != 0 && c.ram_seed % 2 == 0 {
        let v = (c.ram_seed >> 8) as u8;
        let page_no = 2usize;
        let saved: Vec<u8> = e.verif_ram_page(2)[0..7].to_vec();
        e.verif_ram_page_mut(page_no as u8)[0..7].copy_from_slice(&[0x01, 0xFD, 0x7F, 0x3E, v, 0xED, 0x79]);
        mach::set_regs(&mut e, &RegFile { pc: 0x8000, sp: 0x9000, ..Default::default() });
        mach::step_over(&mut e, 3)?;
        mach::step_over(&mut e, 2)?;
        mach::step_over(&mut e, 2)?;
        e.verif_ram_page_mut(page_no as u8)[0..7].copy_from_slice(&saved);
    }
    e.verif_refresh_memory_dependent_devices();
    mach::set_regs(&mut e, &c.regs);
    Ok((e, mm))
}

fn prepare_receiver(c: &Case, same: Option<Emu>) -> Result<Emu, String> {
    let machine = c.machine;
    match c.receiver {
        Receiver::SameAfterScramble(frames) => {
            let mut e = same.unwrap();
            // scrambling program: fill memory and registers with junk, change border, page banks
            let prog: Vec<u8> = vec![
                0xF3, 0x31, 0x00, 0xBF, // DI ; LD SP,0xBF00
                0x3E, 0x05, 0xD3, 0xFE, // border
                0x21, 0x00, 0x40, 0x11, 0x01, 0x40, 0x01, 0xFF, 0x3F, 0x36, 0xA5, 0xED, 0xB0, // fill 0x4000..0x7FFF
                0x21, 0x00, 0xC0, 0x11, 0x01, 0xC0, 0x01, 0xFF, 0x3F, 0x36, 0x5A, 0xED, 0xB0, // fill 0xC000..0xFFFF
                0x08, 0xD9, 0x3C, 0x04, 0xDD, 0x23, 0xFD, 0x2B, 0xED, 0x4F, 0xED, 0x5E, // EX AF,AF' EXX INC.. LD R,A IM 2
                0x01, 0xFD, 0x7F, 0x3E, 0x03, 0xED, 0x79, // OUT (0x7FFD),3
                0x18, 0xFE,
            ];
            let page_no = if machine == Machine::K48 { 1 } else { 2 };
            e.verif_ram_page_mut(page_no)[0x100..0x100 + prog.len()].copy_from_slice(&prog);
            mach::set_regs(&mut e, &RegFile { pc: 0x8100, sp: 0xBF00, ..Default::default() });
            mach::run_frames(&mut e, frames as usize % 4 + 1)?;
            Ok(e)
        }
        _ => {
            let mut e = mk_emu(&EmuOpts::new(machine));
            let page_no = if machine == Machine::K48 { 1 } else { 2 };
            match c.receiver {
                Receiver::Halted => {
                    e.verif_ram_page_mut(page_no)[0] = 0x76;
                    mach::set_regs(&mut e, &RegFile { pc: 0x8000, sp: 0xBF00, ..Default::default() });
                    mach::single_step(&mut e)?;
                    if !e.verif_cpu().halted {
                        return Err("harness: receiver did not halt".into());
                    }
                }
                Receiver::MidPrefixChain => {
                    e.verif_ram_page_mut(page_no)[0..4].copy_from_slice(&[0xDD, 0xDD, 0xDD, 0xDD]);
                    mach::set_regs(&mut e, &RegFile { pc: 0x8000, sp: 0xBF00, ..Default::default() });
                    mach::single_step(&mut e)?;
                }
                Receiver::PagingLocked => {
                    if machine == Machine::K128 {
                        e.verif_set_paging(0x20 | 0x03);
                    }
                    set_border(&mut e, machine, 6)?;
                    if machine == Machine::K128 {
                        e.verif_set_paging(0x20 | 0x03);
                    }
                }
                Receiver::MidFrame(n) => {
                    e.verif_ram_page_mut(page_no)[0..3].copy_from_slice(&[0xF3, 0x18, 0xFE]);
                    mach::set_regs(&mut e, &RegFile { pc: 0x8000, sp: 0xBF00, ..Default::default() });
                    e.debug_interface().unwrap().mode = crate::host::BpMode::AfterCalls(n as u64 + 1);
                    let _ = e.emulate_frames(crate::host::LONG);
                    e.debug_interface().unwrap().mode = crate::host::BpMode::Never;
                }
                Receiver::EiPending => {
                    e.verif_ram_page_mut(page_no)[0] = 0xFB;
                    mach::set_regs(&mut e, &RegFile { pc: 0x8000, sp: 0xBF00, ..Default::default() });
                    mach::single_step(&mut e)?;
                }
                _ => {}
            }
            Ok(e)
        }
    }
}

pub fn check(c: &Case, rec: &mut Rec) -> Result<(), String> {
    let machine = c.machine;
    if machine == Machine::K48 {
        // format keeps PC on the stack: the proviso of the property
        let a = c.regs.sp.wrapping_sub(1);
        let b = c.regs.sp.wrapping_sub(2);
        if a < 0x4000 || b < 0x4000 {
            rec.class("skipped:48k-stack-in-rom");
            return Ok(());
        }
    }
    let (mut e, mut mm) = build(c)?;
    if c.saved_halted {
        mach::poke(&mut e, &mut mm, c.regs.pc, 0x76);
        e.verif_set_frame_clocks(20_000);
        mach::single_step(&mut e)?;
        if !e.verif_cpu().halted {
            return Err("harness: the machine to be saved did not halt".into());
        }
        rec.class("saved-machine-halted");
    }
    let before = read_state(&mut e, machine);
    // the hidden MEMPTR register belongs to the running machine as well (the next BIT n,(HL) shows it)
    let memptr_before = (c.ram_seed >> 20) as u16;
    e.verif_cpu().regs.set_mem_ptr(memptr_before);
    if let Some(n) = c.recorder_fails_after {
        // a save that fails half-way must leave the running machine as it was, too
        let limit = n as usize % 49_000;
        let r = e.save_snapshot(SnapshotRecorder::Sna(FailingRecorder { taken: 0, limit, hard_error: n % 2 == 1 }));
        rec.eval();
        if r.is_ok() {
            return Err(format!("save_snapshot returned Ok although the recorder took only {} bytes", limit));
        }
        let after = read_state(&mut e, machine);
        if after.regs != before.regs || after.latch != before.latch || after.locked != before.locked || after.border != before.border {
            return Err(format!(
                "save_snapshot failed (recorder refused data after {} bytes) and left the running machine changed: registers before {:x?}, after {:x?}",
                limit, before.regs, after.regs
            ));
        }
        for b in 0..machine.ram_banks() as usize {
            if after.ram[b] != before.ram[b] {
                let pos = after.ram[b].iter().zip(before.ram[b].iter()).position(|(x, y)| x != y).unwrap();
                return Err(format!(
                    "save_snapshot failed (recorder refused data after {} bytes) and left memory changed: RAM bank {} offset {:#06x} was {:#04x}, now {:#04x} (SP = {:#06x}, PC = {:#06x})",
                    limit, b, pos, before.ram[b][pos], after.ram[b][pos], before.regs.sp, before.regs.pc
                ));
            }
        }
        rec.class("failed-save-is-side-effect-free");
    }
    // (a) save
    let mut file = Vec::new();
    // the host's recorder takes everything at once, or only a few bytes per call
    let short = [0usize, 0, 1, 5, 1000, 16383][(c.ram_seed >> 40) as usize % 6];
    if short == 0 {
        e.save_snapshot(SnapshotRecorder::Sna(VecRecorder(&mut file))).map_err(|x| format!("save_snapshot failed: {:?}", x))?;
    } else {
        e.save_snapshot(SnapshotRecorder::Sna(ShortRecorder { out: &mut file, max: short })).map_err(|x| format!("save_snapshot into a recorder that takes {} bytes per call failed: {:?}", short, x))?;
        rec.class("recorder-with-short-writes");
    }
    rec.eval();
    let after = read_state(&mut e, machine);
    if after.regs != before.regs {
        return Err(format!("taking the snapshot changed the registers: before {:x?}, after {:x?}", before.regs, after.regs));
    }
    if e.verif_cpu().regs.get_mem_ptr() != memptr_before {
        return Err(format!("taking the snapshot changed the hidden MEMPTR register of the running machine: before {:#06x}, after {:#06x}", memptr_before, e.verif_cpu().regs.get_mem_ptr()));
    }
    if after.latch != before.latch || after.locked != before.locked || after.border != before.border {
        return Err("taking the snapshot changed paging or border".into());
    }
    for b in 0..machine.ram_banks() as usize {
        if after.ram[b] != before.ram[b] {
            let pos = after.ram[b].iter().zip(before.ram[b].iter()).position(|(x, y)| x != y).unwrap();
            return Err(format!(
                "taking the snapshot changed memory: RAM bank {} offset {:#06x} was {:#04x}, now {:#04x} (SP = {:#06x}, PC = {:#06x})",
                b, pos, before.ram[b][pos], after.ram[b][pos], before.regs.sp, before.regs.pc
            ));
        }
    }
    // the produced file, read by the harness' own parser, must describe that state
    let parsed = sna::parse(&file).map_err(|x| format!("saved file is not a valid SNA: {}", x))?;
    let mut want = before.regs.clone();
    want.iff1 = want.iff2; // the format carries IFF2 only
    let mut got = parsed.state.regs.clone();
    got.iff1 = got.iff2;
    if c.saved_halted {
        // which address stands for "halted at this HALT" is the implementation's convention; the
        // behaviour step below decides whether the restored machine is where the saved one was
        got.pc = want.pc;
    }
    if got != want {
        return Err(format!("saved file describes registers {:x?}, machine had {:x?}", got, want));
    }
    if parsed.state.border != before.border {
        return Err(format!("saved file has border {}, machine had {}", parsed.state.border, before.border));
    }
    if machine == Machine::K128 && parsed.state.latch != before.latch {
        return Err(format!("saved file has paging latch {:#04x}, machine had {:#04x}", parsed.state.latch, before.latch));
    }
    for b in 0..machine.ram_banks() as usize {
        let mut expect = before.ram[b].clone();
        if machine == Machine::K48 {
            // PC lives on the stack in the file (the file's own PC: see the note on halted machines)
            for (k, byte) in parsed.state.regs.pc.to_le_bytes().iter().enumerate() {
                let a = before.regs.sp.wrapping_sub(2).wrapping_add(k as u16);
                if a >= 0x4000 && (a as usize - 0x4000) / mach::PAGE == b {
                    expect[(a as usize - 0x4000) % mach::PAGE] = *byte;
                }
            }
        }
        if parsed.ram[b] != expect {
            let pos = parsed.ram[b].iter().zip(expect.iter()).position(|(x, y)| x != y).unwrap();
            return Err(format!("saved file: RAM bank {} offset {:#06x} is {:#04x}, machine had {:#04x}", b, pos, parsed.ram[b][pos], expect[pos]));
        }
    }
    // (b) load into the receiver
    let mut r = match c.receiver {
        Receiver::SameAfterScramble(_) => prepare_receiver(c, Some(e))?,
        _ => prepare_receiver(c, None)?,
    };
    r.load_snapshot(Snapshot::Sna(MemAsset::new(file.clone()))).map_err(|x| format!("load_snapshot of the saved file failed: {:?}", x))?;
    rec.eval();
    let loaded = read_state(&mut r, machine);
    let mut lw = before.regs.clone();
    lw.iff1 = lw.iff2;
    let mut lg = loaded.regs.clone();
    lg.iff1 = lg.iff2;
    if c.saved_halted {
        lg.pc = lw.pc;
    }
    if lg != lw {
        return Err(format!("after save+load (receiver {:?}) registers are {:x?}, saved state had {:x?}", c.receiver, lg, lw));
    }
    if loaded.border != before.border {
        return Err(format!("after save+load (receiver {:?}) border is {}, saved {}", c.receiver, loaded.border, before.border));
    }
    if machine == Machine::K128 && (loaded.latch != before.latch || loaded.locked != before.locked) {
        return Err(format!(
            "after save+load (receiver {:?}) paging latch is {:#04x} locked={}, saved state had {:#04x} locked={}",
            c.receiver, loaded.latch, loaded.locked, before.latch, before.locked
        ));
    }
    for b in 0..machine.ram_banks() as usize {
        if loaded.ram[b] != before.ram[b] {
            let pos = loaded.ram[b].iter().zip(before.ram[b].iter()).position(|(x, y)| x != y).unwrap();
            // 48K: the two bytes below SP are allowed to hold PC (format)
            let a = 0x4000usize + b * mach::PAGE + pos;
            let below_sp = machine == Machine::K48 && (a as u16 == before.regs.sp.wrapping_sub(1) || a as u16 == before.regs.sp.wrapping_sub(2));
            if !below_sp {
                return Err(format!(
                    "after save+load (receiver {:?}) RAM bank {} offset {:#06x} is {:#04x}, saved state had {:#04x}",
                    c.receiver, b, pos, loaded.ram[b][pos], before.ram[b][pos]
                ));
            }
        }
    }
    // CPU-visible state: all 64K through peek
    let mut mm2 = mm.clone();
    for a in 0..=0xFFFFu16 {
        let want = mm2.read(a);
        let got = r.peek(a);
        if got != want {
            let below_sp = machine == Machine::K48 && (a == before.regs.sp.wrapping_sub(1) || a == before.regs.sp.wrapping_sub(2));
            if !below_sp {
                return Err(format!("after save+load (receiver {:?}) the CPU sees {:#04x} at {:#06x}, saved state had {:#04x}", c.receiver, got, a, want));
            }
            mm2.write(a, got);
        }
    }
    // (c) behaviour: the next instructions, with an interrupt on the way, match the reference
    // machine started from the saved state (catches leaked halted / prefix / EI-pending state)
    let frame_len = machine.frame_len() as u64;
    // (a halted machine cannot be told from one about to execute the HALT once it is in a SNA; the two
    // differ only if an interrupt is accepted before that HALT executes, so INT arrives later here)
    let int_now = c.int_active_at_load && !c.saved_halted;
    let t0 = if int_now { 4 } else { frame_len - 30 };
    r.verif_set_frame_clocks(t0 as usize);
    let mut m = RefMachine::new(mm2);
    set_ref(&mut m.cpu, &CpuState { regs: lw.clone(), memptr: 0, q_is_f: false, halted: c.saved_halted, no_int: false });
    if int_now {
        rec.class("int-active-when-the-loaded-machine-starts");
    }
    m.cpu.iff1 = lw.iff2;
    m.bus.t = t0;
    let tb = crate::e2::TimeBase::new(&r, machine);
    {
        let cpu = r.verif_cpu();
        cpu.regs.set_mem_ptr(0);
        cpu.regs.clear_q();
    }
    if machine == Machine::K128 {
        // ROM bytes executed by an interrupt handler are the real ROM's; keep the run short
    }
    let v = ((lw.i as u16) << 8) | 0xFF;
    let im2_vector_in_rom = lw.im % 3 == 2 && (v < 0x4000 || v.wrapping_add(1) < 0x4000);
    let steps = if im2_vector_in_rom {
        rec.class("behaviour-check-skipped:im2-vector-in-rom");
        0
    } else {
        10
    };
    for k in 0..steps {
        // stay out of ROM handlers: stop the comparison when the model enters the ROM
        if m.cpu.pc < 0x4000 {
            break;
        }
        m.lockstep(&mut r, &tb)?;
        let got = mach::get_regs(&mut r);
        let want = crate::e1::get_ref_regs(&m.cpu);
        if got != want {
            return Err(format!(
                "instruction {} after save+load (receiver {:?}): emulator {:x?}, a machine continuing from the saved state {:x?}",
                k, c.receiver, got, want
            ));
        }
        rec.eval();
    }
    // (d) second generation: the restored machine, a few instructions later, is saved again and
    // that file restored into a fresh emulator (a save from a machine that was itself restored)
    if steps > 0 {
        let s2 = read_state(&mut r, machine);
        let stack_in_ram = machine != Machine::K48 || (s2.regs.sp.wrapping_sub(1) >= 0x4000 && s2.regs.sp.wrapping_sub(2) >= 0x4000);
        if stack_in_ram && !r.verif_cpu().halted {
            let mut file2 = Vec::new();
            r.save_snapshot(SnapshotRecorder::Sna(VecRecorder(&mut file2))).map_err(|x| format!("second save_snapshot failed: {:?}", x))?;
            let s2_after = read_state(&mut r, machine);
            if s2_after.regs != s2.regs || s2_after.ram != s2.ram || s2_after.latch != s2.latch || s2_after.border != s2.border {
                return Err("second generation: taking the snapshot changed the restored machine".into());
            }
            let mut f = mk_emu(&EmuOpts::new(machine));
            f.load_snapshot(Snapshot::Sna(MemAsset::new(file2))).map_err(|x| format!("second generation: load_snapshot of the file saved by the restored machine failed: {:?}", x))?;
            rec.eval();
            let l2 = read_state(&mut f, machine);
            let mut w = s2.regs.clone();
            w.iff1 = w.iff2;
            let mut g = l2.regs.clone();
            g.iff1 = g.iff2;
            if g != w {
                return Err(format!("second generation (save from the restored machine, load into a fresh one): registers {:x?}, saved state had {:x?}", g, w));
            }
            if l2.border != s2.border || (machine == Machine::K128 && (l2.latch != s2.latch || l2.locked != s2.locked)) {
                return Err(format!(
                    "second generation: border/latch after load {} / {:#04x} locked={}, saved state had {} / {:#04x} locked={}",
                    l2.border, l2.latch, l2.locked, s2.border, s2.latch, s2.locked
                ));
            }
            for b in 0..machine.ram_banks() as usize {
                if l2.ram[b] != s2.ram[b] {
                    let pos = l2.ram[b].iter().zip(s2.ram[b].iter()).position(|(x, y)| x != y).unwrap();
                    let a = 0x4000usize + b * mach::PAGE + pos;
                    let below_sp = machine == Machine::K48 && (a as u16 == s2.regs.sp.wrapping_sub(1) || a as u16 == s2.regs.sp.wrapping_sub(2));
                    if !below_sp {
                        return Err(format!("second generation: RAM bank {} offset {:#06x} is {:#04x}, saved state had {:#04x}", b, pos, l2.ram[b][pos], s2.ram[b][pos]));
                    }
                }
            }
            rec.class("second-generation-round-trip");
        }
    }
    let alt_differs = c.regs.af != c.regs.af_ || c.regs.bc != c.regs.bc_ || c.regs.hl != c.regs.hl_;
    if alt_differs && c.edits.len() >= 2 && c.receiver != Receiver::Fresh {
        rec.nontrivial(fnv(format!("{:?}", c).as_bytes()));
    }
    rec.class(&format!("receiver:{:?}", c.receiver).replace(|ch: char| ch == '(' || ch == ')', "-"));
    rec.class(if machine == Machine::K48 { "48k" } else { "128k" });
    if machine == Machine::K128 {
        if c.latch & 0x20 != 0 {
            rec.class("latch:locked");
        }
        if matches!(c.latch & 7, 2 | 5) {
            rec.class("latch:bank-5-or-2-at-c000");
        }
    }
    Ok(())
}

pub fn case_strategy() -> impl Strategy<Value = Case> {
    (
        prop_oneof![Just(Machine::K48), Just(Machine::K128)],
        regs_strategy(),
        0u8..8,
        any::<u8>(),
        any::<u64>(),
        proptest::collection::vec((0u8..8, any::<u16>(), any::<u8>()), 0..=12),
        prop_oneof![
            (0u8..4).prop_map(Receiver::SameAfterScramble),
            Just(Receiver::Fresh),
            Just(Receiver::Halted),
            Just(Receiver::MidPrefixChain),
            Just(Receiver::PagingLocked),
            Just(Receiver::EiPending),
            (0u16..17000).prop_map(Receiver::MidFrame),
        ],
        0x8000u16..0xBE00,
        // SP around the 16 KiB page boundaries (the 48K format keeps PC in the two bytes below SP)
        prop_oneof![
            3 => Just(None),
            1 => prop_oneof![Just(0x4002u16), Just(0x4003), Just(0x8000), Just(0x8001), Just(0x8002), Just(0xC000), Just(0xC001), Just(0xC002), Just(0x0000), Just(0xFFFF)].prop_map(Some),
        ],
    )
        .prop_map(|(machine, mut regs, border, latch, ram_seed, edits, receiver, pc, sp_edge)| {
            regs.pc = pc;
            if let Some(sp) = sp_edge {
                regs.sp = sp;
            }
            // stack must not overlap the code at PC
            if regs.sp.wrapping_sub(pc) < 40 || pc.wrapping_sub(regs.sp) < 8 {
                regs.sp = pc.wrapping_add(0x200);
            }
            let saved_halted = ram_seed % 7 == 0;
            let recorder_fails_after = if ram_seed % 5 == 1 { Some((ram_seed >> 16) as u32) } else { None };
            let int_active_at_load = ram_seed % 3 == 0;
            Case { machine, regs, border, latch, ram_seed, edits, receiver, saved_halted, recorder_fails_after, int_active_at_load }
        })
}

pub fn run(run: &mut Run) {
    if !crate::props::calibration::ensure(run) {
        return;
    }
    let t = run.tier;
    run.explore("round-trip", t.pick(40_000, 1_000_000), case_strategy, check);
}

pub fn replay(run: &mut Run, phase: &str, case: &serde_json::Value) -> Result<(), String> {
    run.replay_one::<Case, _>(phase, case, check)
}

pub const LEVEL: &str = "exploration";
pub const RULE: &str = "case = machine x arbitrary register file (alternates, I, R, IM, IFF1/IFF2) x border x 128K latch (all 256 values incl. lock, bank 5/2 paged at 0xC000; half of the locked machines have seen a further, ignored, paging write) x RAM contents (seeded pattern + sparse edits in every bank) x SP anywhere (a quarter of the cases at a 16 KiB page boundary +-2, so that the two bytes below SP lie in different pages) x receiver in {same emulator after 1..4 frames of a scrambling program, fresh, halted, stopped mid DD-chain, paging locked + other border, EI pending, stopped by a breakpoint somewhere inside a frame}. A seventh of the saved machines are halted; the host's recorder takes the file all at once or 1/5/1000/16383 bytes per call; in a fifth of the cases the host's recorder first refuses data after a generated number of bytes (the failed save must leave the machine as it was). Checked: (a) registers, every RAM bank, latch and border read through hooks are identical before and after save_snapshot, and the produced file parsed by the harness' own SNA parser describes that state; (b) after load_snapshot of the produced file every carried item, the latch with its lock, every RAM byte and all 65536 CPU-visible bytes equal the saved state; (c) the next 10 instructions, with the frame interrupt arriving on the way (or, in a third of the cases, already active when the loaded machine starts), match the reference machine continuing from the saved state; (d) the restored machine is then saved again and that file loaded into a fresh emulator must give the state it had (second generation). non-trivial = alternate set differs from main set, >= 2 RAM edits, receiver not fresh; distinct = hash of the case";
pub const ASSUMPTIONS: &[&str] = &[
    "48K proviso of the property (two bytes below SP are RAM) is a generator-side skip, counted; on the 48K the two bytes below SP may hold PC after a load (format)",
    "IFF1 is not carried by the format: only IFF2 is compared",
    "reference machine trusted (calibration, C04/C05)",
];
