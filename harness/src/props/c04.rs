//! C04 — ULA memory and I/O contention delays match the 48K/128K contention model.

use crate::driver::{fnv, Rec, Run};
use crate::e1::{set_ref, CpuState};
use crate::e2::{contention_delay, RefMachine};
use crate::host::{mk_emu, Emu, EmuOpts, Machine};
use crate::mach::{self, MemModel, RegFile};
use crate::props::c01::{encode, table_name, TABLES};
use proptest::prelude::*;
use refz80::StepKind;
use serde::{Deserialize, Serialize};

#[derive(Clone, Debug, Serialize, Deserialize)]
pub struct Sub {
    pub table: u8,
    pub op: u8,
    pub operands: [u8; 3],
    pub regs: RegFile,
    pub start_t: u32,
    pub latch: u8,
    /// 128K: the latch is set by a real OUT (C),A executed by the emulated CPU (the path programs
    /// use) instead of the paging hook
    #[serde(default)]
    pub by_out: bool,
    /// with `by_out`: the program writes `latch | 0x20` (locking the latch) and then this value,
    /// which the locked latch must ignore — the mapping and what is contended stay as locked
    #[serde(default)]
    pub ignored_after_lock: Option<u8>,
}

#[derive(Clone, Debug, Serialize, Deserialize)]
pub struct Case {
    pub machine: Machine,
    pub ram_seed: u64,
    pub subs: Vec<Sub>,
    /// host I/O extender claiming the ports with port & mask == value: port cycles to a claimed
    /// port follow the same ULA patterns as any other
    #[serde(default)]
    pub ext: Option<(u16, u16)>,
}

fn fill(seed: u64, bank: usize) -> Vec<u8> {
    let mut x = (seed ^ ((bank as u64 + 1).wrapping_mul(0x9E3779B97F4A7C15))) | 1;
    let mut v = vec![0u8; mach::PAGE];
    for chunk in v.chunks_mut(8) {
        x ^= x << 13;
        x ^= x >> 7;
        x ^= x << 17;
        chunk.copy_from_slice(&x.to_le_bytes());
    }
    v
}

struct Ctx {
    e: Emu,
    m: RefMachine,
    ext: Option<(u16, u16)>,
}

fn mk(c: &Case) -> Ctx {
    let mut e = mk_emu(&EmuOpts::new(c.machine));
    let mut mem = MemModel::new(c.machine, mach::rom_images(c.machine));
    for b in 0..c.machine.ram_banks() {
        let p = fill(c.ram_seed, b as usize);
        e.verif_ram_page_mut(b).copy_from_slice(&p);
        mem.ram[b as usize] = p;
    }
    let mut m = RefMachine::new(mem);
    m.bus.judge_ay = false;
    if let Some((mask, value)) = c.ext {
        e.set_io_extender(crate::host::LoggingExtender::new(vec![(mask, value)], 0x5A));
        m.bus.ext = Some((vec![(mask, value)], 0x5A));
    }
    Ctx { e, m, ext: c.ext }
}

fn is_prefix(b: u8) -> bool {
    matches!(b, 0xDD | 0xFD | 0xED | 0xCB)
}

fn run_sub(cx: &mut Ctx, machine: Machine, s: &Sub, rec: &mut Rec) -> Result<(), String> {
    let table = TABLES[s.table as usize % 7];
    if matches!(table, refz80::Table::DD | refz80::Table::FD) && is_prefix(s.op) {
        return Ok(());
    }
    let frame_len = machine.frame_len() as u64;
    let start_t = s.start_t as u64 % frame_len;
    // paging
    if machine == Machine::K128 {
        let latch = s.latch & !0x20;
        // (an extender that claims 0x7FFD would swallow the paging write: use the hook then)
        let paging_port_claimed = cx.ext.map(|(m, v)| 0x7FFDu16 & m == v).unwrap_or(false);
        if s.by_out && !paging_port_claimed {
            // LD BC,0x7FFD ; LD A,latch ; OUT (C),A from bank 2 (never contended, always at 0x8000)
            cx.e.verif_set_paging(0);
            cx.m.bus.mem.latch = 0;
            cx.m.bus.mem.locked = false;
            let first = if s.ignored_after_lock.is_some() { latch | 0x20 } else { latch };
            let second = s.ignored_after_lock.unwrap_or(first);
            mach::poke_bytes(&mut cx.e, &mut cx.m.bus.mem, 0x8000, &[0x01, 0xFD, 0x7F, 0x3E, first, 0xED, 0x79, 0x3E, second, 0xED, 0x79]);
            mach::set_regs(&mut cx.e, &RegFile { pc: 0x8000, sp: 0xBF00, ..Default::default() });
            {
                let cpu = cx.e.verif_cpu();
                cpu.halted = false;
                cpu.skip_interrupt = false;
            }
            cx.e.verif_set_frame_clocks(100);
            mach::step_over(&mut cx.e, 3)?;
            mach::step_over(&mut cx.e, 2)?;
            mach::step_over(&mut cx.e, 2)?;
            mach::step_over(&mut cx.e, 2)?;
            mach::step_over(&mut cx.e, 2)?;
            rec.class("latch-set-by-real-OUT");
            if s.ignored_after_lock.is_some() {
                rec.class("latch-locked-then-ignored-write");
            }
            cx.m.bus.mem.latch = first;
            cx.m.bus.mem.locked = first & 0x20 != 0;
        } else {
            cx.e.verif_set_paging(latch);
            cx.m.bus.mem.latch = latch;
            cx.m.bus.mem.locked = false;
        }
    }
    // instruction bytes (ROM cannot be written: then whatever is there executes — still a valid case)
    let bytes = encode(table, s.op, s.operands);
    let pc = s.regs.pc;
    for (i, b) in bytes.iter().enumerate() {
        mach::poke(&mut cx.e, &mut cx.m.bus.mem, pc.wrapping_add(i as u16), *b);
    }
    let mut regs = s.regs.clone();
    regs.iff1 = false;
    regs.iff2 = false;
    mach::set_regs(&mut cx.e, &regs);
    {
        let cpu = cx.e.verif_cpu();
        cpu.halted = false;
        cpu.skip_interrupt = false;
        cpu.regs.set_mem_ptr(0);
        cpu.regs.clear_q();
    }
    set_ref(
        &mut cx.m.cpu,
        &CpuState {
            regs: regs.clone(),
            memptr: 0,
            q_is_f: false,
            halted: false,
            no_int: false,
        },
    );
    cx.e.verif_set_frame_clocks(start_t as usize);
    cx.m.bus.t = start_t;
    cx.m.bus.contention_total = 0;
    cx.m.bus.writes.clear();
    cx.m.bus.floating_reads = 0;
    let frames0 = cx.e.verif_total_frames();
    // what executes may differ from the generated bytes when PC points into ROM: decode from memory
    let first = cx.m.bus.mem.read(pc);
    let second = cx.m.bus.mem.read(pc.wrapping_add(1));
    if matches!(first, 0xDD | 0xFD) && matches!(second, 0xDD | 0xFD | 0xED) {
        // a prefix chain: the implementation splits it over several emulate() calls; skip
        rec.class("skipped:prefix-chain-in-rom");
        return Ok(());
    }
    // one emulate() on the emulator, the matching instruction on the reference
    mach::single_step(&mut cx.e)?;
    let info = cx.m.step_group();
    rec.eval();
    let tag = || {
        format!(
            "[{} {} {:#04x} bytes {:02x?} at pc {:#06x}, start T {}, latch {:#04x}, regs {:x?}]",
            if machine == Machine::K48 { "48K" } else { "128K" },
            table_name(table),
            s.op,
            bytes,
            pc,
            start_t,
            s.latch & !0x20,
            regs
        )
    };
    let tb = crate::e2::TimeBase { emu_frames0: frames0, frame_len };
    let want_t = cx.m.bus.t;
    let got_frames = cx.e.verif_total_frames() - frames0;
    let got_t = tb.emu_t(&cx.e);
    let timing_msg = format!(
        "{} instruction ended at T {} (frame clock {} after {} frame wraps), contention model says {} (uncontended {} + ULA delay {})",
        tag(),
        got_t,
        cx.e.verif_frame_clocks(),
        got_frames,
        want_t,
        want_t - start_t - cx.m.bus.contention_total,
        cx.m.bus.contention_total
    );
    let mut resynced = false;
    if got_t != want_t {
        // How emulate() groups prefix bytes / interrupt entry with the following instruction is
        // not part of the property: let the side that is behind step until both stand on a
        // common boundary. A real timing deviation cannot hide this way: the side that stepped
        // further has executed more, which the register comparison below sees.
        if cx.m.catch_up(&mut cx.e, &tb).is_err() {
            return Err(timing_msg);
        }
        resynced = true;
        rec.class("resynchronised-on-common-boundary");
    }
    let unjudged_data = cx.m.bus.floating_reads > 0;
    if !unjudged_data {
        let got = mach::get_regs(&mut cx.e);
        let want = crate::e1::get_ref_regs(&cx.m.cpu);
        if got != want {
            if resynced {
                return Err(timing_msg);
            }
            return Err(format!("{} registers after the instruction: emulator {:x?}, reference {:x?}", tag(), got, want));
        }
    } else if resynced {
        return Err(timing_msg);
    }
    let writes = std::mem::take(&mut cx.m.bus.writes);
    for a in writes {
        let got = cx.e.peek(a);
        if unjudged_data {
            // port data not modelled (floating bus / AY read-back): adopt the emulator's byte
            if let crate::mach::Pg::Ram(_) = cx.m.bus.mem.page_at(a) {
                cx.m.bus.mem.write(a, got);
            }
        } else if got != cx.m.bus.mem.read(a) {
            return Err(format!("{} memory at {:#06x}: emulator {:#04x}, reference {:#04x}", tag(), a, got, cx.m.bus.mem.read(a)));
        }
    }
    // OUT may have changed paging / AY in both; resynchronise the model's paging from the emulator
    if machine == Machine::K128 {
        let (latch, enabled, _) = cx.e.verif_paging();
        cx.m.bus.mem.latch = latch;
        cx.m.bus.mem.locked = !enabled;
    }
    if cx.m.bus.contention_total > 0 {
        rec.nontrivial(fnv(format!("{:?}{}{}{:?}{}", table, s.op, start_t, s.regs, s.latch).as_bytes()));
        rec.class(&format!("delayed:residue-{}", (start_t + frame_len - machine.t0() as u64) % 8));
        if cx.m.bus.mem.contended(pc) {
            rec.class("contended:code");
        }
        if cx.m.bus.mem.contended(regs.sp) || cx.m.bus.mem.contended(regs.sp.wrapping_sub(1)) {
            rec.class("contended:stack");
        }
        if cx.m.bus.mem.contended(regs.hl) {
            rec.class("contended:hl");
        }
        if cx.m.bus.mem.contended(((regs.i as u16) << 8) | regs.r as u16) {
            rec.class("contended:ir");
        }
    }
    if info.kind == StepKind::HaltCycle {
        rec.class("halt");
    }
    if got_frames > 0 {
        rec.class("crossed-frame-end");
    }
    // a halted CPU keeps fetching (and being delayed) at the HALT's address: two more halted
    // cycles, timed like the first
    if cx.m.cpu.halted && cx.e.verif_cpu().halted && !resynced {
        for n in 0..2 {
            mach::single_step(&mut cx.e)?;
            let c0 = cx.m.bus.contention_total;
            cx.m.step_group();
            rec.eval();
            let want_t = cx.m.bus.t;
            let got_t = tb.emu_t(&cx.e);
            if got_t != want_t {
                return Err(format!(
                    "{} halted cycle {} after the HALT: emulator stands at T {}, contention model at {} (ULA delay of that cycle: {})",
                    tag(), n + 2, got_t, want_t, cx.m.bus.contention_total - c0
                ));
            }
        }
        rec.class("halted-cycles-after-the-halt");
    }
    Ok(())
}

pub fn check(c: &Case, rec: &mut Rec) -> Result<(), String> {
    let mut cx = mk(c);
    for s in &c.subs {
        run_sub(&mut cx, c.machine, s, rec)?;
    }
    for (i, n) in cx.m.bus.io_pattern_hits.iter().enumerate() {
        rec.class_n(["io:N1-C3", "io:N4", "io:C1-C3", "io:C1x4"][i], *n);
    }
    rec.class(if c.machine == Machine::K48 { "48k" } else { "128k" });
    if c.ext.is_some() {
        rec.class("with-io-extender");
    }
    Ok(())
}

/// addresses placed deliberately in contended / uncontended memory
fn addr() -> impl Strategy<Value = u16> {
    prop_oneof![
        4 => (0x4000u16..0x8000),
        2 => (0xC000u16..=0xFFFF),
        2 => (0x8000u16..0xC000),
        1 => (0x0000u16..0x4000),
        1 => prop_oneof![Just(0x3FFFu16), Just(0x4000), Just(0x7FFF), Just(0x8000), Just(0xBFFF), Just(0xC000), Just(0xFFFF), Just(0x7FFE)],
    ]
}

fn start_t(machine: Machine) -> impl Strategy<Value = u32> {
    let t0 = machine.t0() as u32;
    let line = machine.line_len() as u32;
    let frame = machine.frame_len() as u32;
    prop_oneof![
        // inside the picture area, every residue mod 8 and the edges of the 128-T window
        5 => (0u32..192, prop_oneof![0u32..136, 120u32..136, 0u32..8]).prop_map(move |(l, x)| t0 + l * line + x),
        1 => (0u32..40).prop_map(move |x| t0 - 20 + x),
        1 => (0u32..300).prop_map(move |x| t0 + 191 * line + x),
        1 => (0u32..40).prop_map(move |x| frame - 40 + x),
        2 => 0u32..frame,
    ]
}

fn sub(machine: Machine) -> impl Strategy<Value = Sub> {
    (
        (0u8..7, any::<u8>(), proptest::array::uniform3(any::<u8>())),
        (addr(), addr(), addr(), addr(), addr(), addr(), addr()),
        (any::<u16>(), any::<u16>(), any::<u16>(), any::<u16>(), any::<u16>()),
        (prop_oneof![Just(0x40u8), Just(0x7F), Just(0x00), Just(0xC0), any::<u8>()], any::<u8>(), 0u8..3),
        (start_t(machine), any::<bool>(), prop_oneof![2 => Just(None), 1 => any::<u8>().prop_map(Some)]),
        any::<u8>(),
        // counters small so block repeats happen
        prop_oneof![3 => Just(None), 1 => (0u16..3).prop_map(Some)],
    )
        .prop_map(move |((table, op, operands), (pc, sp, hl, bc, de, ix, iy), (af, af_, bc_, de_, hl_), (i, r, im), (start_t, by_out, ignored_after_lock), latch, small_bc)| Sub {
            table,
            op,
            operands,
            regs: RegFile {
                af,
                bc: small_bc.unwrap_or(bc),
                de,
                hl,
                af_,
                bc_,
                de_,
                hl_,
                ix,
                iy,
                sp,
                pc,
                i,
                r,
                iff1: false,
                iff2: false,
                im,
            },
            start_t,
            latch,
            by_out: by_out && machine == Machine::K128,
            ignored_after_lock: if by_out && machine == Machine::K128 { ignored_after_lock } else { None },
        })
}

pub fn case_strategy(n: usize) -> impl Strategy<Value = Case> {
    prop_oneof![Just(Machine::K48), Just(Machine::K128)].prop_flat_map(move |machine| {
        (
            any::<u64>(),
            proptest::collection::vec(sub(machine), 1..=n),
            prop_oneof![
                3 => Just(None),
                // every even port / every port with a contended high byte / the ULA's canonical port / a generated class
                1 => prop_oneof![Just((0x0001u16, 0x0000u16)), Just((0xC000, 0x4000)), Just((0x00FF, 0x00FE)), Just((0x0000, 0x0000)), (any::<u16>(), any::<u16>()).prop_map(|(m, v)| (m, v & m))].prop_map(Some),
            ],
        )
            .prop_map(move |(ram_seed, subs, ext)| Case { machine, ram_seed, subs, ext })
    })
}

/// Self-check of the oracle's delay function against the property text.
fn oracle_selfcheck() -> Result<(), String> {
    for (m, t0, line) in [(Machine::K48, 14335u64, 224u64), (Machine::K128, 14361, 228)] {
        let expect = [6u64, 5, 4, 3, 2, 1, 0, 0];
        for l in [0u64, 1, 100, 191] {
            for x in 0..line {
                let want = if x < 128 { expect[(x % 8) as usize] } else { 0 };
                if contention_delay(m, t0 + l * line + x) != want {
                    return Err(format!("delay table wrong at line {} x {}", l, x));
                }
            }
        }
        if contention_delay(m, t0 - 1) != 0 || contention_delay(m, t0 + 192 * line) != 0 {
            return Err("delay outside the picture area".into());
        }
    }
    Ok(())
}

pub fn run(run: &mut Run) {
    if !crate::props::calibration::ensure(run) {
        return;
    }
    if let Err(e) = oracle_selfcheck() {
        run.infra_error = Some(e);
        return;
    }
    let t = run.tier;
    run.explore("single-instruction", t.pick(100_000, 3_000_000), || case_strategy(120), check);
}

pub fn replay(run: &mut Run, phase: &str, case: &serde_json::Value) -> Result<(), String> {
    run.replay_one::<Case, _>(phase, case, check)
}

pub const LEVEL: &str = "exploration";
pub const RULE: &str = "case = machine x RAM contents x up to 120 sub-cases (one of the 1792 encodings with operand bytes; PC, SP, HL, BC, DE, IX, IY each independently placed in contended/uncontended memory; I register biased to contended pages; 128K paging latch uniform; start T-state forced into the picture area on every residue mod 8, onto the edges of the 128-T window, the first/last picture line, the frame end, or uniform over the frame). The instruction is executed once on the emulator (frame clock set through the hook) and once on the reference machine (reference Z80 bus cycles + contention model from the property text); compared: end T-state incl. frame wraps, and as side condition registers and written memory. evaluations = sub-cases executed; non-trivial = the model charged >= 1 T of ULA delay; distinct = hash of (encoding, start T, registers, latch)";
pub const ASSUMPTIONS: &[&str] = &[
    "reference Z80 bus-cycle breakdown trusted after calibration (also compared independently in C03)",
    "contention model (T0, line length, 128-T window, 6,5,4,3,2,1,0,0, four I/O patterns, contended banks) is transcribed from the property text and self-checked",
    "data read from ports no device claims / AY read-back is not modelled: for such cases only time is compared",
    "prefix chains (DD DD..) are not generated here; IFF1 = 0 so no interrupt interferes",
];
