//! C17 — input ports reflect exactly the controls held, for every event history.

use crate::driver::{fp_of, Rec, Run};
use crate::host::{mk_emu, Emu, EmuOpts, Machine};
use crate::mach::{self, MemModel, RegFile};
use proptest::prelude::*;
use rustzx_core::zx::{
    joy::{
        kempston::KempstonKey,
        sinclair::{SinclairJoyNum, SinclairKey},
    },
    keys::{CompoundKey, ZXKey},
    mouse::kempston::{KempstonMouseButton, KempstonMouseWheelDirection},
};
use serde::{Deserialize, Serialize};
use std::collections::BTreeSet;

/// The Spectrum keyboard matrix: (key, half-row index = which high-byte bit selects it when
/// zero, data bit). Written from the hardware documentation, row 0 = A8 ... row 7 = A15.
pub const MATRIX: [(ZXKey, u8, u8); 40] = [
    (ZXKey::Shift, 0, 0), (ZXKey::Z, 0, 1), (ZXKey::X, 0, 2), (ZXKey::C, 0, 3), (ZXKey::V, 0, 4),
    (ZXKey::A, 1, 0), (ZXKey::S, 1, 1), (ZXKey::D, 1, 2), (ZXKey::F, 1, 3), (ZXKey::G, 1, 4),
    (ZXKey::Q, 2, 0), (ZXKey::W, 2, 1), (ZXKey::E, 2, 2), (ZXKey::R, 2, 3), (ZXKey::T, 2, 4),
    (ZXKey::N1, 3, 0), (ZXKey::N2, 3, 1), (ZXKey::N3, 3, 2), (ZXKey::N4, 3, 3), (ZXKey::N5, 3, 4),
    (ZXKey::N0, 4, 0), (ZXKey::N9, 4, 1), (ZXKey::N8, 4, 2), (ZXKey::N7, 4, 3), (ZXKey::N6, 4, 4),
    (ZXKey::P, 5, 0), (ZXKey::O, 5, 1), (ZXKey::I, 5, 2), (ZXKey::U, 5, 3), (ZXKey::Y, 5, 4),
    (ZXKey::Enter, 6, 0), (ZXKey::L, 6, 1), (ZXKey::K, 6, 2), (ZXKey::J, 6, 3), (ZXKey::H, 6, 4),
    (ZXKey::Space, 7, 0), (ZXKey::SymShift, 7, 1), (ZXKey::M, 7, 2), (ZXKey::N, 7, 3), (ZXKey::B, 7, 4),
];

// matrix positions by name
const K_CAPS: usize = 0;
const K_1: usize = 15;
const K_2: usize = 16;
const K_3: usize = 17;
const K_4: usize = 18;
const K_5: usize = 19;
const K_0: usize = 20;
const K_9: usize = 21;
const K_8: usize = 22;
const K_7: usize = 23;
const K_6: usize = 24;
const K_SPACE: usize = 35;

pub const COMPOUND: [(CompoundKey, usize); 7] = [
    (CompoundKey::ArrowLeft, K_5),
    (CompoundKey::ArrowRight, K_8),
    (CompoundKey::ArrowUp, K_7),
    (CompoundKey::ArrowDown, K_6),
    (CompoundKey::CapsLock, K_2),
    (CompoundKey::Delete, K_0),
    (CompoundKey::Break, K_SPACE),
];

/// Sinclair joysticks per the property: left,right,down,up,fire = 6,7,8,9,0 and 1,2,3,4,5.
/// index = joy*5 + control; control order: Left, Right, Down, Up, Fire
pub const SINCLAIR: [usize; 10] = [K_6, K_7, K_8, K_9, K_0, K_1, K_2, K_3, K_4, K_5];

fn sinclair_api(idx: usize) -> (SinclairJoyNum, SinclairKey) {
    let num = if idx < 5 { SinclairJoyNum::Fist } else { SinclairJoyNum::Second };
    let key = match idx % 5 {
        0 => SinclairKey::Left,
        1 => SinclairKey::Right,
        2 => SinclairKey::Down,
        3 => SinclairKey::Up,
        _ => SinclairKey::Fire,
    };
    (num, key)
}

const KEMPSTON: [KempstonKey; 8] = [
    KempstonKey::Right, KempstonKey::Left, KempstonKey::Down, KempstonKey::Up,
    KempstonKey::Fire, KempstonKey::Ext1, KempstonKey::Ext2, KempstonKey::Ext3,
];
/// documented Kempston bits: right, left, down, up, fire, then the extra buttons
const KEMPSTON_BITS: [u8; 8] = [0x01, 0x02, 0x04, 0x08, 0x10, 0x20, 0x40, 0x80];

const MOUSE_BUTTONS: [KempstonMouseButton; 4] = [
    KempstonMouseButton::Left, KempstonMouseButton::Right,
    KempstonMouseButton::Middle, KempstonMouseButton::Additional,
];

#[derive(Clone, Debug, Serialize, Deserialize, PartialEq, Eq)]
pub enum Ev {
    Key(u8, bool),
    Compound(u8, bool),
    Sinclair(u8, bool),
    Kempston(u8, bool),
    MouseButton(u8, bool),
    Wheel(bool),
    Move(i8, i8),
}

#[derive(Clone, Debug, Serialize, Deserialize)]
pub struct Case {
    pub machine: Machine,
    pub kempston: bool,
    pub mouse: bool,
    pub events: Vec<Ev>,
    pub multi_selectors: Vec<u8>,
    pub kempston_port_hi: u8,
}

#[derive(Default)]
struct Model {
    keys: BTreeSet<usize>,
    compound: BTreeSet<usize>,
    sinclair: BTreeSet<usize>,
    kempston: u8,
    buttons: u8, // held mask
    wheel: u8,
    dx: u8,
    dy: u8,
}

impl Model {
    fn held(&self, pos: usize) -> u32 {
        let mut n = 0;
        if self.keys.contains(&pos) {
            n += 1;
        }
        if self.compound.iter().any(|c| COMPOUND[*c].1 == pos) {
            n += 1;
        }
        if pos == K_CAPS && !self.compound.is_empty() {
            n += 1;
        }
        if self.sinclair.iter().any(|s| SINCLAIR[*s] == pos) {
            n += 1;
        }
        n
    }
    fn row(&self, row: u8) -> u8 {
        let mut v = 0x1F;
        for (pos, (_, r, b)) in MATRIX.iter().enumerate() {
            if *r == row && self.held(pos) > 0 {
                v &= !(1 << b);
            }
        }
        v
    }
    fn select(&self, hi: u8) -> u8 {
        let mut v = 0x1F;
        for row in 0..8 {
            if hi & (1 << row) == 0 {
                v &= self.row(row);
            }
        }
        v
    }
}

const STUB: u16 = 0x8000;

fn port_in(e: &mut Emu, port: u16) -> Result<u8, String> {
    let r = RegFile {
        pc: STUB,
        sp: 0xBF00,
        bc: port,
        ..Default::default()
    };
    mach::set_regs(e, &r);
    mach::step_over(e, 2)?;
    Ok((mach::get_regs(e).af >> 8) as u8)
}

fn apply(e: &mut Emu, ev: &Ev) {
    match ev {
        Ev::Key(k, p) => e.send_key(MATRIX[*k as usize].0, *p),
        Ev::Compound(k, p) => e.send_compound_key(COMPOUND[*k as usize].0, *p),
        Ev::Sinclair(k, p) => {
            let (n, key) = sinclair_api(*k as usize);
            e.send_sinclair_key(n, key, *p)
        }
        Ev::Kempston(k, p) => e.send_kempston_key(KEMPSTON[*k as usize], *p),
        Ev::MouseButton(k, p) => e.send_mouse_button(MOUSE_BUTTONS[*k as usize], *p),
        Ev::Wheel(up) => e.send_mouse_wheel(if *up {
            KempstonMouseWheelDirection::Up
        } else {
            KempstonMouseWheelDirection::Down
        }),
        Ev::Move(x, y) => e.send_mouse_pos_diff(*x, *y),
    }
}

fn apply_model(m: &mut Model, ev: &Ev, c: &Case) {
    fn upd(s: &mut BTreeSet<usize>, k: usize, p: bool) {
        if p {
            s.insert(k);
        } else {
            s.remove(&k);
        }
    }
    match ev {
        Ev::Key(k, p) => upd(&mut m.keys, *k as usize, *p),
        Ev::Compound(k, p) => upd(&mut m.compound, *k as usize, *p),
        Ev::Sinclair(k, p) => upd(&mut m.sinclair, *k as usize, *p),
        Ev::Kempston(k, p) => {
            if c.kempston {
                if *p {
                    m.kempston |= KEMPSTON_BITS[*k as usize];
                } else {
                    m.kempston &= !KEMPSTON_BITS[*k as usize];
                }
            }
        }
        Ev::MouseButton(k, p) => {
            if c.mouse {
                let bit = MOUSE_BUTTONS[*k as usize] as u8;
                if *p {
                    m.buttons |= bit;
                } else {
                    m.buttons &= !bit;
                }
            }
        }
        Ev::Wheel(up) => {
            if c.mouse {
                m.wheel = if *up { m.wheel.wrapping_add(1) } else { m.wheel.wrapping_sub(1) } & 0x0F;
            }
        }
        Ev::Move(x, y) => {
            if c.mouse {
                m.dx = m.dx.wrapping_add(*x as u8);
                m.dy = m.dy.wrapping_sub(*y as u8);
            }
        }
    }
}

/// `skip_sinclair2_down`: the open known finding is excluded by construction.
pub fn check_inner(c: &Case, rec: &mut Rec, skip_sinclair2_down: bool) -> Result<(), String> {
    let mut opts = EmuOpts::new(c.machine);
    opts.kempston = c.kempston;
    opts.mouse = c.mouse;
    let mut e = mk_emu(&opts);
    let mut mm = MemModel::new(c.machine, mach::rom_images(c.machine));
    mach::poke_bytes(&mut e, &mut mm, STUB, &[0xED, 0x78]); // IN A,(C)
    let kport = ((c.kempston_port_hi as u16) << 8) | 0x1F;
    let (b0, x0, y0) = if c.mouse {
        (port_in(&mut e, 0xFADF)?, port_in(&mut e, 0xFBDF)?, port_in(&mut e, 0xFFDF)?)
    } else {
        (0, 0, 0)
    };
    if c.mouse && b0 & 0x0F != 0x0F {
        return Err(format!("mouse buttons initially read {:#04x}: not all released (active-low)", b0));
    }
    let mut m = Model::default();
    let mut overlap = false;
    let mut compound_overlap = false;
    let mut excluded = 0u64;
    for (k, ev) in c.events.iter().enumerate() {
        if skip_sinclair2_down && matches!(ev, Ev::Sinclair(7, _)) {
            excluded += 1;
            continue;
        }
        // a program polling one selector: the same selector is read right before and right after
        // the event (both Sinclair rows, all rows, or one row in turn)
        let poll_hi: u8 = match k % 3 {
            0 => 0xE7,
            1 => 0x00,
            _ => !(1u8 << (k % 8)),
        };
        let got = port_in(&mut e, ((poll_hi as u16) << 8) | 0xFE)? & 0x1F;
        rec.eval();
        if got != m.select(poll_hi) {
            return Err(format!("before event {} ({:?}): selector {:#04x} reads {:#04x}, AND of the selected half-rows is {:#04x}", k, ev, poll_hi, got, m.select(poll_hi)));
        }
        apply(&mut e, ev);
        apply_model(&mut m, ev, c);
        let got = port_in(&mut e, ((poll_hi as u16) << 8) | 0xFE)? & 0x1F;
        rec.eval();
        if got != m.select(poll_hi) {
            return Err(format!(
                "after event {} ({:?}): selector {:#04x}, which was also the last one read before the event, reads {:#04x}; AND of the selected half-rows is {:#04x}",
                k, ev, poll_hi, got, m.select(poll_hi)
            ));
        }
        if (0..40).any(|p| m.held(p) >= 2) {
            overlap = true;
        }
        if m.compound.len() >= 2 {
            compound_overlap = true;
        }
        // scan
        for row in 0..8u8 {
            let hi = !(1u8 << row);
            let got = port_in(&mut e, ((hi as u16) << 8) | 0xFE)? & 0x1F;
            let want = m.row(row);
            rec.eval();
            if got != want {
                return Err(format!(
                    "after event {} ({:?}): half-row {} (port {:#06x}) reads {:#04x}, held controls give {:#04x}",
                    k, ev, row, ((hi as u16) << 8) | 0xFE, got, want
                ));
            }
        }
        for hi in &c.multi_selectors {
            let got = port_in(&mut e, ((*hi as u16) << 8) | 0xFE)? & 0x1F;
            let want = m.select(*hi);
            rec.eval();
            if got != want {
                return Err(format!(
                    "after event {} ({:?}): selector {:#04x} reads {:#04x}, AND of the selected half-rows is {:#04x}",
                    k, ev, hi, got, want
                ));
            }
        }
        if c.kempston {
            let got = port_in(&mut e, kport)?;
            rec.eval();
            if got != m.kempston {
                return Err(format!(
                    "after event {} ({:?}): Kempston port {:#06x} reads {:#04x}, held bits give {:#04x} (mouse enabled: {})",
                    k, ev, kport, got, m.kempston, c.mouse
                ));
            }
        }
        if c.mouse {
            let b = port_in(&mut e, 0xFADF)?;
            let x = port_in(&mut e, 0xFBDF)?;
            let y = port_in(&mut e, 0xFFDF)?;
            rec.eval();
            let want_b = !m.buttons & 0x0F;
            if b & 0x0F != want_b {
                return Err(format!(
                    "after event {} ({:?}): mouse buttons read {:#04x}, held mask {:#04x} should give {:#04x} (active-low)",
                    k, ev, b & 0x0F, m.buttons, want_b
                ));
            }
            let wheel = (b >> 4).wrapping_sub(b0 >> 4) & 0x0F;
            if wheel != m.wheel {
                return Err(format!(
                    "after event {} ({:?}): wheel counter moved by {} (mod 16), events say {}",
                    k, ev, wheel, m.wheel
                ));
            }
            if x.wrapping_sub(x0) != m.dx || y.wrapping_sub(y0) != m.dy {
                return Err(format!(
                    "after event {} ({:?}): X/Y counters moved by ({}, {}), events say ({}, {}) (X adds dx, Y subtracts dy, mod 256)",
                    k, ev, x.wrapping_sub(x0), y.wrapping_sub(y0), m.dx, m.dy
                ));
            }
        }
    }
    rec.class_n("excluded:sinclair2-down", excluded);
    if overlap {
        rec.class("two-sources-on-one-matrix-position");
    }
    if compound_overlap {
        rec.class("two-compound-keys-held");
    }
    if c.kempston && c.mouse {
        rec.class("kempston+mouse");
    }
    if (overlap || compound_overlap) && !c.multi_selectors.is_empty() {
        rec.nontrivial(fp_of(c));
    }
    Ok(())
}

fn ev_strategy() -> impl Strategy<Value = Ev> {
    prop_oneof![
        // keys biased to the positions other sources also use
        6 => (prop_oneof![0u8..40, prop_oneof![Just(0u8), Just(15), Just(16), Just(17), Just(18), Just(19), Just(20), Just(21), Just(22), Just(23), Just(24), Just(35)]], any::<bool>()).prop_map(|(k, p)| Ev::Key(k, p)),
        5 => (0u8..7, any::<bool>()).prop_map(|(k, p)| Ev::Compound(k, p)),
        5 => (0u8..10, any::<bool>()).prop_map(|(k, p)| Ev::Sinclair(k, p)),
        3 => (0u8..8, any::<bool>()).prop_map(|(k, p)| Ev::Kempston(k, p)),
        2 => (0u8..4, any::<bool>()).prop_map(|(k, p)| Ev::MouseButton(k, p)),
        1 => any::<bool>().prop_map(Ev::Wheel),
        2 => (any::<i8>(), any::<i8>()).prop_map(|(x, y)| Ev::Move(x, y)),
    ]
}

pub fn case_strategy(max_events: usize) -> impl Strategy<Value = Case> {
    (
        prop_oneof![Just(Machine::K48), Just(Machine::K128)],
        any::<bool>(),
        any::<bool>(),
        proptest::collection::vec(ev_strategy(), 1..=max_events),
        proptest::collection::vec(prop_oneof![Just(0u8), any::<u8>()], 1..=4),
        any::<u8>(),
    )
        .prop_map(|(machine, kempston, mouse, events, multi_selectors, kempston_port_hi)| Case {
            machine,
            kempston,
            mouse,
            events,
            multi_selectors,
            kempston_port_hi,
        })
}

/// Targeted probe for the listed finding: Sinclair joystick 2 "down" must be key 3.
/// Ok(true) = fails exactly as listed (key 2 instead of key 3); Ok(false) = behaves correctly.
fn probe_sinclair2_down() -> Result<bool, String> {
    let c = Case {
        machine: Machine::K48,
        kempston: false,
        mouse: false,
        events: vec![Ev::Sinclair(7, true)],
        multi_selectors: vec![],
        kempston_port_hi: 0,
    };
    let mut rec = Rec::default();
    match check_inner(&c, &mut rec, false) {
        Ok(()) => Ok(false),
        Err(_) => {
            // listed outcome: row 3 reads key 2 (bit 1) low instead of key 3 (bit 2)
            let mut e = mk_emu(&EmuOpts::new(Machine::K48));
            let mut mm = MemModel::new(Machine::K48, mach::rom_images(Machine::K48));
            mach::poke_bytes(&mut e, &mut mm, STUB, &[0xED, 0x78]);
            e.send_sinclair_key(SinclairJoyNum::Second, SinclairKey::Down, true);
            let row3 = port_in(&mut e, 0xF7FE)? & 0x1F;
            let others: Vec<u8> = [0xFEu8, 0xFD, 0xFB, 0xEF, 0xDF, 0xBF, 0x7F]
                .iter()
                .map(|h| port_in(&mut e, ((*h as u16) << 8) | 0xFE).unwrap_or(0) & 0x1F)
                .collect();
            if row3 == 0x1D && others.iter().all(|v| *v == 0x1F) {
                Ok(true)
            } else {
                Err(format!("Sinclair joystick 2 down: row 3 reads {:#04x}, other rows {:?}", row3, others))
            }
        }
    }
}

pub fn run(run: &mut Run) {
    let known = crate::driver::Known::load();
    let listed = known.is_open("C17", "sinclair2-down-is-key-2");
    let mut skip = false;
    match probe_sinclair2_down() {
        Ok(true) if listed => {
            run.known("key=sinclair2-down-is-key-2 Sinclair joystick 2 'down' pulls key 2 (row 0xF7 bit 1) low instead of key 3");
            skip = true;
        }
        Ok(true) => { /* not listed: let the generators find and report it */ }
        Ok(false) => {}
        Err(e) => {
            // fails in a way the file does not list → plain violation through a one-case phase
            run.enumerate("probe-sinclair2-down", vec![e.clone()], false, |msg: &String, _| Err(msg.clone()));
        }
    }
    let t = run.tier;
    let check = move |c: &Case, rec: &mut Rec| check_inner(c, rec, skip);
    run.explore("history", t.pick(150_000, 3_000_000), || case_strategy(60), check);
    run.explore("long-history", t.pick(15_000, 300_000), || case_strategy(200), check);
    let excl: u64 = run
        .phases
        .iter()
        .map(|p| p.stats.classes.get("excluded:sinclair2-down").copied().unwrap_or(0))
        .sum();
    if skip {
        run.excluded("sinclair2-down-is-key-2", excl);
    }
}

pub fn replay(run: &mut Run, phase: &str, case: &serde_json::Value) -> Result<(), String> {
    run.replay_one::<Case, _>(phase, case, |c, r| check_inner(c, r, false))
}

pub const LEVEL: &str = "exploration";
pub const RULE: &str = "case = machine x (kempston, mouse) enabled x history of 1..200 press/release/move events over 40 keys, 7 compound keys, 2x5 Sinclair controls, 8 Kempston bits, 4 mouse buttons, wheel, motion; one selector (both Sinclair rows, all rows, or one row in turn) is read right before and right after EVERY event, as a program polling one row does; then the emulated CPU reads (IN A,(C)) all 8 half-rows, 1..4 generated multi-row selectors (0x00 included), the Kempston port and the three mouse ports, each compared with a set model. non-trivial = at some point two sources held the same matrix position or two compound keys were held together, and a multi-row selector was read; distinct = hash of the case";
pub const ASSUMPTIONS: &[&str] = &[
    "keyboard matrix, compound-key and Sinclair tables are written from the hardware documentation / property text, not from the implementation",
    "mouse button bit = the value of the public KempstonMouseButton enum; only bits 0-4 of ULA reads are judged here (EAR bit belongs to C07/C11)",
];
