//! C09 — border pixels show the colour written to the ULA before the beam got there.

use crate::driver::{fnv, Rec, Run};
use crate::e1::{set_ref, CpuState};
use crate::e2::RefMachine;
use crate::formats::sna;
use crate::host::{mk_emu, EmuOpts, Machine, MemAsset};
use crate::mach::{self, MemModel, RegFile};
use proptest::prelude::*;
use rustzx_core::host::Snapshot;
use serde::{Deserialize, Serialize};

#[derive(Clone, Debug, Serialize, Deserialize)]
pub struct Seg {
    /// DJNZ iterations before the OUT (0 = none)
    pub delay: u8,
    /// extra NOPs (fine positioning)
    pub nops: u8,
    pub value: u8,
    /// 0: OUT (0xFE),A   1: OUT (C),A with BC = even port generated below
    pub form: u8,
    pub port: u16,
}

#[derive(Clone, Debug, Serialize, Deserialize)]
pub struct Case {
    pub machine: Machine,
    pub segs: Vec<Seg>,
    /// long delay (in 3341-T units) appended to the loop so that some frames see no write at all
    pub idle_units: u8,
    pub start_t: u32,
    pub frames: u8,
    /// a host I/O extender that claims only port 0xCCCC is attached: ULA writes are not its business
    #[serde(default)]
    pub extender: bool,
    /// frames per emulate_frames call (FrameCount(n)): the host sees the border of the last frame of
    /// each batch only, which must still be right
    #[serde(default)]
    pub batch: u8,
    /// a Kempston joystick interface is present (it has nothing to do with writes to the ULA)
    #[serde(default)]
    pub kempston: bool,
}

const BASE: u16 = 0x8000;

fn program(c: &Case) -> Vec<u8> {
    let mut p = vec![0xF3];
    for s in &c.segs {
        if s.delay > 0 {
            p.extend_from_slice(&[0x06, s.delay, 0x10, 0xFE]);
        }
        for _ in 0..s.nops {
            p.push(0x00);
        }
        p.extend_from_slice(&[0x3E, s.value]);
        if s.form % 2 == 0 {
            p.extend_from_slice(&[0xD3, 0xFE]);
        } else {
            let port = s.port & !1;
            p.extend_from_slice(&[0x01, port as u8, (port >> 8) as u8, 0xED, 0x79]);
        }
    }
    for _ in 0..c.idle_units {
        // LD B,0 ; DJNZ $  = 7 + 255*13 + 8 = 3330 T, + 11 T for the two
        p.extend_from_slice(&[0x06, 0x00, 0x10, 0xFE]);
    }
    p.extend_from_slice(&[0xC3, (BASE + 1) as u8, ((BASE + 1) >> 8) as u8]);
    p
}

/// 320 x 240 border buffer geometry (property): pixel (x, y) is drawn at
/// T = first-picture-pixel T + (y - 24) * line + (x - 32) / 2.
fn pixel_t(machine: Machine, x: usize, y: usize) -> i64 {
    let first = machine.t0() as i64 + 1;
    first + (y as i64 - 24) * machine.line_len() as i64 + (x as i64 - 32).div_euclid(2)
}

pub fn check(c: &Case, rec: &mut Rec) -> Result<(), String> {
    let machine = c.machine;
    let frame_len = machine.frame_len() as u64;
    let mut o = EmuOpts::new(machine);
    o.kempston = c.kempston;
    let mut e = mk_emu(&o);
    let mut mem = MemModel::new(machine, mach::rom_images(machine));
    let batch = (c.batch as u64).clamp(1, 4);
    if batch > 1 {
        rec.class("frames-emulated-in-batches");
    }
    if c.extender {
        e.set_io_extender(crate::host::LoggingExtender::new(vec![(0xFFFF, 0xCCCC)], 0x5A));
        rec.class("io-extender-attached");
    }
    let prog = program(c);
    mach::poke_bytes(&mut e, &mut mem, BASE, &prog);
    let regs = RegFile { pc: BASE, sp: 0xBF00, ..Default::default() };
    mach::set_regs(&mut e, &regs);
    let start_t = c.start_t as u64 % 2000;
    e.verif_set_frame_clocks(start_t as usize);
    let mut m = RefMachine::new(mem);
    set_ref(&mut m.cpu, &CpuState { regs, memptr: 0, q_is_f: false, halted: false, no_int: false });
    m.bus.t = start_t;
    // a known colour before anything is judged
    let frames = c.frames as u64 + 1;
    // model: whole run first
    let mut guard = 0u64;
    while m.bus.frames() < frames {
        m.step_group();
        guard += 1;
        if guard > 50_000_000 {
            return Err("model did not finish".into());
        }
    }
    let writes = m.bus.ula_writes.clone();
    if writes.is_empty() {
        return Ok(());
    }
    // emulator frame by frame
    for f in 0..frames {
        // with batches only the last frame of each emulate_frames call is visible to the host
        if f % batch == 0 {
            let n = batch.min(frames - f);
            e.set_speed(rustzx_core::EmulationMode::FrameCount(n as usize));
            mach::run_frames(&mut e, 1)?;
        }
        if (f + 1) % batch != 0 && f + 1 != frames {
            continue;
        }
        // last write at or before the point where the emulator stopped
        let now = (f + 1) * frame_len + e.verif_frame_clocks() as u64;
        let last = writes.iter().filter(|w| w.t_end <= now).last();
        if let Some(w) = last {
            rec.eval();
            let got: u8 = e.border_color().into();
            if got != w.value & 7 {
                return Err(format!("after frame {}: border_color() = {}, last ULA port write was {:#04x} (low bits {})", f, got, w.value, w.value & 7));
            }
        }
        if f == 0 {
            continue; // warm-up frame: colour before the first write is not specified
        }
        let first_write_t = writes[0].t_end;
        let base = f * frame_len;
        let fb = e.border_buffer();
        let mut changes_in_frame = 0;
        let mut visible_change = false;
        for w in &writes {
            if w.t_start >= base && w.t_start < base + frame_len {
                changes_in_frame += 1;
                let tf = (w.t_start - base) as i64;
                if tf >= pixel_t(machine, 0, 0) && tf <= pixel_t(machine, 319, 239) {
                    visible_change = true;
                }
            }
        }
        for y in 0..240usize {
            for x in 0..320usize {
                if (32..288).contains(&x) && (24..216).contains(&y) {
                    continue;
                }
                let tp = base as i64 + pixel_t(machine, x, y);
                let (lo, hi) = (tp - 8, tp + 8);
                if lo <= first_write_t as i64 {
                    continue;
                }
                // colours whose validity interval [earliest start, latest end of next change] meets [lo, hi]
                let mut ok = false;
                let got = fb.px[y * 320 + x];
                for (i, w) in writes.iter().enumerate() {
                    let from = w.t_start as i64;
                    let to = writes.get(i + 1).map(|n| n.t_end as i64).unwrap_or(i64::MAX);
                    if from <= hi && to >= lo && got == (w.value & 7) {
                        ok = true;
                        break;
                    }
                    if from > hi {
                        break;
                    }
                }
                if !ok {
                    let current: Vec<u8> = writes
                        .iter()
                        .enumerate()
                        .filter(|(i, w)| (w.t_start as i64) <= hi && writes.get(i + 1).map(|n| n.t_end as i64).unwrap_or(i64::MAX) >= lo)
                        .map(|(_, w)| w.value & 7)
                        .collect();
                    return Err(format!(
                        "frame {}: border pixel ({}, {}) (beam there at frame T {}) shows {:#04x}; colours written to the ULA and current within 8 T of that moment: {:?}",
                        f, x, y, pixel_t(machine, x, y), got, current
                    ));
                }
            }
        }
        rec.eval();
        if changes_in_frame == 0 {
            rec.class("frame-without-write");
        }
        if changes_in_frame >= 2 && visible_change {
            rec.nontrivial(fnv(format!("{:?}{}", c, f).as_bytes()));
        }
        rec.class_n("colour-changes", changes_in_frame);
    }
    // where the changes fell
    for w in &writes {
        let tf = (w.t_start % frame_len) as i64;
        let line = machine.line_len() as i64;
        let top = pixel_t(machine, 0, 0);
        let cls = if tf < top {
            "change:retrace-before-top"
        } else if tf > pixel_t(machine, 319, 239) {
            if tf + 30 > frame_len as i64 { "change:frame-end" } else { "change:after-bottom" }
        } else {
            let y = (tf - top) / line;
            let xin = (tf - top) % line;
            if xin >= 160 {
                "change:horizontal-retrace"
            } else if y < 24 {
                "change:top-border"
            } else if y >= 216 {
                "change:bottom-border"
            } else if xin < 16 {
                "change:left-border"
            } else if xin >= 144 {
                "change:right-border"
            } else {
                "change:behind-picture-area"
            }
        };
        rec.class(cls);
    }
    rec.class(if machine == Machine::K48 { "48k" } else { "128k" });
    Ok(())
}

#[derive(Clone, Debug, Serialize, Deserialize)]
pub struct SnapCase {
    pub machine: Machine,
    pub border: u8,
    pub prior: u8,
    /// the snapshot is an SZX whose "last byte written to port 0xFE" field differs from its
    /// border field (the border field is the border)
    #[serde(default)]
    pub szx: bool,
    /// the snapshot is the one built into the emulator for tape autoloading (load_tape with the
    /// autoload setting on): its border byte is the border then
    #[serde(default)]
    pub autoload: bool,
}

/// the border stored in a loaded snapshot is reported and shown
pub fn check_snapshot(c: &SnapCase, rec: &mut Rec) -> Result<(), String> {
    let machine = c.machine;
    if c.autoload {
        let mut o = EmuOpts::new(machine);
        o.autoload = true;
        let mut e = mk_emu(&o);
        let mut mm = MemModel::new(machine, mach::rom_images(machine));
        mach::poke_bytes(&mut e, &mut mm, BASE, &[0x3E, c.prior & 7, 0xD3, 0xFE, 0xF3, 0x18, 0xFE]);
        mach::set_regs(&mut e, &RegFile { pc: BASE, sp: 0xBF00, ..Default::default() });
        mach::run_frames(&mut e, 2)?;
        let canned = std::fs::read(format!(
            "/repo/rustzx-core/src/emulator/snapshot/autoload/tape_{}.sna",
            if machine == Machine::K48 { "48k" } else { "128k" }
        ))
        .map_err(|x| format!("harness: canned autoload snapshot: {}", x))?;
        let t = crate::formats::tap::write(&[crate::formats::tap::block(0xFF, &[1, 2, 3], true)]);
        e.load_tape(rustzx_core::host::Tape::Tap(crate::host::DynAsset::new(MemAsset::new(t)))).map_err(|x| format!("load_tape: {:?}", x))?;
        rec.eval();
        let got: u8 = e.border_color().into();
        if got != canned[26] & 7 {
            return Err(format!(
                "load_tape with autoload on loads the built-in snapshot, whose border byte is {}; border_color() is {} (border before: {})",
                canned[26] & 7, got, c.prior & 7
            ));
        }
        if c.prior & 7 != canned[26] & 7 {
            rec.nontrivial(fnv(format!("{:?}", c).as_bytes()));
        }
        rec.class("snapshot-border:autoload-snapshot");
        return Ok(());
    }
    let mut e = mk_emu(&EmuOpts::new(machine));
    let mut mm = MemModel::new(machine, mach::rom_images(machine));
    // prior border through a real OUT
    mach::poke_bytes(&mut e, &mut mm, BASE, &[0x3E, c.prior & 7, 0xD3, 0xFE, 0xF3, 0x18, 0xFE]);
    mach::set_regs(&mut e, &RegFile { pc: BASE, sp: 0xBF00, ..Default::default() });
    mach::run_frames(&mut e, 2)?;
    let nb = machine.ram_banks() as usize;
    let mut ram: Vec<Vec<u8>> = (0..nb).map(|_| vec![0u8; mach::PAGE]).collect();
    let code_bank = if machine == Machine::K48 { 1 } else { 2 };
    ram[code_bank][0..3].copy_from_slice(&[0xF3, 0x18, 0xFE]);
    let mut regs = RegFile { pc: BASE, sp: 0xBF00, im: 1, ..Default::default() };
    if c.szx {
        use crate::formats::szx;
        let st = szx::SzxState {
            machine_id: if machine == Machine::K48 { 1 } else { 2 },
            regs: regs.clone(),
            memptr: 0,
            cycles: 100,
            halted: false,
            ei_last: false,
            f_set: false,
            border: c.border & 7,
            latch: 0,
            fe: (c.prior & 7) | 0x10,
            ay: None,
            kempston_joystick: None,
            mouse: None,
        };
        let file = szx::write(&st, &ram, &szx::Layout::default());
        e.load_snapshot(Snapshot::Szx(MemAsset::new(file))).map_err(|x| format!("load_snapshot(SZX): {:?}", x))?;
        rec.class("snapshot-border:szx-with-fe-field-different-from-border");
    }
    let file = if machine == Machine::K48 {
        regs.sp = 0xBEFE;
        ram[1][0x3EFE] = BASE as u8;
        ram[1][0x3EFF] = (BASE >> 8) as u8;
        sna::write_48k(&sna::SnaState { regs, border: c.border & 7, latch: 0, is_128k: false }, &ram)
    } else {
        sna::write_128k(&sna::SnaState { regs, border: c.border & 7, latch: 0, is_128k: true }, &ram)
    };
    if !c.szx {
        e.load_snapshot(Snapshot::Sna(MemAsset::new(file))).map_err(|x| format!("load_snapshot: {:?}", x))?;
    }
    rec.eval();
    let got: u8 = e.border_color().into();
    if got != c.border & 7 {
        return Err(format!("border_color() after loading a snapshot with border {} is {}", c.border & 7, got));
    }
    mach::run_frames(&mut e, 2)?;
    let fb = e.border_buffer();
    for y in 0..240usize {
        for x in 0..320usize {
            if (32..288).contains(&x) && (24..216).contains(&y) {
                continue;
            }
            if fb.px[y * 320 + x] != c.border & 7 {
                return Err(format!(
                    "two frames after loading a snapshot with border {} (previous border {}), border pixel ({}, {}) shows {:#04x}",
                    c.border & 7, c.prior & 7, x, y, fb.px[y * 320 + x]
                ));
            }
        }
    }
    // the loaded program now writes the very byte the previous program wrote last: a ULA write like
    // any other, the border must follow it
    mach::poke_bytes(&mut e, &mut mm, BASE + 0x20, &[0x3E, c.prior & 7, 0xD3, 0xFE, 0xF3, 0x18, 0xFE]);
    mach::set_regs(&mut e, &RegFile { pc: BASE + 0x20, sp: 0xBF00, ..Default::default() });
    mach::run_frames(&mut e, 3)?;
    rec.eval();
    let got: u8 = e.border_color().into();
    if got != c.prior & 7 {
        return Err(format!(
            "program before the snapshot wrote {0} to the ULA, the snapshot set border {1}, the loaded program wrote {0} again: border_color() = {2}",
            c.prior & 7, c.border & 7, got
        ));
    }
    let fb = e.border_buffer();
    for y in 0..240usize {
        for x in 0..320usize {
            if (32..288).contains(&x) && (24..216).contains(&y) {
                continue;
            }
            if fb.px[y * 320 + x] != c.prior & 7 {
                return Err(format!(
                    "program before the snapshot wrote {0} to the ULA, the snapshot set border {1}, the loaded program wrote {0} again: two frames later border pixel ({2}, {3}) shows {4:#04x}",
                    c.prior & 7, c.border & 7, x, y, fb.px[y * 320 + x]
                ));
            }
        }
    }
    if c.border & 7 != c.prior & 7 {
        rec.nontrivial(fnv(format!("{:?}", c).as_bytes()));
    }
    rec.class("snapshot-border");
    Ok(())
}

pub fn case_strategy() -> impl Strategy<Value = Case> {
    (
        prop_oneof![Just(Machine::K48), Just(Machine::K128)],
        proptest::collection::vec(
            (
                prop_oneof![3 => Just(0u8), 3 => 1u8..20, 2 => any::<u8>()],
                0u8..6,
                any::<u8>(),
                0u8..2,
                any::<u16>(),
            )
                .prop_map(|(delay, nops, value, form, port)| Seg { delay, nops, value, form, port: port & 0x3FFF }),
            1..=40,
        ),
        prop_oneof![3 => Just(0u8), 1 => 1u8..30, 1 => 20u8..64],
        any::<u32>(),
        2u8..6,
    )
        .prop_map(|(machine, segs, idle_units, start_t, frames)| Case { machine, segs, idle_units, start_t, frames, extender: start_t % 4 == 0, batch: if start_t % 3 == 0 { 1 + (start_t >> 4) as u8 % 4 } else { 1 }, kempston: start_t % 5 == 0 })
}

pub fn snap_strategy() -> impl Strategy<Value = SnapCase> {
    (prop_oneof![Just(Machine::K48), Just(Machine::K128)], 0u8..8, 0u8..8, any::<bool>(), prop_oneof![4 => Just(false), 1 => Just(true)]).prop_map(|(machine, border, prior, szx, autoload)| SnapCase { machine, border, prior, szx, autoload })
}

pub fn run(run: &mut Run) {
    if !crate::props::calibration::ensure(run) {
        return;
    }
    let t = run.tier;
    run.explore("programs", t.pick(2_400, 80_000), case_strategy, check);
    run.explore("snapshot-border", t.pick(400, 4_000), snap_strategy, check_snapshot);
}

pub fn replay(run: &mut Run, phase: &str, case: &serde_json::Value) -> Result<(), String> {
    match phase {
        "programs" => run.replay_one::<Case, _>(phase, case, check),
        "snapshot-border" => run.replay_one::<SnapCase, _>(phase, case, check_snapshot),
        _ => Err(format!("unknown phase {}", phase)),
    }
}

pub const LEVEL: &str = "exploration";
pub const RULE: &str = "case = machine x looping DI program of 1..40 segments (DJNZ delay 0..255 iterations + 0..5 NOPs, then OUT (0xFE),A or OUT (C),A to a generated even port with any value) plus optional long idle so that some frames contain no write, started at a generated frame offset, run for 2..5 judged frames, in a quarter of the cases with a host I/O extender attached that claims an unrelated port, in a fifth with a Kempston joystick interface present, in a third with the frames emulated in batches of 2..4 per call (only the last frame of a batch is judged); the reference machine executes the same program and timestamps every ULA port write; after each completed frame every one of the 27648 border pixels must show a colour that was current within 8 T-states (16 pixels) of the moment the beam was there (change instant = anywhere inside the I/O cycle), and border_color() must equal the low three bits of the last write; second phase: the border stored in a loaded SNA, or in the border field of an SZX whose port-0xFE field differs, is reported and shown (likewise the border byte of the built-in snapshot that load_tape loads when autoloading is on), and a ULA write by the loaded program of the byte the previous program had written last is followed like any other. non-trivial = judged frame with >= 2 colour changes of which >= 1 falls inside the visible border raster (snapshot phase: border differs from the previous one); distinct = hash of (case, frame)";
pub const ASSUMPTIONS: &[&str] = &[
    "write timestamps come from the reference machine (reference Z80 + contention model), trusted through calibration, C03 and C04",
    "border buffer geometry: 320x240, pixel (x,y) at T = first-picture-pixel T + (y-24)*line + (x-32)/2 (property text); the central 256x192 area is not judged; the colour before the first write of a run is not judged",
];
