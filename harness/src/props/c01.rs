//! C01 — every Z80 instruction yields the architected register/flag/memory/IO result.

use crate::driver::{fnv, Rec, Run};
use crate::e1::{get_cpu_regs, set_cpu, CpuState, Diff, Proj, Sched, TBus};
use crate::mach::RegFile;
use proptest::prelude::*;
use refz80::{StepKind, Table};
use rustzx_z80::Z80;
use serde::{Deserialize, Serialize};

pub const TABLES: [Table; 7] = [Table::None_, Table::CB, Table::ED, Table::DD, Table::FD, Table::DDCB, Table::FDCB];

pub fn table_name(t: Table) -> &'static str {
    match t {
        Table::None_ => "unprefixed",
        Table::CB => "CB",
        Table::ED => "ED",
        Table::DD => "DD",
        Table::FD => "FD",
        Table::DDCB => "DDCB",
        Table::FDCB => "FDCB",
    }
}

/// Bytes of encoding (table, opcode) with operand bytes o.
pub fn encode(table: Table, op: u8, o: [u8; 3]) -> Vec<u8> {
    match table {
        Table::None_ => vec![op, o[0], o[1], o[2]],
        Table::CB => vec![0xCB, op, o[0], o[1]],
        Table::ED => vec![0xED, op, o[0], o[1]],
        Table::DD => vec![0xDD, op, o[0], o[1]],
        Table::FD => vec![0xFD, op, o[0], o[1]],
        Table::DDCB => vec![0xDD, 0xCB, o[0], op],
        Table::FDCB => vec![0xFD, 0xCB, o[0], op],
    }
}

#[derive(Clone, Debug, Serialize, Deserialize)]
pub struct StateCase {
    pub state: CpuState,
    pub operands: [u8; 3],
    pub mem_seed: u64,
    pub port_seed: u64,
    /// probe instruction executed afterwards to expose the Q latch: SCF or CCF
    pub probe_ccf: bool,
    /// only for replay/shrunk reports: restrict to one encoding (table index, opcode)
    pub only: Option<(u8, u8)>,
}

pub fn fill_mem(seed: u64) -> Box<[u8; 65536]> {
    let mut m = Box::new([0u8; 65536]);
    let mut x = seed | 1;
    for chunk in m.chunks_mut(8) {
        x ^= x << 13;
        x ^= x >> 7;
        x ^= x << 17;
        chunk.copy_from_slice(&x.to_le_bytes());
    }
    m
}

fn is_prefix(b: u8) -> bool {
    matches!(b, 0xDD | 0xFD | 0xED | 0xCB)
}

/// Runs one encoding from one state on both models; compares trace, registers, memory, then a
/// SCF/CCF probe.
pub fn run_single(c: &StateCase, base: &[u8; 65536], table: Table, op: u8, rec: &mut Rec) -> Result<(), String> {
    // DD/FD followed by another prefix byte is a different instruction (belongs to that
    // table's cell); the cell (DD, 0xDD) etc. is exercised by the sequence phase.
    if matches!(table, Table::DD | Table::FD) && is_prefix(op) {
        return Ok(());
    }
    let bytes = encode(table, op, c.operands);
    let mut mem = Box::new(*base);
    let pc = c.state.regs.pc;
    for (i, b) in bytes.iter().enumerate() {
        mem[pc.wrapping_add(i as u16) as usize] = *b;
    }
    let mut d = Diff::new(&mem, &c.state, c.port_seed, 0xFF, Sched::default(), Proj::Arch);
    let tag = || format!("[{} {:#04x} bytes {:02x?}]", table_name(table), op, bytes);
    let before = c.state.regs.clone();
    let mut last;
    let mut guard = 0;
    loop {
        let rep = d.step().map_err(|e| format!("{} {}", tag(), e))?;
        last = rep.info;
        guard += 1;
        if rep.info.kind != StepKind::Prefix || guard > 4 {
            break;
        }
    }
    rec.eval();
    if !d.bus.q.is_empty() {
        return Err(format!("{} implementation performed extra bus activity {:?}", tag(), d.bus.q));
    }
    d.compare_memory().map_err(|e| format!("{} {}", tag(), e))?;
    // non-trivial: something other than PC/R changed, or a control transfer was decided
    let after = crate::e1::get_ref_regs(&d.rcpu);
    let mut b2 = before.clone();
    b2.pc = after.pc;
    b2.r = after.r;
    let changed = b2 != after || d.rbus.mem[..] != mem[..] || d.rbus.io_reads > 0;
    let seq_pc = pc.wrapping_add(match table {
        Table::None_ => 1,
        Table::DDCB | Table::FDCB => 4,
        _ => 2,
    });
    let transfer = after.pc != seq_pc && after.pc != seq_pc.wrapping_add(1) && after.pc != seq_pc.wrapping_add(2);
    if changed || transfer {
        rec.nontrivial(fnv(format!("{:?}{}{:?}{:?}", table, op, c.operands, c.state).as_bytes()));
    }
    // Q probe
    if !d.rcpu.halted && !last.repeated {
        let ppc = d.rcpu.pc;
        let probe = if c.probe_ccf { 0x3F } else { 0x37 };
        d.bus.mem[ppc as usize] = probe;
        d.rbus.mem[ppc as usize] = probe;
        d.step().map_err(|e| format!("{} then {} probe: {}", tag(), if c.probe_ccf { "CCF" } else { "SCF" }, e))?;
        rec.eval();
    }
    Ok(())
}

pub fn check_state(c: &StateCase, rec: &mut Rec) -> Result<(), String> {
    let base = fill_mem(c.mem_seed);
    if let Some((t, op)) = c.only {
        return run_single(c, &base, TABLES[t as usize % 7], op, rec);
    }
    for (ti, t) in TABLES.iter().enumerate() {
        for op in 0..=255u8 {
            run_single(c, &base, *t, op, rec).map_err(|e| format!("{} (replay with only=({}, {}))", e, ti, op))?;
        }
        rec.class_n(table_name(*t), 256);
    }
    rec.class(if c.state.q_is_f { "Q=F" } else { "Q=0" });
    let pc = c.state.regs.pc;
    if pc >= 0xFFFC {
        rec.class("instruction-wraps-0xFFFF");
    }
    Ok(())
}

pub fn u16_biased() -> impl Strategy<Value = u16> {
    prop_oneof![
        3 => any::<u16>(),
        1 => prop_oneof![Just(0u16), Just(1), Just(0x00FF), Just(0x0100), Just(0x7FFF), Just(0x8000), Just(0xFFFE), Just(0xFFFF), Just(0x0FFF), Just(0x1000), Just(0xFF00)],
    ]
}

pub fn u8_biased() -> impl Strategy<Value = u8> {
    prop_oneof![
        3 => any::<u8>(),
        1 => prop_oneof![Just(0u8), Just(1), Just(0x0F), Just(0x10), Just(0x7F), Just(0x80), Just(0xFE), Just(0xFF), Just(0x99), Just(0x9A)],
    ]
}

pub fn regs_strategy() -> impl Strategy<Value = RegFile> {
    (
        (u8_biased(), any::<u8>(), u16_biased(), u16_biased(), u16_biased()),
        (any::<u16>(), any::<u16>(), any::<u16>(), any::<u16>()),
        (u16_biased(), u16_biased(), u16_biased(), u16_biased()),
        (any::<u8>(), any::<u8>(), any::<bool>(), any::<bool>(), 0u8..3),
    )
        .prop_map(|((a, f, bc, de, hl), (af_, bc_, de_, hl_), (ix, iy, sp, pc), (i, r, iff1, iff2, im))| RegFile {
            af: ((a as u16) << 8) | f as u16,
            bc,
            de,
            hl,
            af_,
            bc_,
            de_,
            hl_,
            ix,
            iy,
            sp,
            pc,
            i,
            r,
            iff1,
            iff2,
            im,
        })
}

pub fn state_strategy() -> impl Strategy<Value = CpuState> {
    (regs_strategy(), any::<u16>(), any::<bool>(), 0u8..8).prop_map(|(mut regs, memptr, q_is_f, alias)| {
        // in a fraction of cases let operands overlap the instruction or each other
        match alias {
            0 => regs.hl = regs.pc.wrapping_add(1),
            1 => regs.sp = regs.pc.wrapping_add(2),
            2 => regs.de = regs.hl,
            3 => regs.ix = regs.pc,
            _ => {}
        }
        CpuState {
            regs,
            memptr,
            q_is_f,
            halted: false,
            no_int: false,
        }
    })
}

pub fn state_case_strategy() -> impl Strategy<Value = StateCase> {
    (state_strategy(), proptest::array::uniform3(u8_biased()), any::<u64>(), any::<u64>(), any::<bool>()).prop_map(
        |(state, operands, mem_seed, port_seed, probe_ccf)| StateCase {
            state,
            operands,
            mem_seed,
            port_seed,
            probe_ccf,
            only: None,
        },
    )
}

// ---------------------------------------------------------------------------------------
// sequences

#[derive(Clone, Debug, Serialize, Deserialize)]
pub struct SeqCase {
    pub state: CpuState,
    pub program: Vec<u8>,
    pub steps: u16,
    pub mem_seed: u64,
    pub port_seed: u64,
}

/// flag producers followed by flag consumers, prefix chains, block instructions
fn instr_strategy() -> impl Strategy<Value = Vec<u8>> {
    prop_oneof![
        // 8-bit ALU A,r / A,n
        6 => (0x80u8..=0xBF).prop_map(|op| vec![op]),
        3 => (prop_oneof![Just(0xC6u8), Just(0xCE), Just(0xD6), Just(0xDE), Just(0xE6), Just(0xEE), Just(0xF6), Just(0xFE)], any::<u8>()).prop_map(|(op, n)| vec![op, n]),
        // flag consumers / Q observers
        6 => prop_oneof![Just(0x27u8), Just(0x37), Just(0x3F), Just(0x2F), Just(0x17), Just(0x1F), Just(0x07), Just(0x0F)].prop_map(|op| vec![op]),
        // INC/DEC r
        3 => (0u8..8, any::<bool>()).prop_map(|(r, dec)| vec![0x04 | (r << 3) | dec as u8]),
        // 16-bit arithmetic
        3 => prop_oneof![Just(vec![0x09u8]), Just(vec![0x19]), Just(vec![0x29]), Just(vec![0x39]), Just(vec![0xED, 0x4A]), Just(vec![0xED, 0x52]), Just(vec![0xED, 0x6A]), Just(vec![0xED, 0x72]), Just(vec![0xED, 0x44])],
        // CB group incl. BIT n,(HL)
        5 => any::<u8>().prop_map(|op| vec![0xCB, op]),
        // DDCB / FDCB
        3 => (any::<bool>(), any::<u8>(), any::<u8>()).prop_map(|(fd, d, op)| vec![if fd { 0xFD } else { 0xDD }, 0xCB, d, op]),
        // prefix chains up to 8 long in front of anything
        3 => (proptest::collection::vec(prop_oneof![Just(0xDDu8), Just(0xFD)], 1..=8), any::<u8>(), any::<u8>(), any::<u8>()).prop_map(|(mut p, a, b, c)| { p.extend_from_slice(&[a, b, c]); p }),
        // ED group (incl. undefined ones, block instructions, IN/OUT (C))
        5 => (any::<u8>(), any::<u8>(), any::<u8>()).prop_map(|(op, a, b)| vec![0xED, op, a, b]),
        // block instructions with small counters: LD BC,n ; op
        3 => (1u16..4, prop_oneof![Just(0xB0u8), Just(0xB8), Just(0xB1), Just(0xB9), Just(0xB2), Just(0xBA), Just(0xB3), Just(0xBB), Just(0xA0), Just(0xA8), Just(0xA1), Just(0xA9), Just(0xA2), Just(0xAA), Just(0xA3), Just(0xAB)]).prop_map(|(n, op)| vec![0x01, n as u8, (n >> 8) as u8, 0x06, n as u8, 0xED, op]),
        // loads, exchanges, stack
        4 => (0x40u8..=0x7F).prop_map(|op| vec![if op == 0x76 { 0x00 } else { op }]),
        3 => prop_oneof![Just(vec![0x08u8]), Just(vec![0xD9]), Just(vec![0xEB]), Just(vec![0xE3]), Just(vec![0xF1]), Just(vec![0xF5]), Just(vec![0xC5]), Just(vec![0xE1]), Just(vec![0xED, 0x57]), Just(vec![0xED, 0x5F]), Just(vec![0xED, 0x47]), Just(vec![0xED, 0x4F]), Just(vec![0xED, 0x67]), Just(vec![0xED, 0x6F])],
        // relative jumps over a byte or two, conditional
        3 => (prop_oneof![Just(0x18u8), Just(0x20), Just(0x28), Just(0x30), Just(0x38), Just(0x10)], 0u8..3).prop_map(|(op, d)| vec![op, d]),
        // anything at all
        6 => (any::<u8>(), any::<u8>(), any::<u8>()).prop_map(|(a, b, c)| vec![a, b, c]),
        // I/O
        2 => (any::<bool>(), any::<u8>()).prop_map(|(inp, n)| vec![if inp { 0xDB } else { 0xD3 }, n]),
    ]
}

pub fn seq_strategy(max_instr: usize) -> impl Strategy<Value = SeqCase> {
    (
        state_strategy(),
        proptest::collection::vec(instr_strategy(), 2..=max_instr),
        any::<u64>(),
        any::<u64>(),
    )
        .prop_map(|(state, instrs, mem_seed, port_seed)| {
            let n = instrs.len();
            let program: Vec<u8> = instrs.into_iter().flatten().collect();
            SeqCase {
                state,
                program,
                steps: (n * 2 + 8) as u16,
                mem_seed,
                port_seed,
            }
        })
}

pub fn check_seq(c: &SeqCase, rec: &mut Rec) -> Result<(), String> {
    let mut mem = fill_mem(c.mem_seed);
    let pc = c.state.regs.pc;
    for (i, b) in c.program.iter().enumerate() {
        mem[pc.wrapping_add(i as u16) as usize] = *b;
    }
    let mut d = Diff::new(&mem, &c.state, c.port_seed, 0xFF, Sched::default(), Proj::Arch);
    let mut tables = [0u64; 7];
    let mut instrs = 0u64;
    let mut chain = 0u32;
    let mut long_chain = false;
    let mut repeated = false;
    for _ in 0..c.steps {
        let rep = d.step()?;
        if rep.stopped_unjudged {
            break;
        }
        match rep.info.kind {
            StepKind::Instr => {
                instrs += 1;
                tables[TABLES.iter().position(|t| *t == rep.info.table).unwrap()] += 1;
                if chain >= 2 {
                    long_chain = true;
                }
                chain = 0;
                repeated |= rep.info.repeated;
            }
            StepKind::Prefix => chain += 1,
            _ => {}
        }
        rec.eval();
    }
    // the implementation may have run ahead inside a prefix chain: drain to a sync point
    let mut extra = 0;
    while !d.bus.q.is_empty() && extra < 16 {
        d.step()?;
        extra += 1;
    }
    if d.bus.q.is_empty() {
        d.compare_memory()?;
    }
    for (i, n) in tables.iter().enumerate() {
        rec.class_n(table_name(TABLES[i]), *n);
    }
    if long_chain {
        rec.class("prefix-chain>=2");
    }
    if repeated {
        rec.class("repeating-block-iteration");
    }
    rec.class_n("havoc:memptr-after-repeating-io-block", d.havoc_memptr);
    rec.class_n("havoc:scf-ccf-directly-after-repeating-block-iteration", d.havoc_q_after_repeat);
    if instrs >= 2 {
        rec.nontrivial(fnv(format!("{:?}", c).as_bytes()));
    }
    Ok(())
}

// ---------------------------------------------------------------------------------------
// metamorphic relations on the implementation alone

/// Does unprefixed opcode `op` involve H, L, HL or (HL) — i.e. does a DD/FD prefix change it?
pub fn uses_hl(op: u8) -> bool {
    let x = op >> 6;
    let y = (op >> 3) & 7;
    let z = op & 7;
    let p = y >> 1;
    let q = y & 1;
    match x {
        0 => match z {
            1 => q == 1 || p == 2,
            2 => y == 4 || y == 5,
            3 => p == 2,
            4 | 5 | 6 => y >= 4 && y <= 6,
            _ => false,
        },
        1 => op == 0x76 || (4..=6).contains(&y) || (4..=6).contains(&z),
        2 => (4..=6).contains(&z),
        _ => match z {
            1 => (q == 0 && p == 2) || (q == 1 && (p == 2 || p == 3)),
            3 => y == 4,
            5 => q == 0 && p == 2,
            _ => false,
        },
    }
}

fn impl_run(state: &CpuState, mem: &[u8; 65536], port_seed: u64, emulates: usize) -> (RegFile, u16, bool, Vec<crate::e1::Evt>, Box<[u8; 65536]>) {
    let mut cpu = Z80::default();
    set_cpu(&mut cpu, state);
    let mut bus = TBus::new(Box::new(*mem), port_seed, 0xFF, Sched::default(), false);
    for _ in 0..emulates {
        cpu.emulate(&mut bus);
    }
    let regs = get_cpu_regs(&mut cpu);
    let ev: Vec<_> = bus.q.iter().copied().collect();
    (regs, cpu.regs.get_mem_ptr(), cpu.halted, ev, bus.mem)
}

pub fn check_meta(c: &StateCase, rec: &mut Rec) -> Result<(), String> {
    let base = fill_mem(c.mem_seed);
    let pc = c.state.regs.pc;
    // (1) DD/FD prefix in front of an instruction that does not use HL: only PC(+1) and R(+1) differ
    for op in 0..=255u8 {
        if uses_hl(op) || is_prefix(op) {
            continue;
        }
        let mut plain = Box::new(*base);
        let bytes = [op, c.operands[0], c.operands[1]];
        for (i, b) in bytes.iter().enumerate() {
            plain[pc.wrapping_add(i as u16) as usize] = *b;
        }
        for prefix in [0xDDu8, 0xFD] {
            // prefixed copy: the same instruction starts one byte earlier so that operands,
            // relative jump targets and pushed return addresses are identical
            let mut st = c.state.clone();
            st.regs.pc = pc.wrapping_sub(1);
            st.regs.r = (c.state.regs.r & 0x80) | (c.state.regs.r.wrapping_sub(1) & 0x7F);
            let mut pref = Box::new(*plain);
            pref[pc.wrapping_sub(1) as usize] = prefix;
            let (r1, m1, h1, e1, mem1) = impl_run(&c.state, &pref, c.port_seed, 1);
            let (r2, m2, h2, e2, mem2) = impl_run(&st, &pref, c.port_seed, 1);
            rec.eval();
            // the prefixed run fetched one extra opcode byte first
            if e2.len() != e1.len() + 1 || e2[1..] != e1[..] {
                return Err(format!(
                    "prefix {:#04x} before {:#04x} changes the bus accesses: plain {:?}, prefixed {:?}",
                    prefix, op, e1, e2
                ));
            }
            if r1 != r2 || m1 != m2 || h1 != h2 {
                return Err(format!(
                    "prefix {:#04x} before {:#04x} (does not use HL) changes the result: plain {:x?} memptr {:#06x}, prefixed {:x?} memptr {:#06x}",
                    prefix, op, r1, m1, r2, m2
                ));
            }
            if mem1[..] != mem2[..] {
                return Err(format!("prefix {:#04x} before {:#04x} changes memory effects", prefix, op));
            }
        }
    }
    rec.class("dd-fd-before-non-hl");
    // (2) undefined ED opcodes are two-byte NOPs
    for op in 0..=255u8 {
        let defined = match op {
            0x40..=0x7F => true,
            0xA0..=0xA3 | 0xA8..=0xAB | 0xB0..=0xB3 | 0xB8..=0xBB => true,
            _ => false,
        };
        if defined {
            continue;
        }
        let mut mem = Box::new(*base);
        mem[pc as usize] = 0xED;
        mem[pc.wrapping_add(1) as usize] = op;
        let (r1, m1, h1, e1, mem1) = impl_run(&c.state, &mem, c.port_seed, 1);
        rec.eval();
        let mut want = c.state.regs.clone();
        want.pc = pc.wrapping_add(2);
        want.r = (want.r & 0x80) | (want.r.wrapping_add(2) & 0x7F);
        if r1 != want || m1 != c.state.memptr || h1 || e1.len() != 2 || mem1[..] != mem[..] {
            return Err(format!(
                "undefined ED {:#04x} is not a two-byte NOP: registers {:x?} (expected {:x?}), memptr {:#06x} (expected {:#06x}), bus {:?}",
                op, r1, want, m1, c.state.memptr, e1
            ));
        }
    }
    rec.class("undefined-ed-nop");
    rec.nontrivial(fnv(format!("{:?}", c.state).as_bytes()));
    Ok(())
}

pub fn run(run: &mut Run) {
    if !crate::props::calibration::ensure(run) {
        return;
    }
    let t = run.tier;
    run.explore("all-encodings-per-state", t.pick(4_000, 60_000), state_case_strategy, check_state);
    run.explore("sequences", t.pick(300_000, 6_000_000), || seq_strategy(64), check_seq);
    run.explore("metamorphic-impl-only", t.pick(10_000, 200_000), state_case_strategy, check_meta);
}

pub fn replay(run: &mut Run, phase: &str, case: &serde_json::Value) -> Result<(), String> {
    match phase {
        "all-encodings-per-state" => run.replay_one::<StateCase, _>(phase, case, check_state),
        "sequences" => run.replay_one::<SeqCase, _>(phase, case, check_seq),
        "metamorphic-impl-only" => run.replay_one::<StateCase, _>(phase, case, check_meta),
        _ => Err(format!("unknown phase {}", phase)),
    }
}

pub const LEVEL: &str = "exploration";
pub const RULE: &str = "phase 1: each generated CPU state (boundary-biased registers, F, MEMPTR, Q in {0,F}, IFFs, IM, operand bytes, random 64 KiB memory, random port data) is applied to ALL 1792 encodings; implementation and calibrated reference execute the instruction and then a SCF/CCF probe; compared: ordered memory/port accesses with addresses and data, all registers incl. alternates/I/R/IFFs/IM/MEMPTR, whole memory. phase 2: instruction sequences of 2..64 weighted instructions over random memory with state carried over, compared after every reference step. phase 3 (no reference): DD/FD before non-HL opcodes changes only PC/R; undefined ED = two-byte NOP. evaluations = instruction comparisons. non-trivial = the instruction changed a register other than PC/R, memory or did I/O, or transferred control (phase 2: >=2 instructions executed); distinct = hash of (encoding, operands, state)";
pub const ASSUMPTIONS: &[&str] = &[
    "reference model refz80 is trusted after calibration (zexall 67/67, z80full, z80memptr, z80ccf run on the reference alone in this process' setup); a calibration failure makes the check exit 2",
    "not judged (reference adopts the implementation's value): MEMPTR after a repeating INIR/INDR/OTIR/OTDR iteration; Q after a repeating block iteration (probe skipped); timing is C03's business",
    "Q is observed only through SCF/CCF probes and through later instructions in sequences",
];
