//! C18 — the AY chip turns any register history into the sound its registers define.

use crate::driver::{fnv, Rec, Run};
use crate::host::{mk_emu, EmuOpts, Machine};
use crate::mach::{self, MemModel, RegFile};
use aym::{AyMode, AymBackend, AymPrecise, SoundChip};
use proptest::prelude::*;
use serde::{Deserialize, Serialize};

fn mode_of(i: u8) -> AyMode {
    match i % 7 {
        0 => AyMode::Mono,
        1 => AyMode::ABC,
        2 => AyMode::ACB,
        3 => AyMode::BAC,
        4 => AyMode::BCA,
        5 => AyMode::CAB,
        _ => AyMode::CBA,
    }
}

/// panning table from the aym documentation: 0 = Left, 1 = Both, 2 = Right, per channel A,B,C
fn pan_table(mode: u8) -> [u8; 3] {
    match mode % 7 {
        0 => [1, 1, 1],
        1 => [0, 1, 2],
        2 => [0, 2, 1],
        3 => [1, 0, 2],
        4 => [2, 0, 1],
        5 => [1, 2, 0],
        _ => [2, 1, 0],
    }
}

fn mk(chip_ym: bool, mode: u8, clock: u32, rate: u32) -> AymPrecise {
    AymPrecise::new(if chip_ym { SoundChip::YM } else { SoundChip::AY }, mode_of(mode), clock as usize, rate as usize)
}

fn render(ay: &mut AymPrecise, n: usize) -> Result<(Vec<f64>, Vec<f64>), String> {
    let mut l = Vec::with_capacity(n);
    let mut r = Vec::with_capacity(n);
    for i in 0..n {
        let s = ay.next_sample();
        if !s.left.is_finite() || !s.right.is_finite() || s.left.abs() > 4.0 || s.right.abs() > 4.0 {
            return Err(format!("sample {} is not finite/bounded: left {} right {}", i, s.left, s.right));
        }
        // the integer presentations of a sample are the full-scale product clipped to the type's
        // range (what a player writes into an i16 buffer): louder never means smaller
        for v in [s.left, s.right] {
            use aym::AySample;
            let w16 = (32767.0 * v).clamp(-32768.0, 32767.0) as i16;
            let w8 = (127.0 * v).clamp(-128.0, 127.0) as i8;
            let w32 = (2147483647.0 * v).clamp(-2147483648.0, 2147483647.0) as i32;
            if v.to_i16() != w16 || v.to_i8() != w8 || (v.to_i32() as i64 - w32 as i64).abs() > 1 {
                return Err(format!(
                    "sample {} = {}: to_i16/to_i8/to_i32 give {}/{}/{}, the clipped full-scale products are {}/{}/{}",
                    i, v, v.to_i16(), v.to_i8(), v.to_i32(), w16, w8, w32
                ));
            }
        }
        l.push(s.left);
        r.push(s.right);
    }
    Ok((l, r))
}

/// number of level crossings with 25 % hysteresis around the mean
fn crossings(x: &[f64]) -> (u32, f64) {
    let mean = x.iter().sum::<f64>() / x.len().max(1) as f64;
    let amp = x.iter().map(|v| (v - mean).abs()).fold(0.0, f64::max);
    if amp < 1e-9 {
        return (0, 0.0);
    }
    let mut n = 0;
    let mut sign = 0i8;
    for v in x {
        let d = v - mean;
        let s = if d > amp * 0.25 { 1 } else if d < -amp * 0.25 { -1 } else { 0 };
        if s != 0 && s != sign {
            if sign != 0 {
                n += 1;
            }
            sign = s;
        }
    }
    (n, amp)
}

// ---------------------------------------------------------------------------------------

/// set by `run` when the known finding is listed and its probe still reproduces it
pub static TOLERATE_FLAT_TP1: std::sync::atomic::AtomicBool = std::sync::atomic::AtomicBool::new(false);

#[derive(Clone, Debug, Serialize, Deserialize)]
pub struct ToneCase {
    pub ym: bool,
    pub clock: u32,
    pub rate: u32,
    pub channel: u8,
    pub tp: u16,
    pub volume: u8,
    /// order in which the registers are written (metamorphic: must not matter)
    pub order: Vec<u8>,
    /// other channels' (silent) garbage periods
    pub other_tp: u16,
}

pub fn check_tone(c: &ToneCase, rec: &mut Rec) -> Result<(), String> {
    let ch = (c.channel % 3) as usize;
    let tp_eff = if c.tp & 0x0FFF == 0 { 1 } else { c.tp & 0x0FFF } as f64;
    let f = c.clock as f64 / (16.0 * tp_eff);
    let mut ay = mk(c.ym, 0, c.clock, c.rate);
    // register file
    let mut regs = [0u8; 14];
    regs[2 * ch] = c.tp as u8;
    regs[2 * ch + 1] = (c.tp >> 8) as u8 & 0x0F;
    for o in 0..3 {
        if o != ch {
            regs[2 * o] = c.other_tp as u8;
            regs[2 * o + 1] = (c.other_tp >> 8) as u8 & 0x0F;
        }
    }
    regs[7] = 0x3F & !(1 << ch);
    regs[8 + ch] = (c.volume & 0x0F).max(1);
    let mut order: Vec<u8> = (0..13).collect();
    for (i, o) in c.order.iter().enumerate() {
        let j = (*o as usize) % 13;
        order.swap(i % 13, j);
    }
    for r in order {
        ay.write_register(r, regs[r as usize]);
    }
    let samples_per_period = c.rate as f64 / f;
    let want_periods = 60.0;
    let n = ((samples_per_period * want_periods) as usize).clamp(3000, 600_000);
    let (l, _) = render(&mut ay, n)?;
    rec.eval();
    if f > c.rate as f64 / 4.0 {
        rec.class("tone-above-fs/4:bounds-only");
        return Ok(());
    }
    let skip = n / 10;
    let tail = &l[skip..];
    let secs = tail.len() as f64 / c.rate as f64;
    let periods = secs * f;
    if periods < 20.0 {
        rec.class("tone-too-slow-for-budget:bounds-only");
        return Ok(());
    }
    let (got, amp) = crossings(tail);
    let want = 2.0 * f * secs;
    let tol = 2.5 + want * 0.004;
    if tp_eff == 1.0 && amp < 1e-9 && TOLERATE_FLAT_TP1.load(std::sync::atomic::Ordering::Relaxed) {
        // open known finding: the shortest tone period is rendered as a constant half level
        rec.class("excluded-known:tone-period-1-is-flat");
        return Ok(());
    }
    if amp < 1e-6 || (got as f64 - want).abs() > tol {
        return Err(format!(
            "tone period {} on channel {} (clock {}, sample rate {}): expected {:.1} Hz = {:.1} level crossings in {:.3} s, counted {} (amplitude {:.5})",
            c.tp, ch, c.clock, c.rate, f, want, secs, got, amp
        ));
    }
    // the period itself, from the first to the last rising edge: a divider that is off by one count
    // changes the pitch by less than the crossing count can resolve
    let mean = tail.iter().sum::<f64>() / tail.len() as f64;
    let mut edges: Vec<usize> = Vec::new();
    let mut state = 0i8;
    for (i, v) in tail.iter().enumerate() {
        let d = v - mean;
        if d > amp * 0.25 {
            if state == -1 {
                edges.push(i);
            }
            state = 1;
        } else if d < -amp * 0.25 {
            state = -1;
        }
    }
    if edges.len() >= 12 {
        let n_periods = (edges.len() - 1) as f64;
        let got_period = (edges[edges.len() - 1] - edges[0]) as f64 / n_periods;
        let want_period = c.rate as f64 / f;
        let tol = 2.0 / n_periods + want_period * 0.0002;
        if (got_period - want_period).abs() > tol {
            return Err(format!(
                "tone period {} on channel {} (clock {}, sample rate {}): one period of f_clk/(16*TP) lasts {:.4} samples; measured over {} periods: {:.4} samples (tolerance {:.4}) — the divider is off",
                c.tp, ch, c.clock, c.rate, want_period, n_periods, got_period, tol
            ));
        }
        rec.class("tone-period-measured-edge-to-edge");
    }
    rec.nontrivial(fnv(format!("{}{}", c.tp & 0xFFF, ch).as_bytes()));
    rec.class(if c.rate < 27_800 { "rate-below-27.7kHz" } else if c.rate > 100_000 { "rate-above-100kHz" } else { "rate-mid" });
    if c.tp & 0xFFF == 0 {
        rec.class("tp=0-acts-as-1");
    }
    Ok(())
}

#[derive(Clone, Debug, Serialize, Deserialize)]
pub struct NoiseCase {
    pub clock: u32,
    pub rate: u32,
    pub np: u8,
    pub channel: u8,
}

pub fn check_noise(c: &NoiseCase, rec: &mut Rec) -> Result<(), String> {
    let ch = (c.channel % 3) as usize;
    let np = (c.np % 15).max(1);
    let rate_of = |np: u8| -> Result<(f64, f64), String> {
        let mut ay = mk(false, 0, c.clock, c.rate);
        ay.write_register(6, np);
        ay.write_register(7, 0x3F & !(8 << ch));
        ay.write_register(8 + ch as u8, 0x0F);
        let noise_clock = c.clock as f64 / (16.0 * np as f64);
        let n = ((c.rate as f64 * 30_000.0 / noise_clock) as usize).clamp(20_000, 900_000);
        let (l, _) = render(&mut ay, n)?;
        let tail = &l[n / 20..];
        let (cr, amp) = crossings(tail);
        if amp < 1e-6 {
            return Err(format!("noise period {} on channel {} produces silence", np, ch));
        }
        Ok((cr as f64 / (tail.len() as f64 / c.rate as f64), noise_clock))
    };
    let (r1, clk1) = rate_of(np)?;
    let (r2, _) = rate_of(np * 2)?;
    rec.evals(2);
    if clk1 > c.rate as f64 / 4.0 {
        rec.class("noise-above-fs/4:bounds-only");
        return Ok(());
    }
    // transitions of an LFSR bit: about half the noise clock
    if (r1 / clk1 - 0.5).abs() > 0.08 {
        return Err(format!("noise period {}: {:.0} level changes per second, the noise clock f_clk/(16*NP) = {:.0} Hz implies about {:.0}", np, r1, clk1, clk1 / 2.0));
    }
    let ratio = r2 / r1;
    if (ratio - 0.5).abs() > 0.06 {
        return Err(format!("doubling the noise period {} -> {} changes the transition rate by {:.3}, expected 0.5", np, np * 2, ratio));
    }
    rec.nontrivial(fnv(format!("{}{}{}", np, ch, c.rate).as_bytes()));
    Ok(())
}

#[derive(Clone, Debug, Serialize, Deserialize)]
pub struct EnvCase {
    pub ym: bool,
    pub clock: u32,
    pub rate: u32,
    pub shape: u8,
    pub ep: u16,
    pub channel: u8,
}

#[derive(Clone, Copy, Debug, PartialEq, Eq)]
enum Ramp {
    Dec,
    Inc,
    Min,
    Max,
}

/// documented envelope patterns: the first four ramps of each shape
fn shape_ramps(shape: u8) -> [Ramp; 4] {
    use Ramp::*;
    match shape & 0x0F {
        0..=3 | 9 => [Dec, Min, Min, Min],
        4..=7 | 15 => [Inc, Min, Min, Min],
        8 => [Dec, Dec, Dec, Dec],
        10 => [Dec, Inc, Dec, Inc],
        11 => [Dec, Max, Max, Max],
        12 => [Inc, Inc, Inc, Inc],
        13 => [Inc, Max, Max, Max],
        _ => [Inc, Dec, Inc, Dec],
    }
}

pub fn check_env(c: &EnvCase, rec: &mut Rec) -> Result<(), String> {
    let ch = (c.channel % 3) as usize;
    // ramp must span >= 64 samples and the whole test <= 400k samples
    let ramp_secs = |ep: u32| 256.0 * ep as f64 / c.clock as f64;
    let mut ep = c.ep.max(1) as u32;
    while ramp_secs(ep) * (c.rate as f64) < 96.0 {
        ep *= 2;
    }
    if ep > 0xFFFF || ramp_secs(ep) * c.rate as f64 * 4.2 > 500_000.0 {
        rec.class("envelope-outside-budget");
        return Ok(());
    }
    let mut ay = mk(c.ym, 0, c.clock, c.rate);
    ay.write_register(7, 0x3F);
    ay.write_register(8 + ch as u8, 0x10);
    ay.write_register(11, ep as u8);
    ay.write_register(12, (ep >> 8) as u8);
    // let the filters settle, then (re)start the envelope
    let _ = render(&mut ay, 64)?;
    ay.write_register(13, c.shape & 0x0F);
    let ramp = ramp_secs(ep) * c.rate as f64;
    let n = (ramp * 4.1) as usize + 64;
    let (l, _) = render(&mut ay, n)?;
    rec.eval();
    let max_level = l.iter().cloned().fold(0.0, f64::max);
    if max_level < 1e-6 {
        return Err(format!("envelope shape {} period {} produces no output at all", c.shape & 15, ep));
    }
    // decimation filter delay: 12 output samples at most; smooth over a few samples
    let at = |pos: f64| -> f64 {
        let i = (pos as usize + 12).min(l.len() - 3);
        (l[i - 2] + l[i - 1] + l[i] + l[i + 1] + l[i + 2]) / 5.0
    };
    let ramps = shape_ramps(c.shape);
    for (k, r) in ramps.iter().enumerate() {
        let base = k as f64 * ramp;
        let (a, b, d) = (at(base + ramp * 0.25), at(base + ramp * 0.5), at(base + ramp * 0.75));
        let ok = match r {
            Ramp::Dec => a > b && b > d,
            Ramp::Inc => a < b && b < d,
            Ramp::Min => a.abs() < max_level * 0.02 && b.abs() < max_level * 0.02 && d.abs() < max_level * 0.02,
            // the step up to the maximum may overshoot by filter ringing: compare the three
            // points with each other and require them to sit near the top
            Ramp::Max => (a - b).abs() < max_level * 0.02 && (b - d).abs() < max_level * 0.02 && a > max_level * 0.85,
        };
        if !ok {
            return Err(format!(
                "envelope shape {} (period {}, ramp {:.0} samples at {} Hz): ramp {} should be {:?}, levels at 1/4, 1/2, 3/4 of it are {:.4}, {:.4}, {:.4} (maximum {:.4})",
                c.shape & 15, ep, ramp, c.rate, k + 1, r, a, b, d, max_level
            ));
        }
    }
    rec.nontrivial(fnv(format!("{}{}", c.shape & 15, ep).as_bytes()));
    rec.class(&format!("shape-{}", c.shape & 15));
    Ok(())
}

#[derive(Clone, Debug, Serialize, Deserialize)]
pub struct FlagCase {
    pub ym: bool,
    pub clock: u32,
    pub rate: u32,
    /// channel with a fixed volume; the two others are put on the envelope (which has run out)
    pub fixed: u8,
    pub volume: u8,
    /// order in which R7 and the three amplitude registers are written
    pub order: [u8; 4],
}

/// "Amplitude ... follows the envelope when bit 4 is set": bit 4 of *that channel's* amplitude
/// register, whatever the others hold and in whatever order mixer and amplitude registers are
/// written. A channel with a fixed volume (tone and noise gated off: a DC level) next to channels
/// riding an envelope that has decayed to zero must give the level of that volume.
pub fn check_env_flag(c: &FlagCase, rec: &mut Rec) -> Result<(), String> {
    let fixed = (c.fixed % 3) as usize;
    let vol = (c.volume % 15) + 1;
    let level = |regs_in_order: &[(u8, u8)]| -> Result<f64, String> {
        let mut ay = mk(c.ym, 0, c.clock, c.rate);
        // envelope: one-shot decay, short period, started first and left to run out
        ay.write_register(11, 4);
        ay.write_register(12, 0);
        ay.write_register(13, 0);
        for (r, v) in regs_in_order {
            ay.write_register(*r, *v);
        }
        let (l, _) = render(&mut ay, 3000)?;
        Ok(l[2000..].iter().sum::<f64>() / 1000.0)
    };
    // reference: only the fixed channel programmed, mixer first
    let want = level(&[(7, 0x3F), (8 + fixed as u8, vol)])?;
    // under test: all three amplitude registers and the mixer in the generated order
    let mut writes: Vec<(u8, u8)> = vec![(7, 0x3F)];
    for ch in 0..3u8 {
        writes.push((8 + ch, if ch as usize == fixed { vol } else { 0x10 }));
    }
    let mut idx: Vec<usize> = (0..4).collect();
    for (i, o) in c.order.iter().enumerate() {
        idx.swap(i, *o as usize % 4);
    }
    let ordered: Vec<(u8, u8)> = idx.iter().map(|i| writes[*i]).collect();
    let got = level(&ordered)?;
    rec.eval();
    if want.abs() < 1e-6 || (got - want).abs() > want.abs() * 0.02 {
        return Err(format!(
            "channel {} at fixed volume {} with the two others on a run-out envelope, registers written in the order {:?}: DC level {:.5}; the same channel alone gives {:.5} — whether a channel follows the envelope is bit 4 of its own amplitude register",
            ["A", "B", "C"][fixed], vol, ordered, got, want
        ));
    }
    rec.nontrivial(fnv(format!("{:?}", c).as_bytes()));
    rec.class(&format!("fixed-channel-{}", ["A", "B", "C"][fixed]));
    Ok(())
}

#[derive(Clone, Debug, Serialize, Deserialize)]
pub struct EnvChangeCase {
    pub ym: bool,
    pub clock: u32,
    pub rate: u32,
    /// 8 (repeating decay) or 12 (repeating attack)
    pub up: bool,
    pub ep1: u16,
    /// new period = ep1 / divisor (>= 4), written without touching R13
    pub divisor: u8,
    /// how far into a ramp (per mille) the period is changed
    pub at: u16,
    pub channel: u8,
}

/// "The envelope steps with period 256*EP/f_clk": also after R11/R12 change while it runs (no R13
/// write, so no restart) — from then on the repeating ramp has the new length.
pub fn check_env_change(c: &EnvChangeCase, rec: &mut Rec) -> Result<(), String> {
    let ch = (c.channel % 3) as usize;
    let ramp_samples = |ep: u32| 256.0 * ep as f64 / c.clock as f64 * c.rate as f64;
    let div = (c.divisor as u32).clamp(4, 64);
    let mut ep2 = (c.ep1 as u32 / div).max(1);
    while ramp_samples(ep2) < 96.0 {
        ep2 *= 2;
    }
    let ep1 = (ep2 * div).max(c.ep1 as u32);
    if ep1 > 0xFFFF || ramp_samples(ep1) > 200_000.0 {
        rec.class("envelope-change-outside-budget");
        return Ok(());
    }
    let mut ay = mk(c.ym, 0, c.clock, c.rate);
    ay.write_register(7, 0x3F);
    ay.write_register(8 + ch as u8, 0x10);
    ay.write_register(11, ep1 as u8);
    ay.write_register(12, (ep1 >> 8) as u8);
    let _ = render(&mut ay, 64)?;
    ay.write_register(13, if c.up { 12 } else { 8 });
    // run 1.x ramps at the first period, then lower the period in the middle of a step
    let pre = (ramp_samples(ep1) * (1.0 + (c.at % 1000) as f64 / 1000.0)) as usize;
    let _ = render(&mut ay, pre)?;
    ay.write_register(11, ep2 as u8);
    ay.write_register(12, (ep2 >> 8) as u8);
    let r2 = ramp_samples(ep2);
    // skip the ramp in progress, then look at eight ramps' worth of signal
    let _ = render(&mut ay, (r2 * 1.5) as usize)?;
    let (l, _) = render(&mut ay, (r2 * 8.0) as usize)?;
    rec.eval();
    // full swings: from below 30 % to above 70 % of the range (the ramp is exponential in level, so
    // a mean-crossing count would sit on the edge of its hysteresis)
    let lo = l.iter().cloned().fold(f64::INFINITY, f64::min);
    let hi = l.iter().cloned().fold(f64::NEG_INFINITY, f64::max);
    let amp = hi - lo;
    let mut got = 0u32;
    let mut low_seen = false;
    for v in &l {
        let x = (v - lo) / amp.max(1e-12);
        if x < 0.3 {
            low_seen = true;
        } else if x > 0.7 && low_seen {
            got += 1;
            low_seen = false;
        }
    }
    if amp < 1e-6 || !(6..=9).contains(&got) {
        return Err(format!(
            "repeating envelope (shape {}), period lowered from {} to {} while running (no R13 write): eight ramps of 256*EP/f_clk = {:.0} samples each must follow; the level swings from low to high {} times instead of 7..8 (range {:.5}) — the envelope does not run at the new period",
            if c.up { 12 } else { 8 }, ep1, ep2, r2, got, amp
        ));
    }
    rec.nontrivial(fnv(format!("{:?}", c).as_bytes()));
    rec.class("envelope-period-lowered-while-running");
    Ok(())
}

#[derive(Clone, Debug, Serialize, Deserialize)]
pub struct LevelCase {
    pub ym: bool,
    pub clock: u32,
    pub rate: u32,
    pub mode: u8,
    pub channel: u8,
}

/// volume monotonicity, mixer gating, panning
pub fn check_levels(c: &LevelCase, rec: &mut Rec) -> Result<(), String> {
    let ch = (c.channel % 3) as usize;
    let pans = pan_table(c.mode);
    let mut prev = -1.0f64;
    for v in 0..16u8 {
        let mut ay = mk(c.ym, c.mode, c.clock, c.rate);
        ay.write_register(7, 0x3F); // tone and noise gated off: the channel is a DC level
        ay.write_register(8 + ch as u8, v);
        let (l, r) = render(&mut ay, 400)?;
        rec.eval();
        let (ll, rr) = (l[399], r[399]);
        let (cl, _) = crossings(&l[100..]);
        if cl > 0 && v > 0 {
            let amp = l[100..].iter().cloned().fold(f64::MIN, f64::max) - l[100..].iter().cloned().fold(f64::MAX, f64::min);
            if amp > 1e-6 {
                return Err(format!("volume {} with tone and noise gated off still oscillates (peak-to-peak {:.6})", v, amp));
            }
        }
        let level = (ll * ll + rr * rr).sqrt();
        if v > 0 && level <= prev {
            return Err(format!("amplitude does not grow with the volume: volume {} gives {:.6}, volume {} gave {:.6}", v, level, v - 1, prev));
        }
        prev = level;
        if v == 15 {
            // panning
            match pans[ch] {
                0 => {
                    if rr.abs() > 1e-9 || ll <= 0.0 {
                        return Err(format!("stereo mode {}: channel {} is 'Left' but left = {:.6}, right = {:.6}", c.mode % 7, ch, ll, rr));
                    }
                }
                2 => {
                    if ll.abs() > 1e-9 || rr <= 0.0 {
                        return Err(format!("stereo mode {}: channel {} is 'Right' but left = {:.6}, right = {:.6}", c.mode % 7, ch, ll, rr));
                    }
                }
                _ => {
                    if (ll - rr).abs() > 1e-9 || ll <= 0.0 {
                        return Err(format!("stereo mode {}: channel {} is 'Both' but left = {:.6}, right = {:.6}", c.mode % 7, ch, ll, rr));
                    }
                }
            }
        }
    }
    // mixer: tone enabled only on `ch` — other channels with period set and volume up but gated off stay flat
    let mut ay = mk(c.ym, 0, c.clock, c.rate);
    for o in 0..3u8 {
        ay.write_register(2 * o, 200);
        ay.write_register(8 + o, 0x0F);
    }
    ay.write_register(7, 0x3F);
    let (l, _) = render(&mut ay, 3000)?;
    let (cr, _) = crossings(&l[500..]);
    let pp = l[500..].iter().cloned().fold(f64::MIN, f64::max) - l[500..].iter().cloned().fold(f64::MAX, f64::min);
    if cr > 0 && pp > 1e-6 {
        return Err(format!("all tone and noise sources gated off by the mixer, output still oscillates ({} crossings, peak-to-peak {:.6})", cr, pp));
    }
    rec.nontrivial(fnv(format!("{:?}", c).as_bytes()));
    rec.class(&format!("mode-{}", c.mode % 7));
    Ok(())
}

#[derive(Clone, Debug, Serialize, Deserialize)]
pub struct RandomCase {
    pub ym: bool,
    pub clock: u32,
    pub rate: u32,
    pub mode: u8,
    /// (register, value, samples generated after the write)
    pub program: Vec<(u8, u8, u16)>,
}

/// arbitrary interleavings of writes and sample generation: finite and bounded
pub fn check_random(c: &RandomCase, rec: &mut Rec) -> Result<(), String> {
    let mut ay = mk(c.ym, c.mode, c.clock, c.rate);
    let mut total = 0usize;
    for (r, v, n) in &c.program {
        ay.write_register(*r % 16, *v);
        let n = *n as usize % 600;
        render(&mut ay, n).map_err(|e| format!("after writing R{} = {:#04x}: {}", r % 16, v, e))?;
        total += n;
    }
    rec.eval();
    let mut srcs = 0;
    for (r, _, _) in &c.program {
        if r % 16 >= 8 {
            srcs += 1;
        }
    }
    if srcs >= 2 && total > 500 {
        rec.nontrivial(fnv(format!("{:?}", c).as_bytes()));
    }
    Ok(())
}

#[derive(Clone, Debug, Serialize, Deserialize)]
pub struct PortCase {
    pub machine: Machine,
    pub writes: Vec<(u8, u8)>,
}

/// through the Spectrum ports: read-back of the selected register; register numbers modulo 16
pub fn check_ports(c: &PortCase, rec: &mut Rec) -> Result<(), String> {
    let mut o = EmuOpts::new(c.machine);
    o.sound = true;
    o.ay = true;
    let mut e = mk_emu(&o);
    let mut mm = MemModel::new(c.machine, mach::rom_images(c.machine));
    mach::poke_bytes(&mut e, &mut mm, 0x8000, &[0xED, 0x78, 0xED, 0x79]);
    let masks = [0xFFu8, 0x0F, 0xFF, 0x0F, 0xFF, 0x0F, 0x1F, 0xFF, 0x1F, 0x1F, 0x1F, 0xFF, 0xFF, 0x0F, 0xFF, 0xFF];
    let mut model = [0u8; 16];
    let mut written = [false; 16];
    for (sel, val) in &c.writes {
        mach::set_regs(&mut e, &RegFile { pc: 0x8002, sp: 0xBF00, bc: 0xFFFD, af: (*sel as u16) << 8, ..Default::default() });
        mach::step_over(&mut e, 2)?;
        mach::set_regs(&mut e, &RegFile { pc: 0x8002, sp: 0xBF00, bc: 0xBFFD, af: (*val as u16) << 8, ..Default::default() });
        mach::step_over(&mut e, 2)?;
        let r = (*sel & 0x0F) as usize;
        model[r] = *val;
        written[r] = true;
        // read back the same register, then another one
        for probe in [*sel, sel.wrapping_add(0x35)] {
            mach::set_regs(&mut e, &RegFile { pc: 0x8002, sp: 0xBF00, bc: 0xFFFD, af: (probe as u16) << 8, ..Default::default() });
            mach::step_over(&mut e, 2)?;
            mach::set_regs(&mut e, &RegFile { pc: 0x8000, sp: 0xBF00, bc: 0xFFFD, ..Default::default() });
            mach::step_over(&mut e, 2)?;
            let got = (mach::get_regs(&mut e).af >> 8) as u8;
            let pr = (probe & 0x0F) as usize;
            rec.eval();
            if written[pr] && got != model[pr] && got != model[pr] & masks[pr] {
                return Err(format!(
                    "selected register {:#04x} (= R{}), data port reads {:#04x}; last value written to R{} was {:#04x}",
                    probe, pr, got, pr, model[pr]
                ));
            }
        }
    }
    if c.writes.iter().any(|(s, _)| *s > 15) {
        rec.nontrivial(fnv(format!("{:?}", c).as_bytes()));
    }
    Ok(())
}

#[derive(Clone, Debug, Serialize, Deserialize)]
pub struct PortSoundCase {
    pub machine: Machine,
    pub rate: u32,
    pub mode: u8,
    /// (register select byte, data byte, samples generated after the write)
    pub writes: Vec<(u8, u8, u16)>,
}

/// The chip behind the Spectrum ports turns the register history into the same signal as the
/// chip driven directly: every OUT to the data port is one register write — none dropped,
/// merged, masked or redirected (an R13 write restarts the envelope even when the value is
/// the one already there). Differential against `AymPrecise` with the machine's parameters,
/// whose own behaviour the other phases judge against the chip definition.
pub fn check_port_sound(c: &PortSoundCase, rec: &mut Rec) -> Result<(), String> {
    let mut o = EmuOpts::new(c.machine);
    // the mixer must not pull samples from the chip: the harness pulls them through the hook
    o.sound = true;
    o.ay = false;
    o.ay_mode = c.mode % 3;
    o.sample_rate = c.rate as usize;
    let mut e = mk_emu(&o);
    let mut mm = MemModel::new(c.machine, mach::rom_images(c.machine));
    mach::poke_bytes(&mut e, &mut mm, 0x8000, &[0xED, 0x78, 0xED, 0x79]);
    let mut model = AymPrecise::new(SoundChip::AY, mode_of(c.mode % 3), 1_773_400, c.rate as usize);
    model.enable_dc_filter();
    let mut n = 0u64;
    let mut nonzero = false;
    let mut seen: [Option<u8>; 16] = [None; 16];
    let mut same_value_rewrites = 0u32;
    let mut r13_writes = 0u32;
    for (k, (sel, val, gap)) in c.writes.iter().enumerate() {
        mach::set_regs(&mut e, &RegFile { pc: 0x8002, sp: 0xBF00, bc: 0xFFFD, af: (*sel as u16) << 8, ..Default::default() });
        mach::step_over(&mut e, 2)?;
        mach::set_regs(&mut e, &RegFile { pc: 0x8002, sp: 0xBF00, bc: 0xBFFD, af: (*val as u16) << 8, ..Default::default() });
        mach::step_over(&mut e, 2)?;
        let r = sel & 0x0F;
        model.write_register(r, *val);
        if seen[r as usize] == Some(*val) {
            same_value_rewrites += 1;
        }
        seen[r as usize] = Some(*val);
        if r == 13 {
            r13_writes += 1;
        }
        for j in 0..*gap {
            let got = e.verif_ay_sample();
            let w = model.next_sample();
            rec.eval();
            n += 1;
            if got.0 != w.left || got.1 != w.right {
                return Err(format!(
                    "after write {} (OUT 0xFFFD,{:#04x}; OUT 0xBFFD,{:#04x} = R{} <- {:#04x}), sample {} after it (sample {} overall): the chip behind the ports gives ({}, {}), the same register history written to the chip directly gives ({}, {})",
                    k, sel, val, r, val, j, n, got.0, got.1, w.left, w.right
                ));
            }
            if w.left != 0.0 || w.right != 0.0 {
                nonzero = true;
            }
        }
    }
    if same_value_rewrites > 0 {
        rec.class("port-sound:same-value-rewritten");
    }
    if r13_writes >= 2 {
        rec.class("port-sound:envelope-restarted");
    }
    if nonzero && c.writes.len() >= 4 {
        rec.nontrivial(fnv(format!("{:?}", c).as_bytes()));
    }
    Ok(())
}

fn port_sound_strategy() -> impl Strategy<Value = PortSoundCase> {
    // register programmes that make sound early, then a history biased to envelope registers
    // and to values that are already there
    let write = (
        prop_oneof![3 => 0u8..16, 3 => Just(13u8), 1 => Just(7u8), 2 => 8u8..11, 1 => any::<u8>()],
        prop_oneof![3 => prop_oneof![Just(0u8), Just(0x08), Just(0x0A), Just(0x0C), Just(0x0E), Just(0x0F), Just(0x10), Just(0x1F), Just(0x38), Just(0x3F)], 2 => any::<u8>()],
        prop_oneof![2 => Just(0u16), 3 => 1u16..64, 2 => 64u16..1500],
    );
    (
        prop_oneof![Just(Machine::K48), Just(Machine::K128)],
        prop_oneof![Just(44100u32), Just(48000), Just(22050), 8000u32..=96000],
        0u8..3,
        proptest::collection::vec(write, 1..=40),
        any::<u8>(),
        1u8..=40,
    )
        .prop_map(|(machine, rate, mode, mut writes, env_fine, env_coarse)| {
            // preamble: all three channels on the envelope, tone off (the level is the envelope)
            let mut pre: Vec<(u8, u8, u16)> = vec![(7, 0x3F, 0), (8, 0x10, 0), (9, 0x10, 0), (10, 0x10, 0), (11, env_fine, 0), (12, env_coarse % 4, 0), (13, 0x00, 300)];
            pre.append(&mut writes);
            PortSoundCase { machine, rate, mode, writes: pre }
        })
}

fn clock_s() -> impl Strategy<Value = u32> {
    prop_oneof![2 => Just(1_773_400u32), 1 => Just(1_000_000), 1 => Just(2_000_000), 2 => 1_000_000u32..=2_000_000]
}
fn rate_s() -> impl Strategy<Value = u32> {
    prop_oneof![Just(8000u32), Just(11025), Just(22050), Just(44100), Just(48000), Just(96000), Just(192000), Just(384000), 8000u32..=384000]
}
fn tp_s() -> impl Strategy<Value = u16> {
    prop_oneof![2 => Just(1u16), 1 => Just(0), 1 => Just(255), 1 => Just(256), 1 => Just(4095), 6 => 1u16..=4095, 1 => any::<u16>()]
}

pub fn run(run: &mut Run) {
    let t = run.tier;
    // open known finding: probe, report, tolerate only the listed outcome for the listed class
    if crate::driver::Known::load().is_open("C18", "tone-period-1-is-flat") {
        let probe = ToneCase { ym: false, clock: 1_000_000, rate: 384_000, channel: 0, tp: 1, volume: 15, order: vec![], other_tp: 0 };
        let mut r = Rec::default();
        match check_tone(&probe, &mut r) {
            Ok(()) => {}
            Err(e) if e.contains("counted 0 (amplitude 0.00000)") => {
                run.known("key=tone-period-1-is-flat tone period 1 (and 0) gives a constant half level instead of a square wave of f_clk/16, judged at sample rates above 4*f_clk/16");
                TOLERATE_FLAT_TP1.store(true, std::sync::atomic::Ordering::Relaxed);
            }
            Err(e) => {
                run.enumerate("known-finding-probe", vec![e], false, |m: &String, _| Err(m.clone()));
            }
        }
    }
    run.explore(
        "tone-frequency",
        t.pick(1_600, 60_000),
        || (any::<bool>(), clock_s(), rate_s(), 0u8..3, tp_s(), 1u8..16, proptest::collection::vec(0u8..13, 0..=13), any::<u16>()).prop_map(|(ym, clock, rate, channel, tp, volume, order, other_tp)| ToneCase { ym, clock, rate, channel, tp, volume, order, other_tp }),
        check_tone,
    );
    if run.tier == crate::driver::Tier::Thorough {
        // all 4095 tone periods x 3 channels at the Spectrum's clock
        let mut items = Vec::new();
        for tp in 1..=4095u16 {
            for channel in 0..3u8 {
                items.push(ToneCase { ym: false, clock: 1_773_400, rate: 48000, channel, tp, volume: 15, order: vec![], other_tp: 77 });
            }
        }
        run.enumerate("tone-sweep-all-periods", items, true, check_tone);
    }
    run.explore(
        "noise-clock",
        t.pick(400, 6_000),
        || (clock_s(), rate_s(), 1u8..16, 0u8..3).prop_map(|(clock, rate, np, channel)| NoiseCase { clock, rate, np, channel }),
        check_noise,
    );
    run.explore(
        "envelope-shapes",
        t.pick(1_200, 40_000),
        || (any::<bool>(), clock_s(), rate_s(), 0u8..16, prop_oneof![1u16..64, 1u16..2000, any::<u16>()], 0u8..3).prop_map(|(ym, clock, rate, shape, ep, channel)| EnvCase { ym, clock, rate, shape, ep, channel }),
        check_env,
    );
    run.explore(
        "volume-mixer-panning",
        t.pick(1_000, 30_000),
        || (any::<bool>(), clock_s(), rate_s(), 0u8..7, 0u8..3).prop_map(|(ym, clock, rate, mode, channel)| LevelCase { ym, clock, rate, mode, channel }),
        check_levels,
    );
    run.explore(
        "random-programs-bounded",
        t.pick(3_000, 200_000),
        || (any::<bool>(), clock_s(), rate_s(), 0u8..7, proptest::collection::vec((0u8..16, any::<u8>(), 0u16..600), 1..=40)).prop_map(|(ym, clock, rate, mode, program)| RandomCase { ym, clock, rate, mode, program }),
        check_random,
    );
    let excl: u64 = run.phases.iter().map(|p| p.stats.classes.get("excluded-known:tone-period-1-is-flat").copied().unwrap_or(0)).sum();
    if excl > 0 {
        run.excluded("tone-period-1-is-flat", excl);
    }
    run.explore(
        "ports-read-back",
        t.pick(2_000, 100_000),
        || (prop_oneof![Just(Machine::K48), Just(Machine::K128)], proptest::collection::vec((any::<u8>(), any::<u8>()), 1..=24)).prop_map(|(machine, writes)| PortCase { machine, writes }),
        check_ports,
    );
    run.explore("ports-to-sound", t.pick(1_500, 60_000), port_sound_strategy, check_port_sound);
    run.explore(
        "envelope-flag-per-channel",
        t.pick(600, 20_000),
        || (any::<bool>(), clock_s(), rate_s(), 0u8..3, any::<u8>(), proptest::array::uniform4(0u8..4)).prop_map(|(ym, clock, rate, fixed, volume, order)| FlagCase { ym, clock, rate, fixed, volume, order }),
        check_env_flag,
    );
    run.explore(
        "envelope-period-changed-while-running",
        t.pick(600, 20_000),
        || {
            (any::<bool>(), clock_s(), rate_s(), any::<bool>(), 64u16..8000, 4u8..40, 0u16..1000, 0u8..3)
                .prop_map(|(ym, clock, rate, up, ep1, divisor, at, channel)| EnvChangeCase { ym, clock, rate, up, ep1, divisor, at, channel })
        },
        check_env_change,
    );
}

pub fn replay(run: &mut Run, phase: &str, case: &serde_json::Value) -> Result<(), String> {
    match phase {
        "tone-frequency" | "tone-sweep-all-periods" => run.replay_one::<ToneCase, _>(phase, case, check_tone),
        "noise-clock" => run.replay_one::<NoiseCase, _>(phase, case, check_noise),
        "envelope-shapes" => run.replay_one::<EnvCase, _>(phase, case, check_env),
        "volume-mixer-panning" => run.replay_one::<LevelCase, _>(phase, case, check_levels),
        "random-programs-bounded" => run.replay_one::<RandomCase, _>(phase, case, check_random),
        "ports-read-back" => run.replay_one::<PortCase, _>(phase, case, check_ports),
        "ports-to-sound" => run.replay_one::<PortSoundCase, _>(phase, case, check_port_sound),
        "envelope-period-changed-while-running" => run.replay_one::<EnvChangeCase, _>(phase, case, check_env_change),
        "envelope-flag-per-channel" => run.replay_one::<FlagCase, _>(phase, case, check_env_flag),
        _ => Err(format!("unknown phase {}", phase)),
    }
}

pub const LEVEL: &str = "exploration";
pub const RULE: &str = "generated (chip AY/YM, chip clock 1.0..2.0 MHz, sample rate 8..384 kHz, stereo mode) x register programmes, judged by signal features: tone = level-crossing count with 25 % hysteresis over >= 20 periods against f_clk/(16*TP) (TP = 0 as 1; judged where f <= fs/4; tolerance 2.5 crossings + 0.4 %) and the period measured from the first to the last rising edge (tolerance 2 samples over the run + 0.02 %), with the register write order permuted; noise = transition rate about half of f_clk/(16*NP) and halving when NP doubles; envelope = for each of the 16 shapes the level at 1/4, 1/2, 3/4 of each of the first four ramps of length 256*EP/f_clk must be strictly falling / rising / at minimum / at maximum as the documented pattern says; a channel at a fixed volume next to two channels on a run-out envelope gives the level of its volume for every write order of R7..R10; envelope period lowered while a repeating shape runs (no R13 write): eight ramps of the new length must follow (6..9 full swings of the level in eight ramp lengths); volume = DC level strictly increasing over the 16 volumes; mixer = gated-off sources leave a flat line; panning = left/right levels per the mode table; every sample of arbitrary write/generate interleavings finite and |s| <= 4, and its i8/i16/i32 presentations equal to the clipped full-scale product; through the ports: read-back of the selected register (at most masked to its implemented bits), register numbers modulo 16; ports-to-sound: a history of (select, data) OUTs executed by the emulated CPU (biased to R13, volume/mixer registers and to values already held) with 0..1500 samples pulled from the chip after each write must give sample-for-sample the signal of the same register history written directly to the chip with the machine's clock, rate and stereo mode. non-trivial = a judged tone (distinct (TP, channel)), judged noise pair, judged envelope (distinct (shape, EP)), levels case, random programme with >= 2 volume/envelope writes, port history with register numbers above 15, ports-to-sound history of >= 4 writes with a non-zero sample";
pub const ASSUMPTIONS: &[&str] = &[
    "tolerances are stated in the rule; tone pitch is judged only below fs/4 and an envelope only when a ramp spans >= 96 samples and the run fits in 500k samples",
    "panning table is the one in the aym crate's own documentation; volume 0 is silent",
];
