//! C19 — audio arrives at exactly the configured rate and tracks the speaker bit.

use crate::driver::{fnv, Rec, Run};
use crate::e1::{set_ref, CpuState};
use crate::e2::RefMachine;
use crate::host::{mk_emu, Emu, EmuOpts, Machine};
use crate::mach::{self, MemModel, RegFile};
use proptest::prelude::*;
use serde::{Deserialize, Serialize};

#[derive(Clone, Debug, Serialize, Deserialize)]
pub struct Seg {
    pub delay: u8,
    pub nops: u8,
    pub value: u8,
}

#[derive(Clone, Debug, Serialize, Deserialize)]
pub struct Case {
    pub machine: Machine,
    pub rate: u32,
    pub volume: u8,
    pub beeper: bool,
    pub ay: bool,
    pub segs: Vec<Seg>,
    pub idle_units: u8,
    pub frames: u8,
    /// 0 drain all every frame, 1 never, 2 partial
    pub drain: u8,
    pub start_t: u32,
    /// before this frame the host re-asserts its current settings (set_ay_enabled, set_sound,
    /// set_fast_load with the values already in force): a no-op for the sound the program makes
    #[serde(default)]
    pub reassert_settings_before_frame: Option<u8>,
    /// (a, b), a < b < frames: the host switches sound off (set_sound(false)) before frame a and on
    /// again before frame b, draining at every frame boundary all the time. What is delivered for
    /// the frames in between is not judged; from frame b on every frame must again deliver exactly
    /// its own floor(rate/50) samples
    #[serde(default)]
    pub sound_off: Option<(u8, u8)>,
    /// the program and CPU state reach the machine as an SZX snapshot (frame position = the start
    /// position) loaded by the host at a frame boundary with an empty audio queue, instead of being
    /// poked in: the frames that follow must sound as the program says from the first one on
    #[serde(default)]
    pub via_szx: bool,
}

const BASE: u16 = 0x8000;

fn program(c: &Case) -> Vec<u8> {
    let mut p = vec![0xF3];
    for s in &c.segs {
        if s.delay > 0 {
            p.extend_from_slice(&[0x06, s.delay, 0x10, 0xFE]);
        }
        for _ in 0..s.nops {
            p.push(0x00);
        }
        p.extend_from_slice(&[0x3E, s.value, 0xD3, 0xFE]);
    }
    for _ in 0..c.idle_units {
        p.extend_from_slice(&[0x06, 0x00, 0x10, 0xFE]);
    }
    p.extend_from_slice(&[0xC3, (BASE + 1) as u8, ((BASE + 1) >> 8) as u8]);
    p
}

fn mk(c: &Case, volume: u8) -> (Emu, MemModel) {
    let mut o = EmuOpts::new(c.machine);
    // a third of the machines are created with sound generation off and have it switched on before
    // the first frame: volume and devices must be as configured all the same
    let created_muted = c.start_t % 3 == 1;
    o.sound = !created_muted;
    o.beeper = c.beeper;
    o.ay = c.ay;
    o.volume = volume;
    o.sample_rate = c.rate as usize;
    let mut e = mk_emu(&o);
    if created_muted {
        e.set_sound(true);
    }
    let m = MemModel::new(c.machine, mach::rom_images(c.machine));
    (e, m)
}

/// level produced by a constant speaker state (ear, mic) at the given volume: measured on a
/// calibration machine that sits in one state for two frames
fn measure_level(c: &Case, volume: u8, ear: bool, mic: bool) -> Result<f32, String> {
    let (mut e, mut m) = mk(c, volume);
    let v = ((ear as u8) << 4) | ((mic as u8) << 3);
    mach::poke_bytes(&mut e, &mut m, BASE, &[0xF3, 0x3E, v, 0xD3, 0xFE, 0x18, 0xFE]);
    mach::set_regs(&mut e, &RegFile { pc: BASE, sp: 0xBF00, ..Default::default() });
    mach::run_frames(&mut e, 2)?;
    let mut last = None;
    while let Some(s) = e.next_audio_sample() {
        last = Some(s);
    }
    let s = last.ok_or("no samples")?;
    if s.left != s.right {
        return Err(format!("beeper is mono but left {} != right {}", s.left, s.right));
    }
    Ok(s.left)
}

pub fn check(c: &Case, rec: &mut Rec) -> Result<(), String> {
    let machine = c.machine;
    let frame_len = machine.frame_len() as u64;
    let n = (c.rate / 50) as u64;
    let (mut e, mut mem) = mk(c, c.volume);
    let prog = program(c);
    mach::poke_bytes(&mut e, &mut mem, BASE, &prog);
    let regs = RegFile { pc: BASE, sp: 0xBF00, ..Default::default() };
    mach::set_regs(&mut e, &regs);
    // start exactly at a frame boundary state: frame clock as given (small), queue empty
    let start_t = (c.start_t % 64) as u64;
    e.verif_set_frame_clocks(start_t as usize);
    while e.next_audio_sample().is_some() {}
    if c.via_szx {
        use crate::formats::szx;
        e.verif_set_frame_clocks(0);
        let is128 = machine == Machine::K128;
        let st = szx::SzxState {
            machine_id: if is128 { 2 } else { 1 },
            regs: regs.clone(),
            memptr: 0,
            cycles: start_t as u32,
            halted: false,
            ei_last: false,
            f_set: false,
            border: 0,
            latch: 0,
            fe: 0,
            ay: None,
            kempston_joystick: Some(false),
            mouse: None,
        };
        let file = szx::write(&st, &mem.ram, &szx::Layout::default());
        e.load_snapshot(rustzx_core::host::Snapshot::Szx(crate::host::MemAsset::new(file))).map_err(|x| format!("load_snapshot(SZX): {:?}", x))?;
        rec.class("state-delivered-as-an-szx-snapshot");
    }
    let mut m = RefMachine::new(mem);
    set_ref(&mut m.cpu, &CpuState { regs, memptr: 0, q_is_f: false, halted: false, no_int: false });
    m.bus.t = start_t;
    let frames = c.frames as u64;
    let mut guard = 0u64;
    while m.bus.frames() < frames + 1 {
        m.step_group();
        guard += 1;
        if guard > 60_000_000 {
            return Err("model did not finish".into());
        }
    }
    let writes = m.bus.ula_writes.clone();
    // levels of the four speaker states at this volume and at volume 100
    let mut lv = [[0f32; 2]; 2];
    let mut lv100 = [[0f32; 2]; 2];
    if c.drain == 0 {
        for ear in 0..2 {
            for mic in 0..2 {
                lv[ear][mic] = measure_level(c, c.volume, ear == 1, mic == 1)?;
                lv100[ear][mic] = measure_level(c, 100, ear == 1, mic == 1)?;
            }
        }
        // monotone in EAR then MIC; silent when off; scaled by the volume
        if c.beeper {
            if !(lv100[0][0] == 0.0 && lv100[0][1] > 0.0 && lv100[1][0] > lv100[0][1] && lv100[1][1] > lv100[1][0]) {
                return Err(format!("speaker levels at volume 100 are not monotone in EAR then MIC: {:?}", lv100));
            }
        }
        for ear in 0..2 {
            for mic in 0..2 {
                let bound = lv100[ear][mic] * c.volume as f32 / 100.0;
                if (lv[ear][mic] - bound).abs() > bound.abs() * 1e-5 + 1e-7 {
                    return Err(format!("volume {}: level {} for EAR={} MIC={} is not the volume-100 level {} scaled by the volume", c.volume, lv[ear][mic], ear, mic, lv100[ear][mic]));
                }
            }
        }
    }
    // stream[k] for k in frame f's slot [f*n, (f+1)*n); judged[f] = false for frames emulated with
    // sound switched off by the host (their slots are filled with NaN and skipped)
    let mut stream: Vec<f32> = Vec::new();
    let mut judged: Vec<bool> = Vec::new();
    let mut total: u64 = 0;
    let mut x = c.start_t as u64 | 1;
    let off = c.sound_off.filter(|(a, b)| a < b && (*b as u64) < frames && c.drain % 3 == 0);
    for f in 0..frames {
        if c.reassert_settings_before_frame.map(|k| k as u64 % frames) == Some(f) && off.is_none() {
            e.set_ay_enabled(c.ay);
            e.set_sound(true);
            e.set_fast_load(false);
            rec.class("settings-re-asserted-mid-run");
        }
        if let Some((a, b)) = off {
            if f == a as u64 {
                e.set_sound(false);
                rec.class("sound-switched-off-and-on-again");
            }
            if f == b as u64 {
                e.set_sound(true);
            }
        }
        let is_off = off.map(|(a, b)| f >= a as u64 && f < b as u64).unwrap_or(false);
        mach::run_frames(&mut e, 1)?;
        match c.drain % 3 {
            0 => {
                let mut got: Vec<f32> = Vec::new();
                while let Some(s) = e.next_audio_sample() {
                    if !s.left.is_finite() || !s.right.is_finite() {
                        return Err(format!("frame {}: non-finite sample", f));
                    }
                    if s.left != s.right && !c.ay {
                        return Err(format!("frame {}: beeper-only audio has left {} != right {}", f, s.left, s.right));
                    }
                    got.push(s.left);
                }
                judged.push(!is_off);
                if is_off {
                    stream.extend(std::iter::repeat(f32::NAN).take(n as usize));
                } else {
                    // exactly N per completed frame, as the property says: the few T-states by which the
                    // frame-crossing instruction overshoots the boundary produce no sample before the drain
                    // (60 000 cases over 6 seeds and the whole rate range on the unchanged tree agree)
                    if got.len() as u64 != n {
                        return Err(format!(
                            "frame {} (drained at every frame boundary{}): the host received {} samples for it; floor({}/50) = {}",
                            f,
                            match off { Some((a, b)) => format!(", sound switched off before frame {} and on again before frame {}", a, b), None => String::new() },
                            got.len(), c.rate, n
                        ));
                    }
                    stream.extend_from_slice(&got);
                }
                total = stream.len() as u64;
            }
            1 => {}
            _ => {
                x ^= x << 13;
                x ^= x >> 7;
                x ^= x << 17;
                let take = x % (n + 1);
                for _ in 0..take {
                    if let Some(s) = e.next_audio_sample() {
                        if !s.left.is_finite() || !s.right.is_finite() {
                            return Err("non-finite sample".into());
                        }
                    }
                }
            }
        }
        rec.eval();
    }
    if c.drain % 3 != 0 {
        let mut q = 0u64;
        while e.next_audio_sample().is_some() {
            q += 1;
        }
        if q >= 2 * n {
            return Err(format!("host drained {} audio: queue holds {} samples after {} frames, two frames' worth is {}", if c.drain % 3 == 1 { "no" } else { "only part of the" }, q, frames, 2 * n));
        }
        rec.class(if c.drain % 3 == 1 { "never-drained" } else { "partially-drained" });
        rec.nontrivial(fnv(format!("{:?}", c).as_bytes()));
        return Ok(());
    }
    // speaker tracking: sample k of the whole run belongs to time k * frame_len / N (+ start offset
    // removed: the emulator's frame position starts at start_t)
    let level_at = |t: i64| -> (usize, usize) {
        // last write whose I/O cycle started at or before t
        let mut st = (0usize, 0usize);
        for w in &writes {
            if (w.t_start as i64) <= t {
                st = (((w.value >> 4) & 1) as usize, ((w.value >> 3) & 1) as usize);
            } else {
                break;
            }
        }
        st
    };
    let per_sample = frame_len as f64 / n as f64;
    let mut edges_far_apart = 0;
    let mut last_edge_t: i64 = -1_000_000;
    for w in &writes {
        if w.t_start as i64 - last_edge_t > (2.0 * per_sample) as i64 {
            edges_far_apart += 1;
        }
        last_edge_t = w.t_start as i64;
    }
    if c.beeper && !c.ay {
        for (k, s) in stream.iter().enumerate().take((frames * n) as usize) {
            let f = k as u64 / n;
            if !judged[f as usize] {
                continue;
            }
            let kk = k as u64 % n;
            let t = (f * frame_len) as f64 + kk as f64 * per_sample;
            // accept the level of any state current within one sample period (+ an I/O cycle) of t
            let lo = (t - per_sample - 16.0).floor() as i64;
            let hi = (t + per_sample + 16.0).ceil() as i64;
            let mut ok = false;
            let mut cands = vec![level_at(lo), level_at(hi), level_at(t as i64)];
            for w in &writes {
                if (w.t_start as i64) >= lo && (w.t_start as i64) <= hi {
                    cands.push((((w.value >> 4) & 1) as usize, ((w.value >> 3) & 1) as usize));
                }
            }
            for (ear, mic) in &cands {
                if (*s - lv[*ear][*mic]).abs() <= lv[*ear][*mic].abs() * 1e-5 + 1e-7 {
                    ok = true;
                    break;
                }
            }
            if !ok {
                return Err(format!(
                    "sample {} of frame {} (frame time {:.0} T, rate {}) is {}; the speaker/MIC states current within one sample of that moment give levels {:?}",
                    kk, f, kk as f64 * per_sample, c.rate, s, cands.iter().map(|(e, m)| lv[*e][*m]).collect::<Vec<_>>()
                ));
            }
        }
        rec.class("speaker-tracked");
    } else if !c.beeper && !c.ay {
        if stream.iter().any(|s| *s != 0.0 && !s.is_nan()) {
            return Err("beeper and AY disabled but samples are not zero".into());
        }
        rec.class("all-sources-off");
    } else {
        // AY mixed in (silent chip): bounded by the beeper level + 1.0 * volume
        let bound = lv100[1][1].abs() + 2.0;
        if stream.iter().any(|s| s.abs() > bound) {
            return Err("sample outside the bound implied by the volume".into());
        }
        rec.class("ay-enabled");
    }
    if c.volume == 0 && stream.iter().any(|s| *s != 0.0 && !s.is_nan()) {
        return Err("volume 0 but samples are not exactly 0".into());
    }
    if edges_far_apart >= 2 && c.rate != 44100 {
        rec.nontrivial(fnv(format!("{:?}", c).as_bytes()));
    }
    rec.class(if c.rate % 50 != 0 { "rate-not-divisible-by-50" } else { "rate-divisible-by-50" });
    rec.class(if c.rate < 27_800 { "rate-low" } else if c.rate > 100_000 { "rate-high" } else { "rate-mid" });
    let _ = total;
    Ok(())
}

pub fn case_strategy() -> impl Strategy<Value = Case> {
    (
        prop_oneof![Just(Machine::K48), Just(Machine::K128)],
        prop_oneof![Just(8000u32), Just(11025), Just(22050), Just(44100), Just(48000), Just(96000), Just(384000), Just(8001), Just(44099), 8000u32..=384000],
        prop_oneof![Just(0u8), Just(100), Just(50), 0u8..=100],
        prop_oneof![4 => Just(true), 1 => Just(false)],
        prop_oneof![3 => Just(false), 1 => Just(true)],
        proptest::collection::vec(
            (prop_oneof![3 => Just(0u8), 3 => 1u8..30, 2 => any::<u8>()], 0u8..6, any::<u8>()).prop_map(|(delay, nops, value)| Seg { delay, nops, value }),
            0..=30,
        ),
        prop_oneof![2 => Just(0u8), 1 => 1u8..40],
        1u8..=6,
        prop_oneof![3 => Just(0u8), 1 => Just(1), 1 => Just(2)],
        any::<u32>(),
    )
        .prop_map(|(machine, rate, volume, beeper, ay, segs, idle_units, frames, drain, start_t)| {
            let reassert_settings_before_frame = if start_t % 3 == 0 { Some((start_t >> 8) as u8) } else { None };
            let so = (start_t >> 12) as u64;
            let fr = frames as u64;
            let sound_off = if fr >= 3 && so % 4 == 0 {
                let a = (so >> 2) % (fr - 1);
                let b = a + 1 + (so >> 8) % (fr - 1 - a);
                Some((a as u8, b as u8))
            } else {
                None
            };
            let via_szx = (start_t >> 20) % 3 == 0;
            Case { machine, rate, volume, beeper, ay, segs, idle_units, frames, drain, start_t, reassert_settings_before_frame, sound_off, via_szx }
        })
}

pub fn run(run: &mut Run) {
    if !crate::props::calibration::ensure(run) {
        return;
    }
    let t = run.tier;
    run.explore("programs", t.pick(10_000, 300_000), case_strategy, check);
}

pub fn replay(run: &mut Run, phase: &str, case: &serde_json::Value) -> Result<(), String> {
    run.replay_one::<Case, _>(phase, case, check)
}

pub const LEVEL: &str = "exploration";
pub const RULE: &str = "case = machine x sample rate 8000..384000 (biased to 8000, 11025, 44100, 48000, 384000 and rates not divisible by 50) x volume 0..100 x beeper/AY enables x looping DI program of 0..30 (delay, OUT (0xFE),A with any value) segments incl. bursts faster than one sample and frames without any write x 1..6 frames x drain behaviour {all, never, part}; a third of the machines are created with sound generation off and have it switched on before the first frame; in a third of the cases the host re-asserts its current settings (set_ay_enabled / set_sound / set_fast_load with the values in force) before one of the frames, which must not change the sound; in a third of the cases the program and CPU state are delivered as an SZX snapshot loaded at a frame boundary (audio queue empty) instead of being poked in; in a quarter of the runs of three or more frames the host switches sound off before one frame and on again before a later one (what is delivered in between is not judged; afterwards every frame must again deliver exactly its own samples). Drain-all: every frame must deliver floor(rate/50) samples exactly; with only the beeper on, every sample must equal the level of a speaker/MIC state that was current within one sample period of its frame time k*T_frame/floor(rate/50) — the states and their times come from the reference machine's ULA write log, the four levels from calibration runs at the same settings; levels monotone in EAR then MIC, left = right, level at volume v = level at volume 100 * v/100, volume 0 exactly silent, everything finite. Never/partial drain: the queue stays below two frames' worth. non-trivial = judged run with >= 2 speaker writes at least two samples apart at a rate other than 44100 (or any never/partial-drain run); distinct = hash of the case";
pub const ASSUMPTIONS: &[&str] = &[
    "write timestamps from the reference machine (trusted through calibration, C03, C04)",
    "the absolute level constants are not assumed: they are measured on a calibration machine with the same settings",
];
