//! C07 — port addresses reach the right device under Spectrum partial decoding.

use crate::driver::{fnv, Rec, Run};
use crate::host::{mk_emu, Emu, EmuOpts, IoLog, LoggingExtender, Machine};
use crate::mach::{self, MemModel, RegFile};
use crate::props::c17::MATRIX;
use proptest::prelude::*;
use rustzx_core::zx::{joy::kempston::KempstonKey, mouse::kempston::KempstonMouseButton};
use serde::{Deserialize, Serialize};

#[derive(Clone, Debug, Serialize, Deserialize)]
pub struct Config {
    pub machine: Machine,
    pub kempston: bool,
    pub mouse: bool,
    /// extender claim predicate: (mask, value) pairs
    pub claims: Option<Vec<(u16, u16)>>,
}

#[derive(Clone, Debug, Serialize, Deserialize)]
pub struct Block {
    pub cfg: Config,
    /// high byte of the 256 addresses swept by this item (low byte 0..255)
    pub hi: u8,
}

#[derive(Clone, Copy, Debug, PartialEq, Eq)]
enum Dev {
    Ula,
    Paging,
    AySelect,
    AyRead,
    AyData,
    Kempston,
    MouseButtons,
    MouseX,
    MouseY,
}

/// Devices that *definitely* select `port` for the direction, from the property text, and
/// whether some device *possibly* does (fuzzy "xxDF-style" mouse decode).
fn decode(cfg: &Config, port: u16, write: bool) -> (Vec<Dev>, bool) {
    let mut d = Vec::new();
    let mut possibly = false;
    if port & 1 == 0 {
        d.push(Dev::Ula);
    }
    if write {
        if cfg.machine == Machine::K128 && port & 0x8002 == 0 {
            d.push(Dev::Paging);
        }
        if port & 0xC002 == 0xC000 {
            d.push(Dev::AySelect);
        }
        if port & 0xC002 == 0x8000 {
            d.push(Dev::AyData);
        }
    } else {
        if port & 0xC002 == 0xC000 {
            d.push(Dev::AyRead);
        }
        if cfg.kempston && port & 0x00E0 == 0 {
            d.push(Dev::Kempston);
        }
        if cfg.mouse {
            if port & 0x00FF == 0x00DF {
                match (port & 0x0100 != 0, port & 0x0400 != 0) {
                    (false, false) => d.push(Dev::MouseButtons),
                    (true, false) => d.push(Dev::MouseX),
                    (true, true) => d.push(Dev::MouseY),
                    (false, true) => possibly = true,
                }
            } else if port & 0x00A1 == 0x0081 {
                // A0 = 1, A5 = 0 and A7 = 1 (the xxDF pattern minus the bits a partially decoding
                // mouse interface may ignore): the mouse may answer here. Addresses with A7 = 0 are
                // not "xxDF-style": with A7..A5 = 0 they select the Kempston joystick and nothing else.
                possibly = true;
            }
        }
    }
    (d, possibly)
}

const STUB: u16 = 0x8000;
const AY_VALUES: [u8; 16] = [0x11, 0x02, 0x23, 0x04, 0x35, 0x06, 0x17, 0x28, 0x09, 0x0A, 0x0B, 0x4C, 0x5D, 0x0E, 0x6F, 0x70];
const KEMPSTON_BYTE: u8 = 0x15; // right, down, fire

struct Rig {
    e: Emu,
    mm: MemModel,
    row_vals: [u8; 8],
    /// helper ports that the extender does not claim (None: that device cannot be observed)
    p_ay_sel: Option<u16>,
    p_ay_data: Option<u16>,
    p_border: Option<u16>,
}

/// first address not claimed by the extender that selects exactly `dev` for writes
fn helper_port(cfg: &Config, dev: Dev, candidates: &[u16]) -> Option<u16> {
    candidates.iter().copied().find(|p| !ext_claims(cfg, *p) && decode(cfg, *p, true).0 == vec![dev])
}

fn port_in(e: &mut Emu, port: u16) -> Result<u8, String> {
    let r = RegFile { pc: STUB, sp: 0xBF00, bc: port, ..Default::default() };
    mach::set_regs(e, &r);
    mach::step_over(e, 2)?;
    Ok((mach::get_regs(e).af >> 8) as u8)
}

fn port_out(e: &mut Emu, port: u16, val: u8) -> Result<(), String> {
    let r = RegFile { pc: STUB + 2, sp: 0xBF00, bc: port, af: (val as u16) << 8, ..Default::default() };
    mach::set_regs(e, &r);
    mach::step_over(e, 2)
}

fn mk_rig(cfg: &Config) -> Result<Rig, String> {
    let mut o = EmuOpts::new(cfg.machine);
    o.kempston = cfg.kempston;
    o.mouse = cfg.mouse;
    let mut e = mk_emu(&o);
    let mut mm = MemModel::new(cfg.machine, mach::rom_images(cfg.machine));
    mach::poke_bytes(&mut e, &mut mm, STUB, &[0xED, 0x78, 0xED, 0x79]); // IN A,(C) ; OUT (C),A
    if let Some(cl) = &cfg.claims {
        e.set_io_extender(LoggingExtender::new(cl.clone(), 0x5A));
    }
    // distinguishable keyboard rows: row r holds the keys whose bits form pattern r+1
    let mut row_vals = [0x1Fu8; 8];
    for (key, row, bit) in MATRIX.iter() {
        if ((*row as u8 + 1) >> *bit) & 1 == 1 {
            e.send_key(*key, true);
            row_vals[*row as usize] &= !(1 << bit);
        }
    }
    for k in [KempstonKey::Right, KempstonKey::Down, KempstonKey::Fire] {
        e.send_kempston_key(k, true);
    }
    e.send_mouse_button(KempstonMouseButton::Right, true);
    e.send_mouse_pos_diff(0x32, 0x38);
    let p_ay_sel = helper_port(cfg, Dev::AySelect, &[0xFFFD, 0xC001, 0xFEFD, 0xDDF5, 0xC1F9, 0xEE7D]);
    let p_ay_data = helper_port(cfg, Dev::AyData, &[0xBFFD, 0x8001, 0xBEFD, 0x9DF5, 0x81F9, 0xAE7D]);
    let p_border = helper_port(cfg, Dev::Ula, &[0x00FE, 0xFF7E, 0xFFBE, 0xFFF6, 0x01FE, 0xAA3E, 0xFFFE]);
    Ok(Rig { e, mm, row_vals, p_ay_sel, p_ay_data, p_border })
}

impl Rig {
    fn ay_ok(&self) -> bool {
        self.p_ay_sel.is_some() && self.p_ay_data.is_some()
    }
    fn ay_select(&mut self, r: u8) -> Result<(), String> {
        match self.p_ay_sel {
            Some(p) => port_out(&mut self.e, p, r),
            None => Ok(()),
        }
    }
    fn ay_write(&mut self, v: u8) -> Result<(), String> {
        match self.p_ay_data {
            Some(p) => port_out(&mut self.e, p, v),
            None => Ok(()),
        }
    }
    fn ay_read(&mut self) -> Result<u8, String> {
        match self.p_ay_sel {
            Some(p) => port_in(&mut self.e, p),
            None => Ok(0),
        }
    }
    fn border_reset(&mut self) -> Result<(), String> {
        match self.p_border {
            Some(p) => port_out(&mut self.e, p, 0x02),
            None => Ok(()),
        }
    }
}

#[derive(Debug, PartialEq, Eq, Clone)]
struct Snapshot {
    border: u8,
    paging: (u8, bool, u8),
    ay_selected_value: u8,
    ay_all: [u8; 16],
}

fn ay_reset(rig: &mut Rig, sel: u8) -> Result<(), String> {
    for (r, v) in AY_VALUES.iter().enumerate() {
        rig.ay_select(r as u8)?;
        rig.ay_write(*v)?;
    }
    rig.ay_select(sel)
}

fn snapshot(rig: &mut Rig, full_ay: bool) -> Result<Snapshot, String> {
    let border: u8 = rig.e.border_color().into();
    let paging = rig.e.verif_paging();
    let sel_val = rig.ay_read()?;
    let mut all = [0u8; 16];
    if !rig.ay_ok() {
        all = AY_VALUES;
    }
    if full_ay && rig.ay_ok() {
        // which register is selected is identified by its (distinct) value; restore it afterwards
        let sel = AY_VALUES.iter().position(|v| *v == sel_val);
        for r in 0..16u8 {
            rig.ay_select(r)?;
            all[r as usize] = rig.ay_read()?;
        }
        if let Some(s) = sel {
            rig.ay_select(s as u8)?;
        }
    }
    Ok(Snapshot { border, paging, ay_selected_value: sel_val, ay_all: all })
}

fn ext_claims(cfg: &Config, port: u16) -> bool {
    cfg.claims.as_ref().map(|c| c.iter().any(|(m, v)| port & m == *v)).unwrap_or(false)
}

fn ext_value(port: u16) -> u8 {
    (port as u8) ^ ((port >> 8) as u8) ^ 0x5A
}

pub fn check_block(b: &Block, rec: &mut Rec) -> Result<(), String> {
    let cfg = &b.cfg;
    let mut rig = mk_rig(cfg)?;
    ay_reset(&mut rig, 5)?;
    rig.border_reset()?; // border red, a known starting point
    let ay_ok = rig.ay_ok();
    let border_ok = rig.p_border.is_some();
    // reference values of the three mouse registers, read through addresses of their decode
    // class that the extender does not claim (not judged in a configuration without such)
    let mouse_port = |dev: Dev, cands: &[u16]| cands.iter().copied().find(|p| !ext_claims(cfg, *p) && decode(cfg, *p, false).0 == vec![dev]);
    let canon_mouse = if cfg.mouse {
        match (
            mouse_port(Dev::MouseButtons, &[0xFADF, 0x00DF, 0xF2DF, 0x08DF]),
            mouse_port(Dev::MouseX, &[0xFBDF, 0x01DF, 0xF3DF, 0x09DF]),
            mouse_port(Dev::MouseY, &[0xFFDF, 0x05DF, 0xF7DF, 0x0DDF]),
        ) {
            (Some(b), Some(x), Some(y)) => Some((port_in(&mut rig.e, b)?, port_in(&mut rig.e, x)?, port_in(&mut rig.e, y)?)),
            _ => None,
        }
    } else {
        None
    };
    if let Some((bt, x, y)) = canon_mouse {
        let vals = [bt, x, y, KEMPSTON_BYTE, AY_VALUES[5]];
        for i in 0..vals.len() {
            for j in 0..i {
                if vals[i] == vals[j] {
                    return Err(format!("harness: device values not distinguishable: {:x?}", vals));
                }
            }
        }
    }
    for lo in 0..=255u16 {
        let port = ((b.hi as u16) << 8) | lo;
        let canonical = matches!(port, 0x00FE | 0xFEFE | 0x7FFD | 0xFFFD | 0xBFFD | 0x001F | 0xFADF | 0xFBDF | 0xFFDF);
        // ---------------------------------------------------------------- read
        {
            let (devs, possibly) = decode(cfg, port, false);
            let claimed = ext_claims(cfg, port);
            let log_before = rig.e.io_extender().map(|x| x.log.len()).unwrap_or(0);
            // beam parked in the top border: an unclaimed read must give 0xFF
            rig.e.verif_set_frame_clocks(1000);
            let before = snapshot(&mut rig, false)?;
            let log_before2 = rig.e.io_extender().map(|x| x.log.len()).unwrap_or(0);
            let _ = log_before;
            let got = port_in(&mut rig.e, port)?;
            let new_log: Vec<IoLog> = rig.e.io_extender().map(|x| x.log[log_before2..].to_vec()).unwrap_or_default();
            rec.eval();
            if claimed {
                if new_log != vec![IoLog::Read(port, ext_value(port))] || got != ext_value(port) {
                    return Err(format!("read {:#06x} is claimed by the extender: log {:?}, value {:#04x} (extender returns {:#04x})", port, new_log, got, ext_value(port)));
                }
                rec.class("read:extender");
            } else {
                if !new_log.is_empty() {
                    return Err(format!("read {:#06x} is not claimed by the extender but it logged {:?}", port, new_log));
                }
                if devs.len() == 1 && !possibly {
                    let want = match devs[0] {
                        Dev::Ula => None,
                        Dev::AyRead => if ay_ok { Some(AY_VALUES[5]) } else { None },
                        Dev::Kempston => Some(KEMPSTON_BYTE),
                        Dev::MouseButtons => canon_mouse.map(|m| m.0),
                        Dev::MouseX => canon_mouse.map(|m| m.1),
                        Dev::MouseY => canon_mouse.map(|m| m.2),
                        _ => None,
                    };
                    if devs[0] == Dev::Ula {
                        let mut keys = 0x1F;
                        for r in 0..8 {
                            if b.hi & (1 << r) == 0 {
                                keys &= rig.row_vals[r];
                            }
                        }
                        if got & 0x1F != keys {
                            return Err(format!("read {:#06x} selects only the ULA: keyboard bits {:#04x}, AND of selected half-rows is {:#04x}", port, got & 0x1F, keys));
                        }
                        rec.class("read:ula");
                    } else if let Some(w) = want {
                        if got != w {
                            return Err(format!("read {:#06x} selects only {:?}: got {:#04x}, device holds {:#04x} (config {:?})", port, devs[0], got, w, cfg));
                        }
                        rec.class(&format!("read:{:?}", devs[0]));
                    }
                    if !canonical {
                        rec.nontrivial(fnv(format!("r{}{:?}", port, cfg).as_bytes()));
                    }
                } else if devs.is_empty() && !possibly {
                    if got != 0xFF {
                        return Err(format!("read {:#06x} selects no device and the beam is in the border: got {:#04x}, floating bus must be 0xFF (config {:?})", port, got, cfg));
                    }
                    rec.class("read:no-device-0xFF");
                    if !canonical {
                        rec.nontrivial(fnv(format!("r{}{:?}", port, cfg).as_bytes()));
                    }
                } else {
                    rec.class("read:not-judged(several-or-possible-devices)");
                }
            }
            // reads never change device state
            let after = snapshot(&mut rig, false)?;
            if after != before {
                return Err(format!("read {:#06x} changed device state: {:?} -> {:?}", port, before, after));
            }
        }
        // ---------------------------------------------------------------- write
        {
            let (devs, _) = decode(cfg, port, true);
            let claimed = ext_claims(cfg, port);
            // fresh, unlocked paging and known AY state
            if cfg.machine == Machine::K128 {
                rig.e.verif_set_paging(0x00);
            }
            let sel = 5u8;
            let before = snapshot(&mut rig, true)?;
            if before.ay_all != AY_VALUES {
                ay_reset(&mut rig, sel)?;
            }
            let before = snapshot(&mut rig, true)?;
            let log_before = rig.e.io_extender().map(|x| x.log.len()).unwrap_or(0);
            // value chosen so that every device would visibly change: border 2 -> 5, latch 0 -> 0x15
            // (bank 5, screen unchanged, ROM 1, no lock), AY select 5 -> 5 (0x15 & 0x0F), data 0x15
            let val = 0x15u8;
            port_out(&mut rig.e, port, val)?;
            let new_log: Vec<IoLog> = rig.e.io_extender().map(|x| x.log[log_before..].to_vec()).unwrap_or_default();
            let after = snapshot(&mut rig, true)?;
            rec.eval();
            let mut want = before.clone();
            let mut judged = true;
            if claimed {
                if new_log != vec![IoLog::Write(port, val)] {
                    return Err(format!("write {:#06x} is claimed by the extender: log {:?}", port, new_log));
                }
                rec.class("write:extender");
            } else {
                if !new_log.is_empty() {
                    return Err(format!("write {:#06x} is not claimed by the extender but it logged {:?}", port, new_log));
                }
                if devs.len() == 1 {
                    match devs[0] {
                        Dev::Ula => want.border = val & 7,
                        Dev::AyData if !ay_ok => {}
                        Dev::Paging => want.paging = (val, true, 5),
                        Dev::AySelect => {} // 0x15 & 0x0F = 5: same register stays selected
                        Dev::AyData => {
                            want.ay_all[sel as usize] = val;
                            want.ay_selected_value = val;
                        }
                        _ => {}
                    }
                    rec.class(&format!("write:{:?}", devs[0]));
                } else if devs.is_empty() {
                    rec.class("write:no-device");
                } else {
                    judged = false;
                    rec.class("write:not-judged(several-devices)");
                }
            }
            if judged {
                // AY data may be masked to the register's implemented bits: R5 is a 4-bit register
                let mut a = after.clone();
                if devs == vec![Dev::AyData] && !claimed {
                    if a.ay_all[sel as usize] == val & 0x0F {
                        a.ay_all[sel as usize] = val;
                        a.ay_selected_value = val;
                    }
                }
                if a != want {
                    return Err(format!(
                        "write {:#06x} <- {:#04x} selects {:?}{}: device state after {:?}, expected {:?} (config {:?})",
                        port, val, devs, if claimed { " but is claimed by the extender" } else { "" }, after, want, cfg
                    ));
                }
                if !canonical {
                    rec.nontrivial(fnv(format!("w{}{:?}", port, cfg).as_bytes()));
                }
            }
            // AY select with a different register: checked on the exactly-one addresses
            if !claimed && ay_ok && devs == vec![Dev::AySelect] {
                port_out(&mut rig.e, port, 0xF9)?; // register 9 (number taken modulo 16)
                let v = rig.ay_read()?;
                if v != AY_VALUES[9] {
                    return Err(format!("write {:#06x} <- 0xF9 selects only AY register select: read-back gives {:#04x}, register 9 holds {:#04x}", port, v, AY_VALUES[9]));
                }
                rig.ay_select(sel)?;
            }
            // restore
            if border_ok {
                rig.border_reset()?;
            } else {
                // the border cannot be restored through a port: accept whatever it is now
            }
            if after.ay_all != AY_VALUES {
                ay_reset(&mut rig, sel)?;
            }
        }
    }
    let _ = &rig.mm;
    Ok(())
}

// ---------------------------------------------------------------------------------------
// floating bus

#[derive(Clone, Debug, Serialize, Deserialize)]
pub struct Floating {
    pub machine: Machine,
    pub latch: u8,
    pub t: u32,
    pub port: u16,
    pub seed: u64,
}

fn screen_byte(seed: u64, bank: u8, off: usize) -> u8 {
    let mut x = seed ^ ((bank as u64 + 3) << 40) ^ (off as u64).wrapping_mul(0x9E3779B97F4A7C15);
    x ^= x >> 29;
    x = x.wrapping_mul(0xBF58476D1CE4E5B9);
    x ^= x >> 32;
    let v = x as u8;
    if v == 0xFF {
        0x7E
    } else {
        v
    }
}

pub fn check_floating(c: &Floating, rec: &mut Rec) -> Result<(), String> {
    let machine = c.machine;
    let cfg = Config { machine, kempston: false, mouse: false, claims: None };
    // port must select no device for reads
    let (devs, possibly) = decode(&cfg, c.port, false);
    if !devs.is_empty() || possibly {
        return Ok(());
    }
    let mut e = mk_emu(&EmuOpts::new(machine));
    let mut mm = MemModel::new(machine, mach::rom_images(machine));
    mach::poke_bytes(&mut e, &mut mm, STUB, &[0xED, 0x78]);
    let banks: &[u8] = if machine == Machine::K48 { &[0] } else { &[5, 7] };
    for b in banks {
        let page = e.verif_ram_page_mut(*b);
        for off in 0..6912 {
            page[off] = screen_byte(c.seed, *b, off);
        }
    }
    let latch = c.latch & 0x0F; // RAM bank + shadow-screen bit, ROM 0, no lock
    if machine == Machine::K128 {
        e.verif_set_paging(latch);
    }
    let frame_len = machine.frame_len() as u64;
    let t = c.t as u64 % frame_len;
    e.verif_set_frame_clocks(t as usize);
    let got = port_in(&mut e, c.port)?;
    rec.eval();
    // the I/O cycle of IN A,(C) occupies T+8 .. T+12 (plus contention); accept the bytes of
    // every picture line whose 128-T fetch window (with an 8-T guard band) meets [T+4, T+24]
    let first_pixel = machine.t0() as u64 + 1;
    let line = machine.line_len() as u64;
    let visible_bank = if machine == Machine::K48 { 0 } else if latch & 8 != 0 { 7 } else { 5 };
    let (lo, hi) = (t + 4, t + 24);
    let mut allowed: Vec<u8> = Vec::new();
    let mut in_window = false;
    let mut clearly_inside = false;
    for y in 0..192u64 {
        let ws = first_pixel + y * line;
        let we = ws + 128;
        if hi + 8 >= ws && lo <= we + 8 {
            in_window = true;
            let yy = y as usize;
            let off = ((yy & 0xC0) << 5) | ((yy & 7) << 8) | ((yy & 0x38) << 2);
            for x in 0..32 {
                allowed.push(screen_byte(c.seed, visible_bank, off + x));
                allowed.push(screen_byte(c.seed, visible_bank, 0x1800 + (yy >> 3) * 32 + x));
            }
            if lo >= ws + 8 && hi + 8 <= we {
                clearly_inside = true;
            }
        }
    }
    if !in_window {
        if got != 0xFF {
            return Err(format!(
                "floating bus read of {:#06x} at frame T {} (ULA not fetching picture data): got {:#04x}, must be 0xFF",
                c.port, t, got
            ));
        }
        rec.class("beam-outside-fetch-window");
    } else {
        if got != 0xFF && !allowed.contains(&got) {
            return Err(format!(
                "floating bus read of {:#06x} at frame T {} with latch {:#04x}: got {:#04x}, which is neither 0xFF nor a display/attribute byte of the line being fetched in the ULA-visible bank {}",
                c.port, t, latch, got, visible_bank
            ));
        }
        rec.class(if got == 0xFF { "in-window:idle-0xFF" } else { "in-window:screen-byte" });
        if clearly_inside {
            rec.class("clearly-inside-window");
            // the ULA fetches during four of every eight T-states: over eight consecutive start
            // times at least one read must show a fetched byte (no screen byte here is 0xFF)
            let mut seen = got != 0xFF;
            let mut k = 1u64;
            while !seen && k < 8 {
                e.verif_set_frame_clocks((t + k) as usize);
                let g = port_in(&mut e, c.port)?;
                rec.eval();
                if g != 0xFF {
                    if !allowed.contains(&g) {
                        return Err(format!(
                            "floating bus read of {:#06x} at frame T {} with latch {:#04x}: got {:#04x}, which is neither 0xFF nor a display/attribute byte of the line being fetched in the ULA-visible bank {}",
                            c.port, t + k, latch, g, visible_bank
                        ));
                    }
                    seen = true;
                }
                k += 1;
            }
            if !seen {
                return Err(format!(
                    "unclaimed port {:#06x} read at frame T {}..{} — well inside the 128-T fetch window of a picture line whose display and attribute bytes are all different from 0xFF — returned 0xFF eight times: the floating bus must show a byte the ULA is fetching",
                    c.port, t, t + 7
                ));
            }
        }
        if visible_bank == 7 {
            rec.class("shadow-screen");
        }
        rec.nontrivial(fnv(format!("{:?}", c).as_bytes()));
    }
    Ok(())
}

pub fn floating_strategy() -> impl Strategy<Value = Floating> {
    (
        prop_oneof![Just(Machine::K48), Just(Machine::K128)],
        any::<u8>(),
        prop_oneof![
            3 => (0u32..192, 0u32..224).prop_map(|(l, x)| 14336 + l * 224 + x),
            1 => any::<u32>(),
        ],
        // odd, A15=A14 not both 1 or A1 = 1: no AY; e.g. xxFF
        prop_oneof![Just(0x00FFu16), Just(0x40FF), Just(0xFFFF), Just(0x7FFD), any::<u16>().prop_map(|p| p | 0x0003)],
        any::<u64>(),
    )
        .prop_map(|(machine, latch, t, port, seed)| Floating { machine, latch, t, port, seed })
}

// ---------------------------------------------------------------------------------------
// every picture line is fetched alike

/// The ULA fetches each of the 192 picture lines in the same way, so whether an unclaimed read
/// shows a fetched byte or 0xFF depends only on the position within the line: two reads at the same
/// offset from the start of two different picture lines (no screen byte is 0xFF) are either both
/// 0xFF or both a byte of their line.
#[derive(Clone, Debug, Serialize, Deserialize)]
pub struct LinesAlike {
    pub machine: Machine,
    pub latch: u8,
    pub y1: u8,
    pub y2: u8,
    /// instruction start relative to (start of the line's fetch window - 24)
    pub o: u16,
    pub port: u16,
    pub seed: u64,
}

pub fn check_lines_alike(c: &LinesAlike, rec: &mut Rec) -> Result<(), String> {
    let machine = c.machine;
    let cfg = Config { machine, kempston: false, mouse: false, claims: None };
    let (devs, possibly) = decode(&cfg, c.port, false);
    if !devs.is_empty() || possibly {
        return Ok(());
    }
    let (y1, y2) = (c.y1 as u64 % 192, c.y2 as u64 % 192);
    if y1 == y2 {
        return Ok(());
    }
    let mut e = mk_emu(&EmuOpts::new(machine));
    let mut mm = MemModel::new(machine, mach::rom_images(machine));
    mach::poke_bytes(&mut e, &mut mm, STUB, &[0xED, 0x78]);
    let banks: &[u8] = if machine == Machine::K48 { &[0] } else { &[5, 7] };
    for b in banks {
        let page = e.verif_ram_page_mut(*b);
        for off in 0..6912 {
            page[off] = screen_byte(c.seed, *b, off);
        }
    }
    let latch = c.latch & 0x0F;
    if machine == Machine::K128 {
        e.verif_set_paging(latch);
    }
    let first_pixel = machine.t0() as u64 + 1;
    let line = machine.line_len() as u64;
    let o = c.o as u64 % 201;
    let mut got = [0u8; 2];
    let mut ts = [0u64; 2];
    for (i, y) in [y1, y2].iter().enumerate() {
        let t = first_pixel + y * line + o - 24;
        ts[i] = t;
        e.verif_set_frame_clocks(t as usize);
        got[i] = port_in(&mut e, c.port)?;
        rec.eval();
    }
    if (got[0] == 0xFF) != (got[1] == 0xFF) {
        return Err(format!(
            "unclaimed port {:#06x} (latch {:#04x}): the read started at frame T {} (picture line {}) returned {:#04x}, the read started at T {} (picture line {}, same position within the line) returned {:#04x} — the ULA fetches every picture line alike and no screen byte is 0xFF, so both must be 0xFF or both a fetched byte",
            c.port, latch, ts[0], y1, got[0], ts[1], y2, got[1]
        ));
    }
    if got[0] != 0xFF {
        rec.nontrivial(fnv(format!("{:?}", c).as_bytes()));
        rec.class("both reads show a fetched byte");
    } else {
        rec.class("both reads 0xFF");
    }
    if y1 == 0 || y2 == 0 {
        rec.class("first picture line involved");
    }
    if y1 == 191 || y2 == 191 {
        rec.class("last picture line involved");
    }
    Ok(())
}

pub fn lines_alike_strategy() -> impl Strategy<Value = LinesAlike> {
    let y = || prop_oneof![2 => Just(0u8), 1 => Just(191u8), 1 => Just(1u8), 1 => Just(64u8), 4 => 0u8..192];
    (
        prop_oneof![Just(Machine::K48), Just(Machine::K128)],
        any::<u8>(),
        y(),
        y(),
        0u16..=200,
        prop_oneof![Just(0x00FFu16), Just(0x40FF), Just(0xFFFF), any::<u16>().prop_map(|p| p | 0x0003)],
        any::<u64>(),
    )
        .prop_map(|(machine, latch, y1, y2, o, port, seed)| LinesAlike { machine, latch, y1, y2, o, port, seed })
}

// ---------------------------------------------------------------------------------------
// the extender's claims are consulted at every access

#[derive(Clone, Debug, Serialize, Deserialize)]
pub enum ClaimOp {
    In(u16),
    Out(u16, u8),
    /// the host changes what the extender claims (exact port numbers); `replace` = a new extender
    /// object through set_io_extender, otherwise the claim list of the attached one is edited
    SetClaims { ports: Vec<u16>, replace: bool },
}

#[derive(Clone, Debug, Serialize, Deserialize)]
pub struct ClaimCase {
    pub machine: Machine,
    pub ops: Vec<ClaimOp>,
}

/// "A host I/O extender receives exactly the ports it claims": judged at every access against the
/// claims in force at that moment, also when the same port is accessed repeatedly while the host
/// changes the claims in between.
pub fn check_claims(c: &ClaimCase, rec: &mut Rec) -> Result<(), String> {
    let mut e = mk_emu(&EmuOpts::new(c.machine));
    let mut mm = MemModel::new(c.machine, mach::rom_images(c.machine));
    mach::poke_bytes(&mut e, &mut mm, STUB, &[0xED, 0x78, 0xED, 0x79]);
    e.set_io_extender(LoggingExtender::new(Vec::new(), 0x5A));
    let mut claimed: Vec<u16> = Vec::new();
    let mut last_port: Option<u16> = None;
    let mut flips_on_same_port = 0u32;
    let mut last_claim_state: std::collections::HashMap<u16, bool> = std::collections::HashMap::new();
    for (k, op) in c.ops.iter().enumerate() {
        match op {
            ClaimOp::SetClaims { ports, replace } => {
                let cl: Vec<(u16, u16)> = ports.iter().map(|p| (0xFFFFu16, *p)).collect();
                if *replace {
                    e.set_io_extender(LoggingExtender::new(cl, 0x5A));
                } else {
                    let x = e.io_extender().ok_or("harness: extender vanished")?;
                    x.claims = cl;
                }
                claimed = ports.clone();
            }
            ClaimOp::In(port) | ClaimOp::Out(port, _) => {
                let before = e.io_extender().map(|x| x.log.len()).unwrap_or(0);
                let is_claimed = claimed.contains(port);
                let want: Vec<IoLog> = match op {
                    ClaimOp::In(_) => {
                        let got = port_in(&mut e, *port)?;
                        let v = (*port as u8) ^ ((*port >> 8) as u8) ^ 0x5A;
                        if is_claimed && got != v {
                            return Err(format!("op {}: IN from {:#06x}, which the extender claims now, gave {:#04x}; the extender returns {:#04x}", k, port, got, v));
                        }
                        if is_claimed { vec![IoLog::Read(*port, v)] } else { Vec::new() }
                    }
                    ClaimOp::Out(_, val) => {
                        port_out(&mut e, *port, *val)?;
                        if is_claimed { vec![IoLog::Write(*port, *val)] } else { Vec::new() }
                    }
                    _ => unreachable!(),
                };
                rec.eval();
                let new_log: Vec<IoLog> = e.io_extender().map(|x| x.log[before.min(x.log.len())..].to_vec()).unwrap_or_default();
                if new_log != want {
                    return Err(format!(
                        "op {} ({:?}): the extender claims {:04x?} at this moment, so it must log {:?}; it logged {:?}",
                        k, op, claimed, want, new_log
                    ));
                }
                if last_port == Some(*port) && last_claim_state.get(port).copied().map(|w| w != is_claimed).unwrap_or(false) {
                    flips_on_same_port += 1;
                }
                last_claim_state.insert(*port, is_claimed);
                last_port = Some(*port);
            }
        }
    }
    if flips_on_same_port > 0 {
        rec.class("claim-changed-between-two-accesses-of-the-same-port");
        rec.nontrivial(fnv(format!("{:?}", c).as_bytes()));
    }
    Ok(())
}

pub fn claims_strategy() -> impl Strategy<Value = ClaimCase> {
    let pool = || prop_oneof![Just(0xCCCCu16), Just(0x00FE), Just(0x7FFD), Just(0xFFFD), Just(0x001F), Just(0x1234)];
    let op = prop_oneof![
        4 => pool().prop_map(ClaimOp::In),
        4 => (pool(), any::<u8>()).prop_map(|(p, v)| ClaimOp::Out(p, v & 0x1F)),
        3 => (proptest::collection::vec(pool(), 0..=3), any::<bool>()).prop_map(|(ports, replace)| ClaimOp::SetClaims { ports, replace }),
    ];
    (prop_oneof![Just(Machine::K48), Just(Machine::K128)], proptest::collection::vec(op, 2..=40)).prop_map(|(machine, ops)| ClaimCase { machine, ops })
}

fn configs(seed: u64, tier_thorough: bool) -> Vec<Config> {
    let mut v = Vec::new();
    for (machine, kempston, mouse) in [
        (Machine::K48, false, false),
        (Machine::K48, true, true),
        (Machine::K128, false, false),
        (Machine::K128, true, false),
        (Machine::K128, false, true),
        (Machine::K128, true, true),
    ] {
        v.push(Config { machine, kempston, mouse, claims: None });
    }
    // extender configurations with generated claim predicates (incl. claims overlapping built-ins)
    let mut x = seed | 1;
    let mut rnd = || {
        x ^= x << 13;
        x ^= x >> 7;
        x ^= x << 17;
        x
    };
    let n_ext = if tier_thorough { 24 } else { 3 };
    for i in 0..n_ext {
        let mut claims = vec![(0xFFFFu16, 0xCCCCu16)];
        match i % 3 {
            0 => claims.push((0x00FF, 0x00FE)), // all of the canonical ULA port
            1 => claims.push((0x8002, 0x0000)), // the whole paging class
            _ => claims.push((0xC002, 0xC000)), // AY select/read
        }
        for _ in 0..(rnd() % 3) {
            let mask = (rnd() as u16) | (1 << (rnd() % 16));
            claims.push((mask, (rnd() as u16) & mask));
        }
        v.push(Config {
            machine: if rnd() & 1 == 0 { Machine::K48 } else { Machine::K128 },
            kempston: rnd() & 2 == 0,
            mouse: rnd() & 4 == 0,
            claims: Some(claims),
        });
    }
    v
}

pub fn run(run: &mut Run) {
    let thorough = run.tier == crate::driver::Tier::Thorough;
    let mut items = Vec::new();
    for cfg in configs(run.seed, thorough) {
        for hi in 0..=255u8 {
            items.push(Block { cfg: cfg.clone(), hi });
        }
    }
    run.enumerate("address-sweep", items, true, check_block);
    let t = run.tier;
    run.explore("floating-bus", t.pick(60_000, 20_000_000), floating_strategy, check_floating);
    run.explore("floating-bus-lines-alike", t.pick(40_000, 4_000_000), lines_alike_strategy, check_lines_alike);
    run.explore("extender-claims-change", t.pick(20_000, 1_000_000), claims_strategy, check_claims);
}

pub fn replay(run: &mut Run, phase: &str, case: &serde_json::Value) -> Result<(), String> {
    match phase {
        "address-sweep" => run.replay_one::<Block, _>(phase, case, check_block),
        "floating-bus" => run.replay_one::<Floating, _>(phase, case, check_floating),
        "floating-bus-lines-alike" => run.replay_one::<LinesAlike, _>(phase, case, check_lines_alike),
        "extender-claims-change" => run.replay_one::<ClaimCase, _>(phase, case, check_claims),
        _ => Err(format!("unknown phase {}", phase)),
    }
}

pub const LEVEL: &str = "exploration";
pub const RULE: &str = "address-sweep: all 65536 port addresses x {IN A,(C), OUT (C),A} executed by the emulated CPU on 6 device configurations (machine x Kempston x mouse) plus configurations with an I/O extender whose claim predicate is generated (incl. claims overlapping ULA, paging and AY addresses); device states are made distinguishable first (distinct half-rows, joystick byte, mouse counters, 16 distinct AY registers, border, paging latch). An address is judged for routing only if the decode predicates of the property select exactly one device for that direction (or none: reads must give 0xFF in border time, writes must change nothing); every access also checks that no other device's state changed and that the extender log contains exactly the claimed accesses. floating-bus: unclaimed reads at generated beam positions and screen contents, both 128K screen banks. floating-bus-lines-alike: two unclaimed reads at the same position (swept over 200 T-states around the fetch window) within two different picture lines, first and last line favoured, no screen byte 0xFF: both 0xFF or both a fetched byte (non-trivial = both show a byte). extender-claims-change: histories of IN/OUT over a small pool of ports interleaved with the host changing what the extender claims (editing the attached extender or attaching a new one); after every access the extender's log must hold exactly what the claims in force at that moment demand. non-trivial = judged address other than the canonical ports the pinned tests use (floating: read inside the fetch window); distinct = (direction, address, configuration)";
pub const ASSUMPTIONS: &[&str] = &[
    "decode predicates are written from the property text; the Kempston mouse is judged only at xxDF addresses with (A8,A10) in {(0,0),(1,0),(1,1)}, and any other A0=1/A5=0/A7=1 address is treated as possibly-mouse (not judged) when a mouse is attached; addresses with A7=0 are never mouse addresses",
    "device state is observed through border_color(), the paging hook and the canonical AY ports 0xFFFD/0xBFFD",
    "floating-bus validity: 0xFF outside the 128-T fetch windows (8-T guard band in which anything allowed is accepted), otherwise 0xFF or a display/attribute byte of a line whose window meets the I/O cycle, read from the ULA-visible bank; well inside a window eight consecutive start times must show at least one fetched byte",
    "EAR polarity on ULA reads (bit 6) is exercised by C11, not here",
];
