//! C06 — CPU-visible memory follows the Spectrum memory map and 128K paging rules.

use crate::driver::{fnv, fp_of, Rec, Run};
use crate::host::{mk_emu, EmuOpts, Machine, MemRomSet};
use crate::mach::{self, is_paging_only_port, MemModel, Pg, RegFile};
use proptest::prelude::*;
use serde::{Deserialize, Serialize};

#[derive(Clone, Debug, Serialize, Deserialize)]
pub enum Op {
    /// OUT (C),A with BC = port
    Out { port: u16, val: u8 },
    /// LD (HL),A
    Write { addr: u16, val: u8 },
    /// LD (nn),HL — two bytes, may straddle a window edge or wrap 0xFFFF→0x0000
    WriteWord { addr: u16, val: u16 },
    /// LD A,(HL)
    Read { addr: u16 },
    /// PUSH BC with SP = addr (writes addr-1, addr-2)
    Push { sp: u16, val: u16 },
    /// the host supplies another ROM set in the middle of the history (not a paging write: the ROM
    /// selected by the latch stays selected, now with the new images)
    LoadRom { seed: u64 },
}

#[derive(Clone, Debug, Serialize, Deserialize)]
pub struct Case {
    pub machine: Machine,
    /// None = embedded ROM set; Some(seed) = host-supplied pseudo-random images
    pub custom_rom: Option<u64>,
    pub ram_seed: u64,
    pub ops: Vec<Op>,
}

const STUB: u16 = 0x8000;

fn pattern(seed: u64, bank: usize, len: usize) -> Vec<u8> {
    let mut x = seed ^ ((bank as u64 + 1).wrapping_mul(0x9E3779B97F4A7C15));
    (0..len)
        .map(|i| {
            x ^= x << 13;
            x ^= x >> 7;
            x ^= x << 17;
            (x as u8) ^ (i as u8).rotate_left(3)
        })
        .collect()
}

pub fn check(c: &Case, rec: &mut Rec) -> Result<(), String> {
    let mut opts = EmuOpts::new(c.machine);
    opts.default_rom = c.custom_rom.is_none();
    // a joystick interface (read-only device) is plugged into half of the machines
    opts.kempston = c.ram_seed % 2 == 0;
    let mut e = mk_emu(&opts);
    let roms = match c.custom_rom {
        None => mach::rom_images(c.machine),
        Some(seed) => {
            let n = if c.machine == Machine::K48 { 1 } else { 2 };
            let pages: Vec<Vec<u8>> = (0..n).map(|i| pattern(seed, 100 + i, mach::PAGE)).collect();
            // delivered in short reads for two seeds out of three
            e.load_rom(MemRomSet {
                pages: pages.clone().into(),
                chunk: if seed % 3 == 0 { 0 } else { (seed % 5000) as usize + 1 },
            })
            .map_err(|err| format!("load_rom failed: {:?}", err))?;
            pages
        }
    };
    let mut m = MemModel::new(c.machine, roms);
    // distinguishable RAM contents in every bank
    for b in 0..c.machine.ram_banks() {
        let p = pattern(c.ram_seed, b as usize, mach::PAGE);
        e.verif_ram_page_mut(b).copy_from_slice(&p);
        m.ram[b as usize] = p;
    }
    let mut accepted = false;
    let mut nontrivial = false;
    let mut alias = false;
    for (k, op) in c.ops.iter().enumerate() {
        let mut r = RegFile {
            pc: STUB,
            sp: 0xBF00,
            ..Default::default()
        };
        match op {
            Op::Out { port, val } => {
                mach::poke_bytes(&mut e, &mut m, STUB, &[0xED, 0x79]);
                r.bc = *port;
                r.af = (*val as u16) << 8;
                mach::set_regs(&mut e, &r);
                mach::step_over(&mut e, 2)?;
                if is_paging_only_port(*port) {
                    let was_locked = m.locked;
                    if m.paging_write(*val) {
                        accepted = true;
                        rec.class("paging-accepted");
                    } else if was_locked {
                        rec.class("paging-write-after-lock");
                        nontrivial = true;
                    }
                } else {
                    rec.class("near-miss-port");
                }
            }
            Op::Write { addr, val } => {
                mach::poke_bytes(&mut e, &mut m, STUB, &[0x77]);
                r.hl = *addr;
                r.af = (*val as u16) << 8;
                mach::set_regs(&mut e, &r);
                mach::step_over(&mut e, 1)?;
                if let Pg::Rom(_) = m.page_at(*addr) {
                    rec.class("rom-write-attempt");
                }
                m.write(*addr, *val);
            }
            Op::WriteWord { addr, val } => {
                let [lo, hi] = addr.to_le_bytes();
                mach::poke_bytes(&mut e, &mut m, STUB, &[0x22, lo, hi]);
                r.hl = *val;
                mach::set_regs(&mut e, &r);
                mach::step_over(&mut e, 3)?;
                m.write(*addr, *val as u8);
                m.write(addr.wrapping_add(1), (*val >> 8) as u8);
                rec.class("word-write");
            }
            Op::Push { sp, val } => {
                mach::poke_bytes(&mut e, &mut m, STUB, &[0xC5]);
                r.sp = *sp;
                r.bc = *val;
                mach::set_regs(&mut e, &r);
                mach::step_over(&mut e, 1)?;
                m.write(sp.wrapping_sub(1), (*val >> 8) as u8);
                m.write(sp.wrapping_sub(2), *val as u8);
            }
            Op::LoadRom { seed } => {
                let n = if c.machine == Machine::K48 { 1 } else { 2 };
                let pages: Vec<Vec<u8>> = (0..n).map(|i| pattern(*seed, 200 + i, mach::PAGE)).collect();
                e.load_rom(MemRomSet { pages: pages.clone().into(), chunk: (*seed % 3000) as usize }).map_err(|err| format!("op {}: load_rom failed: {:?}", k, err))?;
                m.rom = pages;
                rec.class("rom-set-reloaded-mid-history");
                if m.latch & 0x10 != 0 {
                    rec.class("rom-set-reloaded-with-rom-1-selected");
                }
            }
            Op::Read { addr } => {
                mach::poke_bytes(&mut e, &mut m, STUB, &[0x7E]);
                r.hl = *addr;
                r.af = 0;
                mach::set_regs(&mut e, &r);
                mach::step_over(&mut e, 1)?;
                let got = (mach::get_regs(&mut e).af >> 8) as u8;
                let want = m.read(*addr);
                rec.eval();
                if got != want {
                    return Err(format!(
                        "op {}: CPU read of {:#06x} gave {:#04x}, memory map says {:#04x} ({:?}, latch {:#04x}, locked {})",
                        k,
                        addr,
                        got,
                        want,
                        m.page_at(*addr),
                        m.latch,
                        m.locked
                    ));
                }
                if accepted && (*addr >= 0xC000 || *addr < 0x4000) {
                    nontrivial = true;
                }
            }
        }
        if c.machine == Machine::K128 {
            let top = m.latch & 7;
            if top == 5 || top == 2 {
                alias = true;
            }
        }
    }
    // full comparison: every CPU address through peek, every RAM bank, paging state
    for a in 0..=0xFFFFu16 {
        let got = e.peek(a);
        let want = m.read(a);
        if got != want {
            return Err(format!(
                "after history: peek({:#06x}) = {:#04x}, memory map says {:#04x} ({:?}, latch {:#04x}, locked {})",
                a,
                got,
                want,
                m.page_at(a),
                m.latch,
                m.locked
            ));
        }
    }
    rec.eval();
    for b in 0..c.machine.ram_banks() {
        if e.verif_ram_page(b) != &m.ram[b as usize][..] {
            let pos = e
                .verif_ram_page(b)
                .iter()
                .zip(m.ram[b as usize].iter())
                .position(|(x, y)| x != y)
                .unwrap();
            return Err(format!(
                "after history: RAM bank {} differs from the model at offset {:#06x}: {:#04x} vs {:#04x}",
                b,
                pos,
                e.verif_ram_page(b)[pos],
                m.ram[b as usize][pos]
            ));
        }
    }
    if c.machine == Machine::K128 {
        let (latch, enabled, screen) = e.verif_paging();
        if latch != m.latch || enabled == m.locked || screen != m.screen_bank() {
            return Err(format!(
                "paging state: emulator (latch {:#04x}, enabled {}, screen bank {}) vs model (latch {:#04x}, locked {}, screen bank {})",
                latch,
                enabled,
                screen,
                m.latch,
                m.locked,
                m.screen_bank()
            ));
        }
    }
    if alias {
        rec.class("alias-bank-5-or-2-at-c000");
        nontrivial = true;
    }
    if m.locked {
        rec.class("history-ends-locked");
    }
    rec.class(if c.machine == Machine::K48 { "48k" } else { "128k" });
    rec.class(if c.custom_rom.is_some() { "host-rom" } else { "embedded-rom" });
    if nontrivial {
        rec.nontrivial(fp_of(c));
    }
    let _ = fnv;
    Ok(())
}

fn addr_strategy() -> impl Strategy<Value = u16> {
    prop_oneof![
        3 => prop_oneof![
            Just(0x0000u16), Just(0x0001), Just(0x3FFE), Just(0x3FFF), Just(0x4000), Just(0x4001),
            Just(0x7FFF), Just(0x8000), Just(0xBFFF), Just(0xC000), Just(0xC001), Just(0xFFFE), Just(0xFFFF)
        ],
        // same offset through different windows
        3 => (0u16..4, prop_oneof![Just(0x0123u16), Just(0x3FFF), Just(0x0000), 0u16..0x4000]).prop_map(|(w, o)| (w << 14) | o),
        4 => any::<u16>(),
    ]
}

fn port_strategy() -> impl Strategy<Value = u16> {
    prop_oneof![
        5 => Just(0x7FFDu16),
        // any address of the paging class with A0 = 1
        3 => any::<u16>().prop_map(|p| (p & !0x8002) | 1),
        // near misses: A15 set, or A1 set
        1 => any::<u16>().prop_map(|p| (p | 0x8000) | 1),
        1 => any::<u16>().prop_map(|p| (p | 0x0002) | 1),
    ]
}

fn op_strategy() -> impl Strategy<Value = Op> {
    prop_oneof![
        3 => (port_strategy(), prop_oneof![3 => any::<u8>().prop_map(|v| v & !0x20), 1 => any::<u8>()]).prop_map(|(port, val)| Op::Out { port, val }),
        4 => (addr_strategy(), any::<u8>()).prop_map(|(addr, val)| Op::Write { addr, val }),
        1 => (addr_strategy(), any::<u16>()).prop_map(|(addr, val)| Op::WriteWord { addr, val }),
        1 => (addr_strategy(), any::<u16>()).prop_map(|(sp, val)| Op::Push { sp, val }),
        4 => addr_strategy().prop_map(|addr| Op::Read { addr }),
    ]
}

fn op_strategy_with_rom_reload() -> impl Strategy<Value = Op> {
    prop_oneof![
        30 => op_strategy(),
        1 => any::<u64>().prop_map(|seed| Op::LoadRom { seed }),
    ]
}

pub fn case_strategy(max_ops: usize) -> impl Strategy<Value = Case> {
    (
        prop_oneof![1 => Just(Machine::K48), 3 => Just(Machine::K128)],
        prop_oneof![2 => Just(None), 1 => any::<u64>().prop_map(Some)],
        any::<u64>(),
        proptest::collection::vec(op_strategy_with_rom_reload(), 1..=max_ops),
    )
        .prop_map(|(machine, custom_rom, ram_seed, ops)| Case {
            machine,
            custom_rom,
            ram_seed,
            ops,
        })
}

pub fn run(run: &mut Run) {
    let t = run.tier;
    run.explore("history", t.pick(100_000, 3_000_000), || case_strategy(120), check);
    run.explore("long-history", t.pick(8_000, 200_000), || case_strategy(300), check);
}

pub fn replay(run: &mut Run, phase: &str, case: &serde_json::Value) -> Result<(), String> {
    run.replay_one::<Case, _>(phase, case, check)
}

pub const LEVEL: &str = "exploration";
pub const RULE: &str = "case = machine x ROM set (embedded / host-supplied images, the latter delivered by assets that return everything at once or at most 1..5000 bytes per read call) x history of 1..300 ops over {OUT (C),A to paging-class and near-miss ports with any value, LD (HL),A, LD (nn),HL, PUSH, LD A,(HL), host load_rom of another generated ROM set} at window-edge-biased addresses, executed by the emulated CPU one instruction at a time; every read is compared with the reference memory map and after the history all 65536 peeks, every RAM bank and the paging state are compared. non-trivial = an accepted paging write followed by a read through 0x0000-0x3FFF or 0xC000-0xFFFF, or bank 5/2 paged at 0xC000 (alias), or a paging write after lock; distinct = hash of the case";
pub const ASSUMPTIONS: &[&str] = &[
    "paging-class ports are generated with A0=1 only (an even address also selects the ULA; which device wins there is outside C06)",
    "instruction stubs are placed at 0x8000 (bank 2 / 48K page 1) through the RAM hook before every op",
    "the reference memory map (about 40 lines) is written from the property text",
];
