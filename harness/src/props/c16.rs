//! C16 — emulation is deterministic and independent of how the host drives it.

use crate::driver::{fnv, Rec, Run};
use crate::formats::{sna, tap};
use crate::host::{mk_emu, set_stopwatch_script, BpMode, DynAsset, Emu, EmuOpts, Machine, MemAsset, LONG};
use crate::mach::{self, RegFile};
use proptest::prelude::*;
use rustzx_core::host::{BufferCursor, Snapshot, Tape};
use rustzx_core::zx::{joy::kempston::KempstonKey, keys::ZXKey, mouse::kempston::KempstonMouseButton};
use rustzx_core::{EmulationMode, EmulationStopReason};
use rustzx_utils::io::{FileAsset, GzipAsset};
use serde::{Deserialize, Serialize};
use std::time::Duration;

#[derive(Clone, Debug, Serialize, Deserialize)]
pub enum In {
    Key(u8, bool),
    Kempston(u8, bool),
    MouseMove(i8, i8),
    MouseButton(bool),
}

#[derive(Clone, Debug, Serialize, Deserialize)]
pub struct Scenario {
    pub machine: Machine,
    pub body: Vec<u8>,
    pub handler_nops: u16,
    pub im2: bool,
    pub ay: bool,
    pub beeper: bool,
    pub rate: u32,
    pub volume: u8,
    /// 0 none, 1 playing in real time, 2 inserted + stopped with fast loading enabled
    pub tape: u8,
    pub events: Vec<(u8, In)>,
    pub frames: u8,
    pub seed: u64,
}

#[derive(Clone, Debug, Serialize, Deserialize, PartialEq, Eq)]
pub enum Driving {
    /// FrameCount(1) per call, audio drained after every frame
    PerFrame,
    /// FrameCount(n_i) calls
    Partition(Vec<u8>),
    /// maximum-speed mode; stopwatch script kind: 0 zeros then big, 1 non-monotonic, 2 huge at once
    Max(u8),
    /// breakpoint stops after generated instruction counts, then resumption
    Breakpoints(Vec<u16>),
    /// breakpoints on program counter values (ROM tape trap address, program addresses)
    BreakAtPc(Vec<u16>),
    /// like PerFrame but audio never drained
    NeverDrain,
    /// like PerFrame but sound generation switched off
    SoundOff,
    /// like PerFrame, with the host switching sound generation on/off before each frame (bit 0
    /// of the cycled entries)
    SettingsToggled(Vec<u8>),
    /// the first j frames in maximum-speed mode, one frame per call (the stopwatch is far beyond
    /// the limit every time), the rest one frame per call at normal speed; audio drained after
    /// every frame and compared with the reference run's, frame by frame
    MaxThenPerFrame(u8),
}

#[derive(Clone, Copy, Debug, Serialize, Deserialize, PartialEq, Eq)]
pub enum AssetKind {
    Mem,
    BufferCursor,
    File,
    Gzip,
    Chunked(u8),
}

#[derive(Clone, Debug, Serialize, Deserialize)]
pub struct Case {
    pub sc: Scenario,
    pub driving: Driving,
    pub asset: AssetKind,
}

const BASE: u16 = 0x8000;
const HANDLER: u16 = 0xA000;

/// program blocks (like C05's, plus AY, paging, keyboard, EAR and Kempston reads that end up in RAM)
fn block() -> impl Strategy<Value = Vec<u8>> {
    prop_oneof![
        4 => Just(vec![0x00u8]),
        3 => (0u8..7, any::<u8>()).prop_map(|(r, n)| { let r = if r == 6 { 7 } else { r }; vec![0x06 | (r << 3), n] }),
        3 => (0x80u8..=0xBF).prop_map(|op| vec![if op & 7 == 6 { op | 1 } else { op }]),
        2 => Just(vec![0xFBu8]),
        1 => Just(vec![0xF3u8, 0x00, 0xFB]),
        2 => Just(vec![0xFBu8, 0x76]),
        3 => (any::<u8>(), prop_oneof![Just(0xB1u8), Just(0x58), Just(0x40), Just(0x48)]).prop_map(|(lo, hi)| vec![0x32, lo, hi]),
        2 => (1u8..40).prop_map(|n| vec![0x06, n, 0x10, 0xFE]),
        // beeper / border
        3 => any::<u8>().prop_map(|v| vec![0x3E, v, 0xD3, 0xFE]),
        // keyboard + EAR -> RAM
        3 => (any::<u8>(), any::<u8>()).prop_map(|(row, lo)| vec![0x3E, row, 0xDB, 0xFE, 0x32, lo, 0xB2]),
        // Kempston joystick and mouse -> RAM
        2 => any::<u8>().prop_map(|lo| vec![0xDB, 0x1F, 0x32, lo, 0xB3]),
        2 => any::<u8>().prop_map(|lo| vec![0x01, 0xDF, 0xFB, 0xED, 0x78, 0x32, lo, 0xB3, 0x01, 0xDF, 0xFA, 0xED, 0x78, 0x32, lo, 0xB4]),
        // AY register write: select r, write v, read back -> RAM
        3 => (0u8..16, any::<u8>(), any::<u8>()).prop_map(|(r, v, lo)| vec![0x01, 0xFD, 0xFF, 0x3E, r, 0xED, 0x79, 0x06, 0xBF, 0x3E, v, 0xED, 0x79, 0x06, 0xFF, 0xED, 0x78, 0x32, lo, 0xB5]),
        // 128K paging (no lock), then a write through 0xC000
        2 => (0u8..32, any::<u8>()).prop_map(|(v, d)| vec![0x01, 0xFD, 0x7F, 0x3E, v & 0x1F, 0xED, 0x79, 0x3E, d, 0x32, 0x00, 0xC0]),
        // screen traffic
        2 => (any::<u8>(), 1u8..8).prop_map(|(lo, n)| vec![0x21, lo, 0x40, 0x11, lo, 0x50, 0x01, n, 0x00, 0xED, 0xB0]),
        1 => Just(vec![0xED, 0x5F, 0x32, 0x00, 0xB6]),
        // call the ROM tape routine (served by the fast loader when a stopped tape is inserted):
        // LD IX,0xB800 ; LD DE,5 ; LD A,0xFF ; SCF ; CALL 0x0556 ; LD (0xB7F0),A
        2 => Just(vec![0xDD, 0x21, 0x00, 0xB8, 0x11, 0x05, 0x00, 0x3E, 0xFF, 0x37, 0xCD, 0x56, 0x05, 0x32, 0xF0, 0xB7]),
        // the same asking for 300 bytes (the tape's second block is that long: several buffer refills)
        1 => Just(vec![0xDD, 0x21, 0x00, 0xB9, 0x11, 0x2C, 0x01, 0x3E, 0xFF, 0x37, 0xCD, 0x56, 0x05, 0x32, 0xF1, 0xB7]),
    ]
}

pub fn scenario_strategy() -> impl Strategy<Value = Scenario> {
    (
        prop_oneof![Just(Machine::K48), Just(Machine::K128)],
        proptest::collection::vec(block(), 1..=40).prop_map(|v| v.into_iter().flatten().collect::<Vec<u8>>()),
        0u16..600,
        any::<bool>(),
        (any::<bool>(), any::<bool>(), prop_oneof![Just(44100u32), Just(48000), Just(22050), Just(11025), 8000u32..96000], 0u8..=100),
        prop_oneof![2 => Just(0u8), 1 => Just(1), 2 => Just(2), 1 => Just(3)],
        proptest::collection::vec(
            (
                0u8..12,
                prop_oneof![
                    (0u8..40, any::<bool>()).prop_map(|(k, p)| In::Key(k, p)),
                    (0u8..5, any::<bool>()).prop_map(|(k, p)| In::Kempston(k, p)),
                    (any::<i8>(), any::<i8>()).prop_map(|(x, y)| In::MouseMove(x, y)),
                    any::<bool>().prop_map(In::MouseButton),
                ],
            ),
            0..=8,
        ),
        2u8..=12,
        any::<u64>(),
    )
        .prop_map(|(machine, body, handler_nops, im2, (ay, beeper, rate, volume), tape, mut events, frames, seed)| {
            for e in events.iter_mut() {
                e.0 %= frames;
            }
            events.sort_by_key(|e| e.0);
            Scenario { machine, body, handler_nops, im2, ay, beeper, rate, volume, tape, events, frames, seed }
        })
}

/// initial machine state as a SNA file (so that the asset implementations are exercised)
pub fn initial_file(sc: &Scenario) -> Vec<u8> {
    let n = sc.machine.ram_banks() as usize;
    let mut ram: Vec<Vec<u8>> = (0..n).map(|_| vec![0u8; mach::PAGE]).collect();
    let code_bank = if sc.machine == Machine::K48 { 1 } else { 2 };
    let mut prog = sc.body.clone();
    prog.extend_from_slice(&[0xC3, BASE as u8, (BASE >> 8) as u8]);
    ram[code_bank][0..prog.len()].copy_from_slice(&prog);
    // handler: PUSH AF; PUSH HL; LD HL,0xB000; INC (HL); NOPs; POP HL; POP AF; EI; RET
    let mut h = vec![0xF5, 0xE5, 0x21, 0x00, 0xB0, 0x34];
    h.extend(std::iter::repeat(0x00).take(sc.handler_nops as usize));
    h.extend_from_slice(&[0xE1, 0xF1, 0xFB, 0xC9]);
    let ho = (HANDLER - 0x8000) as usize;
    ram[code_bank][ho..ho + h.len()].copy_from_slice(&h);
    // IM 2 table: 257 bytes of 0xA0 at 0xBE00 → vector 0xA0A0? keep it simple: word at 0xBEFF
    ram[code_bank][0x3EFF] = HANDLER as u8;
    // 0xBF00 is the next byte: high byte of the vector
    ram[code_bank][0x3F00] = (HANDLER >> 8) as u8;
    let mut regs = RegFile { pc: BASE, sp: 0xBDF0, i: 0xBE, im: if sc.im2 { 2 } else { 1 }, iff1: true, iff2: true, hl: 0xB100, ..Default::default() };
    if sc.machine == Machine::K48 {
        regs.sp = regs.sp.wrapping_sub(2);
        let so = (regs.sp - 0x8000) as usize;
        ram[1][so] = BASE as u8;
        ram[1][so + 1] = (BASE >> 8) as u8;
        sna::write_48k(&sna::SnaState { regs, border: 2, latch: 0, is_128k: false }, &ram)
    } else {
        // any bank at 0xC000: with bank 2 or 5 the file has the long 147487-byte layout
        sna::write_128k(&sna::SnaState { regs, border: 2, latch: 0x10 | (sc.seed % 8) as u8, is_128k: true }, &ram)
    }
}

struct OneByteOrSo {
    inner: MemAsset,
}

pub fn build(sc: &Scenario, asset: AssetKind, sound_on: bool) -> Result<Emu, String> {
    let mut o = EmuOpts::new(sc.machine);
    o.kempston = true;
    o.mouse = true;
    o.sound = sound_on;
    o.ay = sc.ay && sound_on;
    o.beeper = sc.beeper && sound_on;
    o.sample_rate = sc.rate as usize;
    o.volume = sc.volume;
    let mut e = mk_emu(&o);
    let file = initial_file(sc);
    let r = match asset {
        AssetKind::Mem => e.load_snapshot(Snapshot::Sna(MemAsset::new(file))),
        AssetKind::BufferCursor => e.load_snapshot(Snapshot::Sna(BufferCursor::new(file))),
        AssetKind::Chunked(n) => e.load_snapshot(Snapshot::Sna(MemAsset::chunked(file, n.max(1) as usize))),
        AssetKind::File => {
            let path = std::env::temp_dir().join(format!("rzxv-c16-{}-{:x}.sna", std::process::id(), fnv(&file) ^ sc.seed ^ (std::thread::current().id().as_u64_hack())));
            std::fs::write(&path, &file).map_err(|x| x.to_string())?;
            let f = std::fs::File::open(&path).map_err(|x| x.to_string())?;
            let r = e.load_snapshot(Snapshot::Sna(FileAsset::from(f)));
            let _ = std::fs::remove_file(&path);
            r
        }
        AssetKind::Gzip => {
            use flate2::{write::GzEncoder, Compression};
            use std::io::Write;
            let mut enc = GzEncoder::new(Vec::new(), Compression::fast());
            enc.write_all(&file).unwrap();
            let gz = enc.finish().unwrap();
            let a = GzipAsset::new(std::io::Cursor::new(gz)).map_err(|x| x.to_string())?;
            e.load_snapshot(Snapshot::Sna(a))
        }
    };
    r.map_err(|x| format!("initial snapshot through {:?}: {:?}", asset, x))?;
    if let AssetKind::Chunked(n) = asset {
        // the machine's own ROM images once more, delivered in short reads: nothing may change
        // (junk images first, so that a page that is only partly delivered does not go unnoticed)
        let junk: std::collections::VecDeque<Vec<u8>> = mach::rom_images(sc.machine).into_iter().map(|p| p.iter().map(|b| b ^ 0xFF).collect()).collect();
        e.load_rom(crate::host::MemRomSet { pages: junk, chunk: 0 }).map_err(|x| format!("load_rom: {:?}", x))?;
        let pages: std::collections::VecDeque<Vec<u8>> = mach::rom_images(sc.machine).into();
        e.load_rom(crate::host::MemRomSet { pages, chunk: n.max(1) as usize * 16 }).map_err(|x| format!("load_rom through short reads: {:?}", x))?;
    }
    let _ = OneByteOrSo { inner: MemAsset::new(vec![]) }.inner;
    // tape: 0 none, 1 inserted and playing, 2 inserted with fast loading on, 3 inserted, deck
    // stopped, fast loading off (a loader then waits on a silent input, whatever the driving)
    if sc.tape % 4 != 0 {
        let t = tap::write(&[
            tap::block(0xFF, &[0xA5, 0x3C, 0x00, 0xFF, 0x81], true),
            tap::block(0xFF, &(0..300u16).map(|i| (i * 7 + 3) as u8).collect::<Vec<u8>>(), true),
            tap::block(0xFF, &[1, 2, 3, 4, 5], true),
            tap::block(0xFF, &[9, 8, 7, 6, 5], true),
        ]);
        // the tape travels through the same kind of asset as the initial snapshot
        let ta: DynAsset = match asset {
            AssetKind::Mem => DynAsset::new(MemAsset::new(t)),
            AssetKind::BufferCursor => DynAsset::new(BufferCursor::new(t)),
            AssetKind::Chunked(n) => DynAsset::new(MemAsset::chunked(t, n.max(1) as usize)),
            AssetKind::File => {
                let path = std::env::temp_dir().join(format!("rzxv-c16-{}-{:x}.tap", std::process::id(), fnv(&t) ^ sc.seed ^ (std::thread::current().id().as_u64_hack())));
                std::fs::write(&path, &t).map_err(|x| x.to_string())?;
                let f = std::fs::File::open(&path).map_err(|x| x.to_string())?;
                let _ = std::fs::remove_file(&path);
                DynAsset::new(FileAsset::from(f))
            }
            AssetKind::Gzip => {
                use flate2::{write::GzEncoder, Compression};
                use std::io::Write;
                let mut enc = GzEncoder::new(Vec::new(), Compression::fast());
                enc.write_all(&t).unwrap();
                let gz = enc.finish().unwrap();
                DynAsset::new(GzipAsset::new(std::io::Cursor::new(gz)).map_err(|x| x.to_string())?)
            }
        };
        e.load_tape(Tape::Tap(ta)).map_err(|x| format!("{:?}", x))?;
        match sc.tape % 4 {
            1 => e.play_tape(),
            2 => e.set_fast_load(true),
            _ => {}
        }
    }
    Ok(e)
}

trait ThreadIdHack {
    fn as_u64_hack(&self) -> u64;
}
impl ThreadIdHack for std::thread::ThreadId {
    fn as_u64_hack(&self) -> u64 {
        fnv(format!("{:?}", self).as_bytes())
    }
}

fn apply(e: &mut Emu, ev: &In) {
    match ev {
        In::Key(k, p) => e.send_key(crate::props::c17::MATRIX[*k as usize % 40].0, *p),
        In::Kempston(k, p) => e.send_kempston_key(
            [KempstonKey::Right, KempstonKey::Left, KempstonKey::Down, KempstonKey::Up, KempstonKey::Fire][*k as usize % 5],
            *p,
        ),
        In::MouseMove(x, y) => e.send_mouse_pos_diff(*x, *y),
        In::MouseButton(p) => e.send_mouse_button(KempstonMouseButton::Left, *p),
    }
    let _ = ZXKey::A;
}

pub fn hash_state(e: &mut Emu, machine: Machine) -> u64 {
    let regs = mach::get_regs(e);
    let (latch, en, sb) = e.verif_paging();
    let border: u8 = e.border_color().into();
    let mut h = fnv(format!("{:?}{}{}{}{}{}{}", regs, latch, en, sb, border, e.verif_frame_clocks(), e.verif_cpu().halted).as_bytes());
    for b in 0..machine.ram_banks() {
        h = h.rotate_left(9) ^ fnv(e.verif_ram_page(b));
    }
    h = h.rotate_left(9) ^ fnv(&e.screen_buffer().px);
    h = h.rotate_left(9) ^ fnv(&e.border_buffer().px);
    h
}

pub struct Trace {
    /// (total frames, state hash) at every stop that coincides with a frame boundary
    pub points: Vec<(u64, u64)>,
    /// audio bits per frame index (only for drivings that drain after every frame)
    pub audio: Vec<Vec<(u32, u32)>>,
    pub undrained_max: usize,
}

/// A FrameCount(1) call reports `Completed` exactly when a frame ended during that call — also when
/// the call resumes after a breakpoint stop (even one on the very instruction that crossed the
/// frame end): a host that counts `Completed` returns as frames must not be told of a frame that
/// was not emulated.
fn completed_means_one_frame(reason: &EmulationStopReason, frames_in_call: u64) -> Result<(), String> {
    if *reason == EmulationStopReason::Completed && frames_in_call != 1 {
        return Err(format!(
            "a FrameCount(1) call resumed after a breakpoint stop reported Completed although {} frames ended during the call",
            frames_in_call
        ));
    }
    Ok(())
}

pub fn drive(sc: &Scenario, e: &mut Emu, d: &Driving) -> Result<Trace, String> {
    let k = sc.frames as u64;
    let f0 = e.verif_total_frames();
    let total = |e: &Emu| e.verif_total_frames() - f0;
    let mut tr = Trace { points: Vec::new(), audio: Vec::new(), undrained_max: 0 };
    let mut ev_i = 0usize;
    let mut part_i = 0usize;
    let mut bp_i = 0usize;
    if *d == Driving::SoundOff {
        e.set_sound(false);
    }
    while total(e) < k {
        let now = total(e);
        // inputs are applied at frame boundaries
        while ev_i < sc.events.len() && sc.events[ev_i].0 as u64 <= now {
            apply(e, &sc.events[ev_i].1);
            ev_i += 1;
        }
        let next_event = sc.events.get(ev_i).map(|x| x.0 as u64).unwrap_or(k).max(now + 1).min(k);
        match d {
            Driving::SettingsToggled(bits) => {
                let b = bits[(now as usize) % bits.len()];
                e.set_sound(b & 1 == 1);
                e.set_speed(EmulationMode::FrameCount(1));
                e.debug_interface().unwrap().mode = BpMode::Never;
                e.emulate_frames(LONG).map_err(|x| format!("{:?}", x))?;
            }
            Driving::PerFrame | Driving::NeverDrain | Driving::SoundOff => {
                e.set_speed(EmulationMode::FrameCount(1));
                e.debug_interface().unwrap().mode = BpMode::Never;
                e.emulate_frames(LONG).map_err(|x| format!("{:?}", x))?;
            }
            Driving::Partition(parts) => {
                let want = (parts[part_i % parts.len()].max(1) as u64).min(next_event - now);
                part_i += 1;
                e.set_speed(EmulationMode::FrameCount(want as usize));
                e.debug_interface().unwrap().mode = BpMode::Never;
                // a FrameCount(n) call is n frames whatever the host's stopwatch reads and whatever
                // time limit it passes: every other call sees a stopwatch far beyond a 1 ms limit,
                // or one that jumps back and forth across it
                let (limit, script) = match part_i % 3 {
                    0 => (LONG, vec![]),
                    1 => (Duration::from_micros(1000), vec![u64::MAX / 4]),
                    _ => (Duration::from_micros(1000), vec![5000, 3, 900, 1_000_000, 0]),
                };
                set_stopwatch_script(script.clone());
                let info = e.emulate_frames(limit).map_err(|x| format!("{:?}", x))?;
                set_stopwatch_script(vec![]);
                if total(e) - now != want || info.stop_reason != EmulationStopReason::Completed {
                    return Err(format!(
                        "a FrameCount({}) call emulated {} frames and reported {} (time limit {:?}, scripted stopwatch readings {:?} us)",
                        want, total(e) - now, match info.stop_reason { EmulationStopReason::Completed => "Completed", EmulationStopReason::Timeout => "Timeout", _ => "Breakpoint" }, limit, script
                    ));
                }
            }
            Driving::Max(kind) => {
                let n = (next_event - now) as usize;
                e.set_speed(EmulationMode::Max);
                e.debug_interface().unwrap().mode = BpMode::Never;
                // the loop stops after the frame whose stopwatch reading exceeds the limit
                let limit = Duration::from_micros(1000);
                let mut readings: Vec<u64> = match kind % 3 {
                    0 => vec![0; n - 1],
                    1 => (0..n - 1).map(|i| if i % 2 == 0 { 900 } else { 3 }).collect(),
                    _ => vec![1000; n - 1],
                };
                readings.push(u64::MAX / 4);
                set_stopwatch_script(readings);
                let info = e.emulate_frames(limit).map_err(|x| format!("{:?}", x))?;
                if info.stop_reason != EmulationStopReason::Timeout {
                    return Err("maximum-speed mode did not stop on the stopwatch".into());
                }
            }
            Driving::MaxThenPerFrame(j) => {
                e.debug_interface().unwrap().mode = BpMode::Never;
                if now < *j as u64 {
                    e.set_speed(EmulationMode::Max);
                    set_stopwatch_script(vec![u64::MAX / 4]);
                    let info = e.emulate_frames(Duration::from_micros(1000)).map_err(|x| format!("{:?}", x))?;
                    set_stopwatch_script(vec![]);
                    if info.stop_reason != EmulationStopReason::Timeout {
                        return Err("maximum-speed mode did not stop on the stopwatch".into());
                    }
                } else {
                    e.set_speed(EmulationMode::FrameCount(1));
                    e.emulate_frames(LONG).map_err(|x| format!("{:?}", x))?;
                }
            }
            Driving::BreakAtPc(addrs) => {
                e.set_speed(EmulationMode::FrameCount(1));
                e.debug_interface().unwrap().mode = BpMode::At(addrs.clone());
                let info = e.emulate_frames(LONG).map_err(|x| format!("{:?}", x))?;
                completed_means_one_frame(&info.stop_reason, total(e) - now)?;
            }
            Driving::Breakpoints(steps) => {
                e.set_speed(EmulationMode::FrameCount(1));
                let n = steps[bp_i % steps.len()].max(1) as u64;
                bp_i += 1;
                e.debug_interface().unwrap().mode = BpMode::AfterCalls(n);
                let info = e.emulate_frames(LONG).map_err(|x| format!("{:?}", x))?;
                completed_means_one_frame(&info.stop_reason, total(e) - now)?;
            }
        }
        let after = total(e);
        if after > now {
            if after > next_event {
                return Err(format!("driving {:?} overshot: asked to stop at frame {}, is at {}", d, next_event, after));
            }
            let h = hash_state(e, sc.machine);
            tr.points.push((after, h));
            match d {
                Driving::NeverDrain => {}
                _ => {
                    let mut a = Vec::new();
                    while let Some(s) = e.next_audio_sample() {
                        a.push((s.left.to_bits(), s.right.to_bits()));
                    }
                    tr.audio.push(a);
                }
            }
        }
    }
    if *d == Driving::NeverDrain {
        let mut n = 0;
        while e.next_audio_sample().is_some() {
            n += 1;
        }
        tr.undrained_max = n;
    }
    Ok(tr)
}

pub fn check(c: &Case, rec: &mut Rec) -> Result<(), String> {
    let sc = &c.sc;
    // reference driving: one frame per call, drained, in-memory asset
    let mut e0 = build(sc, AssetKind::Mem, true)?;
    let t0 = drive(sc, &mut e0, &Driving::PerFrame)?;
    // the driving / asset under test
    let sound_on = true;
    let mut e1 = build(sc, c.asset, sound_on)?;
    let t1 = drive(sc, &mut e1, &c.driving)?;
    rec.eval();
    let mut compared = 0;
    for (f, h) in &t1.points {
        match t0.points.iter().find(|(f0, _)| f0 == f) {
            Some((_, h0)) => {
                compared += 1;
                if h != h0 {
                    return Err(format!(
                        "after {} frames the state (registers, RAM, paging, frame clock, canvas, border) reached by driving {:?} with asset {:?} differs from the one-frame-per-call run ({} frames, {} input events)",
                        f, c.driving, c.asset, sc.frames, sc.events.len()
                    ));
                }
            }
            None => return Err(format!("driving stopped at frame {} which the per-frame run never reported", f)),
        }
    }
    if compared == 0 || t1.points.last().map(|p| p.0) != Some(sc.frames as u64) {
        return Err("harness: driving did not reach the final frame".into());
    }
    // audio: identical when drained identically (per-frame drivings through other assets / repeated)
    if matches!(c.driving, Driving::PerFrame | Driving::MaxThenPerFrame(_)) {
        if t1.audio != t0.audio {
            let fi = t1.audio.iter().zip(t0.audio.iter()).position(|(a, b)| a != b);
            return Err(format!(
                "audio stream drained frame by frame differs between the one-frame-per-call run and {} (asset {:?}): first differing frame {:?}",
                match &c.driving { Driving::MaxThenPerFrame(j) => format!("a run whose first {} frames were emulated in maximum-speed mode, one frame per call", j), _ => "an identical second run".to_string() },
                c.asset, fi
            ));
        }
        rec.class("audio-compared");
    }
    if c.driving == Driving::NeverDrain {
        let per_frame = sc.rate as usize / 50;
        if t1.undrained_max >= 2 * per_frame {
            return Err(format!("never-drained audio queue holds {} samples, two frames' worth is {}", t1.undrained_max, 2 * per_frame));
        }
        rec.class("never-drained");
    }
    let crosses = sc.frames >= 2;
    let different = !matches!(c.driving, Driving::PerFrame) || c.asset != AssetKind::Mem;
    if crosses && different {
        rec.nontrivial(fnv(format!("{:?}", c).as_bytes()));
    }
    rec.class(&format!("driving:{}", match &c.driving {
        Driving::PerFrame => "per-frame(repeat)",
        Driving::Partition(_) => "partition",
        Driving::Max(_) => "max-speed",
        Driving::Breakpoints(_) => "breakpoints",
        Driving::BreakAtPc(_) => "breakpoints-at-pc",
        Driving::NeverDrain => "never-drain",
        Driving::SoundOff => "sound-off",
        Driving::SettingsToggled(_) => "sound-toggled-between-frames",
        Driving::MaxThenPerFrame(_) => "max-speed-frames-then-per-frame(audio compared)",
    }));
    rec.class(&format!("asset:{}", match c.asset {
        AssetKind::Mem => "harness-mem",
        AssetKind::BufferCursor => "BufferCursor",
        AssetKind::File => "FileAsset",
        AssetKind::Gzip => "GzipAsset",
        AssetKind::Chunked(_) => "short-reads",
    }));
    Ok(())
}

pub fn case_strategy() -> impl Strategy<Value = Case> {
    (
        scenario_strategy(),
        prop_oneof![
            2 => Just(Driving::PerFrame),
            3 => proptest::collection::vec(1u8..8, 1..=5).prop_map(Driving::Partition),
            3 => (0u8..3).prop_map(Driving::Max),
            3 => proptest::collection::vec(prop_oneof![Just(1u16), 1u16..50, 50u16..5000, 5000u16..40000], 1..=6).prop_map(Driving::Breakpoints),
            2 => proptest::collection::vec(prop_oneof![Just(0x056Bu16), Just(0x0556), Just(0x0038), Just(0x053F), 0x8000u16..0x8040, Just(0xA000)], 1..=4).prop_map(Driving::BreakAtPc),
            1 => Just(Driving::NeverDrain),
            1 => Just(Driving::SoundOff),
            1 => proptest::collection::vec(any::<u8>(), 1..=6).prop_map(Driving::SettingsToggled),
            2 => (1u8..8).prop_map(Driving::MaxThenPerFrame),
        ],
        prop_oneof![3 => Just(AssetKind::Mem), 1 => Just(AssetKind::BufferCursor), 1 => Just(AssetKind::File), 1 => Just(AssetKind::Gzip), 2 => (1u8..=255).prop_map(AssetKind::Chunked)],
    )
        .prop_map(|(sc, driving, asset)| Case { sc, driving, asset })
}

/// The ROM tape routine entered so that the instruction which reaches the fast loader's trap
/// address (0x056B) is the one during which a frame ends. The call is placed by a calibrated
/// delay loop (a probe run with a breakpoint on 0x0556 tells where an uncalibrated program enters
/// the routine); 32 consecutive paddings of 4 T-states sweep the end of `CP A` (the instruction in
/// front of the trap) across the frame boundary, so every alignment occurs.
#[derive(Clone, Debug, Serialize, Deserialize)]
pub struct EdgeCase {
    pub machine: Machine,
    pub pad: u8,
    /// 0 Partition([2]), 1 Partition([3]), 2 Max(0), 3 Max(2), 4 Partition([1,2])
    pub driving: u8,
    pub ay: bool,
}

fn edge_scenario(c: &EdgeCase, n: u16) -> Scenario {
    let mut body = vec![0xF3, 0x01, n as u8, (n >> 8) as u8, 0x0B, 0x78, 0xB1, 0x20, 0xFB];
    body.extend(std::iter::repeat(0x00).take(c.pad as usize));
    body.extend_from_slice(&[0xDD, 0x21, 0x00, 0xB8, 0x11, 0x05, 0x00, 0x3E, 0xFF, 0x37, 0xCD, 0x56, 0x05, 0x32, 0xF0, 0xB7]);
    Scenario {
        machine: c.machine,
        body,
        handler_nops: 0,
        im2: false,
        ay: c.ay,
        beeper: true,
        rate: 44100,
        volume: 100,
        tape: 2,
        events: vec![],
        frames: 3,
        seed: c.pad as u64,
    }
}

pub fn check_edge(c: &EdgeCase, rec: &mut Rec) -> Result<(), String> {
    const N0: u16 = 2000;
    let flen = c.machine.frame_len() as i64;
    // probe: where does the uncalibrated program enter the ROM routine?
    let probe = EdgeCase { pad: 0, ..c.clone() };
    let mut e = build(&edge_scenario(&probe, N0), AssetKind::Mem, true)?;
    let f0 = e.verif_total_frames();
    e.set_speed(EmulationMode::FrameCount(1));
    e.debug_interface().unwrap().mode = BpMode::At(vec![0x0556]);
    let info = e.emulate_frames(LONG).map_err(|x| format!("{:?}", x))?;
    if info.stop_reason != EmulationStopReason::Breakpoint || e.verif_total_frames() != f0 {
        return Err("harness: probe did not stop at 0x0556 within the first frame".into());
    }
    let t0 = e.verif_frame_clocks() as i64;
    // CP A starts 84 T-states after the entry; with pad = 16 it should start just before the frame end
    let n = N0 as i64 + (flen - 2 - 84 - 64 - t0).div_euclid(26);
    if !(1..60000).contains(&n) {
        return Err(format!("harness: calibration out of range (entry at {} with {} iterations)", t0, N0));
    }
    let sc = edge_scenario(c, n as u16);
    // is the trap reached by the frame-crossing instruction? (a breakpoint on the trap address:
    // the block has been loaded by then and the first frame has just ended)
    let mut e = build(&sc, AssetKind::Mem, true)?;
    let f0 = e.verif_total_frames();
    e.set_speed(EmulationMode::FrameCount(1));
    e.debug_interface().unwrap().mode = BpMode::At(vec![0x056B]);
    let info = e.emulate_frames(LONG).map_err(|x| format!("{:?}", x))?;
    let aligned = info.stop_reason == EmulationStopReason::Breakpoint && e.verif_total_frames() == f0 + 1 && e.verif_frame_clocks() < 4;
    let before = info.stop_reason == EmulationStopReason::Breakpoint && e.verif_total_frames() == f0;
    let driving = match c.driving % 5 {
        0 => Driving::Partition(vec![2]),
        1 => Driving::Partition(vec![3]),
        2 => Driving::Max(0),
        3 => Driving::Max(2),
        _ => Driving::Partition(vec![1, 2]),
    };
    let case = Case { sc, driving, asset: AssetKind::Mem };
    let mut inner = Rec::default();
    check(&case, &mut inner).map_err(|m| format!("{} [trap entered with padding {}: {}]", m, c.pad, if aligned { "the instruction in front of the trap address crosses the frame end" } else if before { "trap reached before the frame end" } else { "trap reached after the frame end" }))?;
    rec.eval();
    if aligned {
        rec.nontrivial(fnv(format!("{:?}", c).as_bytes()));
        rec.class("trap reached by the frame-crossing instruction");
    } else if before {
        rec.class("trap reached before the frame end");
    } else {
        rec.class("trap reached after the frame end");
    }
    Ok(())
}

pub fn run(run: &mut Run) {
    let t = run.tier;
    run.explore("drivings", t.pick(8_000, 200_000), case_strategy, check);
    let mut edges = Vec::new();
    for machine in [Machine::K48, Machine::K128] {
        for pad in 0..32u8 {
            for driving in 0..5u8 {
                edges.push(EdgeCase { machine, pad, driving, ay: pad % 2 == 0 });
            }
        }
    }
    run.enumerate("event-on-the-frame-crossing-instruction", edges, true, check_edge);
}

pub fn replay(run: &mut Run, phase: &str, case: &serde_json::Value) -> Result<(), String> {
    if phase == "event-on-the-frame-crossing-instruction" {
        return run.replay_one::<EdgeCase, _>(phase, case, check_edge);
    }
    run.replay_one::<Case, _>(phase, case, check)
}

pub const LEVEL: &str = "exploration";
pub const RULE: &str = "scenario = machine x generated interrupt-driven program (ALU, memory and screen writes, beeper/border OUTs, keyboard+EAR, Kempston and mouse reads stored to RAM, AY register writes with read-back, 128K paging, LDIR, HALT, EI/DI) with a self-counting IM 1 / IM 2 handler x sound settings (AY, beeper, sample rate 8000..96000, volume) x tape (none / playing / stopped with fast loading on / stopped with fast loading off) x input script (key / joystick / mouse events attached to frame indices) x K = 2..12 frames, started from a SNA file. The reference run drives it one frame per call, draining audio. The run under test uses one of: the same again (repeatability, audio compared bit for bit), a partition into FrameCount(n) calls (each of which must complete exactly n frames and report Completed, also with a scripted stopwatch far beyond or jumping across a 1 ms time limit), maximum-speed mode with scripted stopwatch readings (zeros, non-monotonic, large), breakpoint stops after generated instruction counts (single-stepping included) or on generated program-counter values with resumption (a FrameCount(1) call resumed after such a stop reports Completed exactly when one frame ended during that call), audio never drained, sound switched off, sound switched on and off between frames, the first 1..7 frames in maximum-speed mode one frame per call and the rest at normal speed (audio drained after every frame must equal the reference run's bit for bit, in the maximum-speed frames and after them); and delivers the initial file, the tape image and (with short reads) the ROM images through the harness asset, rustzx's BufferCursor, a real temporary file (FileAsset), GzipAsset, or an asset returning 1..255 bytes per read. At every frame count where the run under test stops on a frame boundary, a hash of registers, all RAM banks, paging, frame clock, canvas and border buffers must equal the reference run's. non-trivial = >= 2 frames and a driving or asset different from the reference; distinct = hash of the case. Phase event-on-the-frame-crossing-instruction (enumerated): a program that enters the ROM tape routine (stopped tape, fast loading on) after a calibrated delay, 32 consecutive paddings of 4 T-states x both machines x five drivings, so that for some padding the instruction in front of the fast loader's trap address is the one during which the frame ends; the same comparison against the one-frame-per-call run; non-trivial there = a probe run with a breakpoint on the trap address stops with the frame counter just advanced and fewer than 4 T-states on the frame clock";
pub const ASSUMPTIONS: &[&str] = &[
    "inputs are applied between emulate_frames calls at the same frame indices in all drivings (the property's 'inputs applied at frame boundaries')",
    "total frame count comes from the cfg(rustzx_verif) frame counter hook",
];
