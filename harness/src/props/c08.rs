//! C08 — the displayed picture is the standard decode of the ULA-visible screen memory.

use crate::driver::{fnv, Rec, Run};
use crate::formats::{sna, szx, tap};
use crate::host::{mk_emu, DynAsset, Emu, EmuOpts, Machine, MemAsset};
use crate::mach::{self, MemModel, RegFile};
use proptest::prelude::*;
use rustzx_core::host::{Screen, Snapshot, Tape};
use rustzx_core::poke::{Poke, PokeAction};
use serde::{Deserialize, Serialize};

#[derive(Clone, Copy, Debug, PartialEq, Eq, Serialize, Deserialize)]
pub enum Path {
    /// CPU LDIR through 0x4000
    Ldir4000,
    /// CPU LDIR through 0xC000 with this bank paged there (128K; bank 5 or 7)
    LdirC000(u8),
    Poke,
    /// execute_poke addressed through 0xC000 with this bank paged there (128K; bank 5 or 7)
    PokeC000(u8),
    Scr,
    Sna,
    SzxStored,
    SzxZlib,
    /// ROM LD-BYTES call served by the fast loader, destination 0x4000
    TapeFastLoad,
    /// the same with destination 0xC000 and this bank paged there (128K; bank 5 or 7)
    TapeFastLoadC000(u8),
}

#[derive(Clone, Debug, Serialize, Deserialize)]
pub struct Case {
    pub machine: Machine,
    pub shadow: bool,
    pub path: Path,
    pub kind: u8,
    pub seed: u64,
    pub frames: u8,
    /// 128K: values the program then writes to the paging port with real OUTs (a value with bit 5
    /// locks the latch; later writes must not change which bank is displayed)
    #[serde(default)]
    pub paging_writes: Vec<u8>,
    /// 48K: after the judged frames the host takes a SNA snapshot with SP = 0x4000 + this offset
    /// (the format parks PC in the two bytes below SP, inside the display file); the memory is as
    /// before afterwards, so the picture must be too
    #[serde(default)]
    pub save_with_sp_in_screen: Option<u16>,
}

pub fn content(kind: u8, seed: u64) -> Vec<u8> {
    let mut x = seed | 1;
    let mut rnd = move || {
        x ^= x << 13;
        x ^= x >> 7;
        x ^= x << 17;
        x
    };
    let mut v = vec![0u8; 6912];
    match kind % 5 {
        0 => {
            for b in v.iter_mut() {
                *b = rnd() as u8;
            }
        }
        1 => {
            // single bits set, every attribute value 0..255 three times over
            for _ in 0..200 {
                let o = (rnd() % 6144) as usize;
                v[o] = 1 << (rnd() % 8);
            }
            for i in 0..768 {
                v[6144 + i] = (i % 256) as u8;
            }
        }
        2 => {
            // per-third patterns: distinguishes the Y7Y6 / Y2Y1Y0 / Y5Y4Y3 address bits
            for o in 0..6144 {
                let third = o >> 11;
                let pixrow = (o >> 8) & 7;
                let charrow = (o >> 5) & 7;
                v[o] = ((third as u8) << 6) | ((pixrow as u8) << 3) | charrow as u8;
            }
            for i in 0..768 {
                v[6144 + i] = 0x38 ^ ((i as u8) & 0x47);
            }
        }
        3 => {
            // BRIGHT + FLASH everywhere with random ink/paper
            for o in 0..6144 {
                v[o] = rnd() as u8;
            }
            for i in 0..768 {
                v[6144 + i] = 0xC0 | (rnd() as u8 & 0x3F);
            }
        }
        _ => {
            for o in 0..6144 {
                v[o] = if rnd() % 4 == 0 { rnd() as u8 } else { 0 };
            }
            for i in 0..768 {
                v[6144 + i] = rnd() as u8;
            }
        }
    }
    v
}

/// Standard decode, written from the property text. Returns colour | bright << 3 per pixel.
pub fn decode(mem: &[u8], flash_phase: bool) -> Vec<u8> {
    let mut out = vec![0u8; 256 * 192];
    for y in 0..192usize {
        for x in 0..256usize {
            let off = ((y & 0xC0) << 5) | ((y & 7) << 8) | ((y & 0x38) << 2) | (x >> 3);
            let bit = (mem[off] >> (7 - (x & 7))) & 1 == 1;
            let attr = mem[0x1800 + (y >> 3) * 32 + (x >> 3)];
            let (mut ink, mut paper) = (attr & 7, (attr >> 3) & 7);
            if attr & 0x80 != 0 && flash_phase {
                std::mem::swap(&mut ink, &mut paper);
            }
            let bright = (attr >> 6) & 1;
            out[y * 256 + x] = (if bit { ink } else { paper }) | (bright << 3);
        }
    }
    out
}

const LOOP: u16 = 0x8000;

struct OnePoke(Vec<PokeAction>);
impl Poke for OnePoke {
    fn actions(&self) -> &[PokeAction] {
        &self.0
    }
}

fn visible_bank(machine: Machine, shadow: bool) -> u8 {
    match machine {
        Machine::K48 => 0,
        Machine::K128 => {
            if shadow {
                7
            } else {
                5
            }
        }
    }
}

/// Puts `bytes` into the machine by `path`; returns the RAM bank that received them.
fn deliver(e: &mut Emu, mm: &mut MemModel, c: &Case, bytes: &[u8]) -> Result<u8, String> {
    let machine = c.machine;
    let latch_shadow = if c.shadow { 0x08 } else { 0x00 };
    let idle = |e: &mut Emu, mm: &mut MemModel| {
        mach::poke_bytes(e, mm, LOOP, &[0xF3, 0x18, 0xFE]);
        let r = RegFile { pc: LOOP, sp: 0xBF00, ..Default::default() };
        mach::set_regs(e, &r);
    };
    match c.path {
        Path::Ldir4000 | Path::LdirC000(_) => {
            let (dest, latch, bank) = match c.path {
                Path::LdirC000(b) if machine == Machine::K128 => (0xC000u16, latch_shadow | (b & 7), b & 7),
                _ => (0x4000u16, latch_shadow, visible_bank(machine, false)),
            };
            if machine == Machine::K128 {
                e.verif_set_paging(latch);
                mm.latch = latch;
            }
            mach::poke_bytes(e, mm, 0x8100, bytes);
            let [dl, dh] = dest.to_le_bytes();
            mach::poke_bytes(e, mm, LOOP, &[0xF3, 0x21, 0x00, 0x81, 0x11, dl, dh, 0x01, 0x00, 0x1B, 0xED, 0xB0, 0x18, 0xFE]);
            let r = RegFile { pc: LOOP, sp: 0xBF00, ..Default::default() };
            mach::set_regs(e, &r);
            if mach::run_to(e, &[LOOP + 12], 10)?.is_none() {
                return Err("LDIR copy program did not finish in 10 frames".into());
            }
            Ok(bank)
        }
        Path::Poke => {
            if machine == Machine::K128 {
                e.verif_set_paging(latch_shadow);
                mm.latch = latch_shadow;
            }
            idle(e, mm);
            let mut actions: Vec<PokeAction> = bytes.iter().enumerate().map(|(i, b)| PokeAction::mem(0x4000 + i as u16, *b)).collect();
            // one poke list may span several 16 KiB windows: an action outside the screen comes
            // first (or in the middle) — each action lands in the bank its own address maps to
            match c.seed % 3 {
                0 => actions.insert(0, PokeAction::mem(0x9000, 0x5A)),
                1 => actions.insert(3000, PokeAction::mem(0xC123, 0xA5)),
                _ => {}
            }
            e.execute_poke(OnePoke(actions));
            Ok(visible_bank(machine, false))
        }
        Path::PokeC000(b) => {
            let bank = if machine == Machine::K128 { b & 7 } else { 2 };
            if machine == Machine::K128 {
                e.verif_set_paging(latch_shadow | bank);
                mm.latch = latch_shadow | bank;
            }
            idle(e, mm);
            let actions: Vec<PokeAction> = bytes.iter().enumerate().map(|(i, b)| PokeAction::mem(0xC000 + i as u16, *b)).collect();
            e.execute_poke(OnePoke(actions));
            Ok(bank)
        }
        Path::Scr => {
            if machine == Machine::K128 {
                e.verif_set_paging(latch_shadow);
                mm.latch = latch_shadow;
            }
            let chunk = [0usize, 1, 33, 6911][(c.seed % 4) as usize];
            e.load_screen(Screen::Scr(MemAsset::chunked(bytes.to_vec(), chunk))).map_err(|x| format!("load_screen failed: {:?}", x))?;
            Ok(visible_bank(machine, false))
        }
        Path::Sna | Path::SzxStored | Path::SzxZlib => {
            // RAM image: screen bytes in the bank the file's latch displays, idle loop at 0x8000
            let nb = machine.ram_banks() as usize;
            let mut ram: Vec<Vec<u8>> = (0..nb).map(|_| vec![0u8; mach::PAGE]).collect();
            let vb = visible_bank(machine, c.shadow) as usize;
            ram[vb][..6912].copy_from_slice(bytes);
            let code_bank = if machine == Machine::K48 { 1 } else { 2 };
            ram[code_bank][0..3].copy_from_slice(&[0xF3, 0x18, 0xFE]);
            let mut regs = RegFile { pc: LOOP, sp: 0xBF00, im: 1, ..Default::default() };
            let file = match c.path {
                Path::Sna => {
                    if machine == Machine::K48 {
                        // PC travels on the stack
                        regs.sp = 0xBEFE;
                        ram[1][0x3EFE] = LOOP as u8;
                        ram[1][0x3EFF] = (LOOP >> 8) as u8;
                        sna::write_48k(&sna::SnaState { regs, border: 1, latch: 0, is_128k: false }, &ram)
                    } else {
                        sna::write_128k(&sna::SnaState { regs, border: 1, latch: latch_shadow, is_128k: true }, &ram)
                    }
                }
                _ => {
                    let st = szx::SzxState {
                        machine_id: if machine == Machine::K48 { 1 } else { 2 },
                        regs,
                        memptr: 0,
                        cycles: 0,
                        halted: false,
                        ei_last: false,
                        f_set: false,
                        border: 1,
                        latch: latch_shadow,
                        fe: 1,
                        ay: None,
                        kempston_joystick: None,
                        mouse: None,
                    };
                    let mut layout = szx::Layout::default();
                    if c.path == Path::SzxZlib {
                        layout.compress_pages = vec![true; 8];
                    }
                    szx::write(&st, &ram, &layout)
                }
            };
            let asset = MemAsset::chunked(file, [0usize, 1, 100, 16383][(c.seed % 4) as usize]);
            let res = match c.path {
                Path::Sna => e.load_snapshot(Snapshot::Sna(asset)),
                _ => e.load_snapshot(Snapshot::Szx(asset)),
            };
            res.map_err(|x| format!("load_snapshot failed: {:?}", x))?;
            Ok(vb as u8)
        }
        Path::TapeFastLoad | Path::TapeFastLoadC000(_) => {
            // LD-BYTES (0x0556) with IX = 0x4000 (0xC000), DE = 6912, A = 0xFF, carry set, called from RAM
            let (dest, bank_bits, bank) = match c.path {
                Path::TapeFastLoadC000(b) if machine == Machine::K128 => (0xC000u16, b & 7, b & 7),
                _ => (0x4000u16, 0, visible_bank(machine, false)),
            };
            if machine == Machine::K128 {
                let latch = latch_shadow | 0x10 | bank_bits; // ROM 1 = 48K BASIC ROM
                e.verif_set_paging(latch);
                mm.latch = latch;
            }
            let t = tap::write(&[tap::block(0xFF, bytes, true)]);
            e.load_tape(Tape::Tap(DynAsset::new(MemAsset::new(t)))).map_err(|x| format!("load_tape: {:?}", x))?;
            e.set_fast_load(true);
            mach::poke_bytes(e, mm, LOOP, &[0xF3, 0x18, 0xFE]);
            mach::poke_bytes(e, mm, 0x8010, &[0xCD, 0x56, 0x05, 0xF3, 0x18, 0xFE]);
            let r = RegFile { pc: 0x8010, sp: 0xBF00, ix: dest, de: 6912, af: 0xFF01, iy: 0x5C3A, im: 1, ..Default::default() };
            mach::set_regs(e, &r);
            if mach::run_to(e, &[0x8013], 300)?.is_none() {
                return Err("LD-BYTES did not return within 300 frames with fast load enabled".into());
            }
            let f = mach::get_regs(e).af & 1;
            if f != 1 {
                return Err("fast load of a correct block did not report success".into());
            }
            Ok(bank)
        }
    }
}

pub fn check(c: &Case, rec: &mut Rec) -> Result<(), String> {
    let machine = c.machine;
    let mut opts = EmuOpts::new(machine);
    opts.fastload = true;
    let mut e = mk_emu(&opts);
    let mut mm = MemModel::new(machine, mach::rom_images(machine));
    let bytes = content(c.kind, c.seed);
    // something different on screen first, for several frames (stale caches have something to show)
    let other = content(c.kind.wrapping_add(1), c.seed ^ 0x5555);
    for b in if machine == Machine::K48 { vec![0u8] } else { vec![5u8, 7] } {
        e.verif_ram_page_mut(b)[..6912].copy_from_slice(&other);
    }
    e.verif_refresh_memory_dependent_devices();
    mach::poke_bytes(&mut e, &mut mm, LOOP, &[0xF3, 0x18, 0xFE]);
    mach::set_regs(&mut e, &RegFile { pc: LOOP, sp: 0xBF00, ..Default::default() });
    mach::run_frames(&mut e, 2)?;
    let bank = deliver(&mut e, &mut mm, c, &bytes)?;
    // the delivery must have put the bytes where the path says
    if e.verif_ram_page(bank)[..6912] != bytes[..] {
        let pos = e.verif_ram_page(bank)[..6912].iter().zip(bytes.iter()).position(|(a, b)| a != b).unwrap();
        return Err(format!("path {:?}: RAM bank {} offset {} holds {:#04x}, delivered {:#04x}", c.path, bank, pos, e.verif_ram_page(bank)[pos], bytes[pos]));
    }
    // what the ULA must show: the bank selected by the latch the machine now has
    let vb = if machine == Machine::K48 { 0 } else { if e.verif_paging().0 & 8 != 0 { 7 } else { 5 } };
    let vis: Vec<u8> = e.verif_ram_page(vb)[..6912].to_vec();
    // one settling frame, then `frames` judged frames with memory untouched
    mach::run_frames(&mut e, 1)?;
    let d0 = decode(&vis, false);
    let d1 = decode(&vis, true);
    let flash_visible = d0 != d1;
    let mut phases: Vec<Option<bool>> = Vec::new();
    for k in 0..c.frames {
        // long SCR runs: the host loads the very same screen file again in the middle — memory is what
        // it was, and FLASH keeps its 16-frame rhythm across the load
        if c.path == Path::Scr && c.frames >= 34 && k == 5 + (c.seed % 23) as u8 && vb != 7 {
            e.load_screen(Screen::Scr(MemAsset::new(bytes.to_vec()))).map_err(|x| format!("load_screen failed: {:?}", x))?;
            rec.class("same-screen-file-loaded-again-mid-run");
        }
        // 128K long runs: the screen-select bit is flipped and flipped back between two frames (the
        // displayed bank is what it was): FLASH keeps its rhythm
        if machine == Machine::K128 && c.frames >= 34 && k == 7 + (c.seed % 19) as u8 {
            let (latch, _, _) = e.verif_paging();
            e.verif_set_paging((latch ^ 0x08) & !0x20);
            e.verif_set_paging(latch & !0x20);
            rec.class("screen-select-flipped-and-back-between-frames");
        }
        mach::run_frames(&mut e, 1)?;
        rec.eval();
        let px = &e.screen_buffer().px;
        let m0 = px[..] == d0[..];
        let m1 = px[..] == d1[..];
        if !m0 && !m1 {
            let pos = px.iter().zip(d0.iter()).position(|(a, b)| a != b).unwrap();
            let (x, y) = (pos % 256, pos / 256);
            let pos1 = px.iter().zip(d1.iter()).position(|(a, b)| a != b).unwrap();
            return Err(format!(
                "path {:?}, frame {} after delivery: canvas pixel ({}, {}) shows {:#04x}; decode of the ULA-visible bank {} gives {:#04x} (flash phase 0; with phase 1 first difference at ({}, {})); memory was unchanged for the whole frame",
                c.path, k, x, y, px[pos], vb, d0[pos], pos1 % 256, pos1 / 256
            ));
        }
        phases.push(if m0 && m1 { None } else { Some(m1) });
        if e.verif_ram_page(vb)[..6912] != vis[..] {
            return Err("harness: screen memory changed during the idle frames".into());
        }
    }
    // flash: one phase per frame, toggling in runs of exactly 16 frames
    if flash_visible {
        let ph: Vec<bool> = phases.iter().map(|p| p.unwrap()).collect();
        let mut runs: Vec<usize> = Vec::new();
        let mut len = 1;
        for i in 1..ph.len() {
            if ph[i] == ph[i - 1] {
                len += 1;
            } else {
                runs.push(len);
                len = 1;
            }
        }
        runs.push(len);
        for (i, r) in runs.iter().enumerate() {
            let interior = i > 0 && i + 1 < runs.len();
            if (interior && *r != 16) || *r > 16 {
                return Err(format!("flash phase runs over {} unchanged frames: {:?} — FLASH must swap every 16 frames", ph.len(), runs));
            }
        }
        if runs.len() >= 2 {
            rec.class("flash-toggle-observed");
        }
    }
    // 128K: the screen the ULA is *not* showing must be intact too — flip the screen-select bit
    // (nothing is rewritten) and the other bank's picture must appear
    if machine == Machine::K128 {
        let (latch, _, _) = e.verif_paging();
        e.verif_set_paging((latch ^ 0x08) & !0x20);
        let ob = if (latch ^ 0x08) & 8 != 0 { 7 } else { 5 };
        let other_mem: Vec<u8> = e.verif_ram_page(ob)[..6912].to_vec();
        mach::run_frames(&mut e, 2)?;
        rec.eval();
        let (o0, o1) = (decode(&other_mem, false), decode(&other_mem, true));
        let px = &e.screen_buffer().px;
        if px[..] != o0[..] && px[..] != o1[..] {
            let pos = px.iter().zip(o0.iter()).position(|(a, b)| a != b).unwrap();
            return Err(format!(
                "path {:?}: after switching the display to bank {} (screen-select bit flipped, memory untouched) canvas pixel ({}, {}) shows {:#04x}; the decode of bank {} gives {:#04x}",
                c.path, ob, pos % 256, pos / 256, px[pos], ob, o0[pos]
            ));
        }
        rec.class("screen-bank-flipped-after-delivery");
        // then a history of real paging-port writes: the bank displayed is the one selected by bit 3
        // of the last *accepted* write (memory untouched all along)
        if !c.paging_writes.is_empty() {
            let (l0, _, _) = e.verif_paging();
            let mut model = MemModel::new(machine, Vec::new());
            model.latch = l0;
            model.locked = false;
            let mut prog: Vec<u8> = vec![0xF3, 0x01, 0xFD, 0x7F];
            for v in &c.paging_writes {
                prog.extend_from_slice(&[0x3E, *v, 0xED, 0x79]);
                model.paging_write(*v);
            }
            prog.extend_from_slice(&[0x18, 0xFE]);
            let end = 0x8020 + prog.len() as u16 - 2;
            // code goes into bank 2 (always at 0x8000) directly
            e.verif_ram_page_mut(2)[0x20..0x20 + prog.len()].copy_from_slice(&prog);
            mach::set_regs(&mut e, &RegFile { pc: 0x8020, sp: 0xBF00, ..Default::default() });
            if mach::run_to(&mut e, &[end], 3)?.is_none() {
                return Err("harness: paging-write program did not finish".into());
            }
            let sb = model.screen_bank();
            let shown: Vec<u8> = e.verif_ram_page(sb)[..6912].to_vec();
            mach::run_frames(&mut e, 2)?;
            rec.eval();
            let (s0, s1) = (decode(&shown, false), decode(&shown, true));
            let px = &e.screen_buffer().px;
            if px[..] != s0[..] && px[..] != s1[..] {
                let pos = px.iter().zip(s0.iter()).position(|(a, b)| a != b).unwrap();
                return Err(format!(
                    "path {:?}: after the paging-port writes {:02x?} (latch before {:#04x}; last accepted value {:#04x}{}) the ULA must display bank {}, but canvas pixel ({}, {}) shows {:#04x} where the decode of bank {} gives {:#04x}",
                    c.path, c.paging_writes, l0, model.latch, if model.locked { ", locked" } else { "" }, sb, pos % 256, pos / 256, px[pos], sb, s0[pos]
                ));
            }
            rec.class(if model.locked { "paging-writes-after-delivery:locked" } else { "paging-writes-after-delivery:unlocked" });
        }
    }
    if machine == Machine::K48 {
        if let Some(off) = c.save_with_sp_in_screen {
            let sp = 0x4002 + off % 6900;
            mach::poke_bytes(&mut e, &mut mm, LOOP, &[0xF3, 0x18, 0xFE]);
            mach::set_regs(&mut e, &RegFile { pc: LOOP, sp, ..Default::default() });
            let mem_before: Vec<u8> = e.verif_ram_page(0)[..6912].to_vec();
            let mut file = Vec::new();
            e.save_snapshot(rustzx_core::host::SnapshotRecorder::Sna(crate::props::c13::VecRecorder(&mut file))).map_err(|x| format!("save_snapshot: {:?}", x))?;
            if e.verif_ram_page(0)[..6912] != mem_before[..] {
                return Err("save_snapshot changed the display file (C13's business; stopping here)".into());
            }
            mach::run_frames(&mut e, 2)?;
            rec.eval();
            let (s0, s1) = (decode(&mem_before, false), decode(&mem_before, true));
            let px = &e.screen_buffer().px;
            if px[..] != s0[..] && px[..] != s1[..] {
                let pos = px.iter().zip(s0.iter()).position(|(a, b)| a != b).unwrap();
                return Err(format!(
                    "path {:?}: after save_snapshot with SP = {:#06x} (inside the display file) the screen memory is what it was, but canvas pixel ({}, {}) shows {:#04x} where its decode gives {:#04x}",
                    c.path, sp, pos % 256, pos / 256, px[pos], s0[pos]
                ));
            }
            rec.class("snapshot-saved-with-sp-in-the-display-file");
        }
    }
    let distinct = {
        let mut s = [false; 256];
        for b in &bytes {
            s[*b as usize] = true;
        }
        s.iter().filter(|x| **x).count()
    };
    let pinned_path = c.path == Path::Ldir4000;
    if distinct >= 64 && !pinned_path {
        rec.nontrivial(fnv(format!("{:?}", c).as_bytes()));
    }
    rec.class(&format!("path:{:?}", c.path).replace(|ch: char| ch == '(' || ch == ')', "-"));
    rec.class(if machine == Machine::K48 { "48k" } else if vb == 7 { "128k-shadow" } else { "128k-bank5" });
    Ok(())
}

// ---------------------------------------------------------------------------------------
// beam-relative writes

#[derive(Clone, Debug, Serialize, Deserialize)]
pub struct BeamCase {
    pub machine: Machine,
    pub offset: u16,
    pub value: u8,
    /// signed distance in T-states between the write and the moment the ULA reaches the byte;
    /// |margin| >= 64
    pub margin: i32,
    /// 128K: the ULA shows bank 7 (screen-select bit set) and the CPU writes through 0xC000
    #[serde(default)]
    pub shadow: bool,
    /// 128K: right after the write the program writes the latch value already in force to the
    /// paging port (an accepted write that changes nothing): the frame in progress is not redrawn
    #[serde(default)]
    pub same_latch_rewritten: bool,
    /// the byte is not written by the CPU but poked by the host while the machine is stopped at that
    /// moment of the frame (debugger): before / after the beam counts the same way
    #[serde(default)]
    pub via_poke: bool,
}

pub fn check_beam(c: &BeamCase, rec: &mut Rec) -> Result<(), String> {
    let machine = c.machine;
    let mut e = mk_emu(&EmuOpts::new(machine));
    let mut mm = MemModel::new(machine, mach::rom_images(machine));
    // plain screen: all pixels 0, attributes 0x38 (black ink on white paper)
    let shadow = c.shadow && machine == Machine::K128;
    if shadow {
        e.verif_set_paging(0x0F);
        mm.latch = 0x0F;
    }
    let bank = if machine == Machine::K48 { 0 } else if shadow { 7 } else { 5 };
    {
        let p = e.verif_ram_page_mut(bank);
        for b in p[..6144].iter_mut() {
            *b = 0;
        }
        for b in p[6144..6912].iter_mut() {
            *b = 0x38;
        }
    }
    e.verif_refresh_memory_dependent_devices();
    mach::poke_bytes(&mut e, &mut mm, LOOP, &[0x77, 0xF3, 0x18, 0xFE]); // LD (HL),A ; DI ; JR $
    mach::set_regs(&mut e, &RegFile { pc: LOOP + 1, sp: 0xBF00, ..Default::default() });
    mach::run_frames(&mut e, 2)?;
    let off = (c.offset % 6912) as usize;
    let value = if off < 6144 { c.value | 1 } else { (c.value & 0x3F) | 0x01 ^ 0x38 };
    // when does the ULA reach this byte?
    let (y_first, y_last, col) = if off < 6144 {
        let y = ((off >> 5) & 0xC0) | ((off >> 8) & 7) | ((off >> 2) & 0x38);
        (y, y, off & 31)
    } else {
        let row = (off - 6144) / 32;
        (row * 8, row * 8 + 7, (off - 6144) & 31)
    };
    let first_pixel = machine.t0() as i64 + 1;
    let line = machine.line_len() as i64;
    let t_first = first_pixel + y_first as i64 * line + col as i64 * 4;
    let t_last = first_pixel + y_last as i64 * line + col as i64 * 4;
    let before = c.margin < 0;
    let t_write = if before { t_first + c.margin as i64 } else { t_last + c.margin as i64 };
    if t_write < 40 || t_write + 40 > machine.frame_len() as i64 {
        return Ok(());
    }
    // we are at a frame start (a few T in); jump forward so that LD (HL),A's write cycle (its last
    // 3 T-states) ends at t_write
    let now = e.verif_frame_clocks() as i64;
    let start = t_write - 7;
    if start <= now {
        return Ok(());
    }
    e.verif_set_frame_clocks(start as usize);
    let window: u16 = if shadow { 0xC000 } else { 0x4000 };
    let r = RegFile { pc: LOOP, sp: 0xBF00, hl: window + off as u16, af: (value as u16) << 8, ..Default::default() };
    mach::set_regs(&mut e, &r);
    if c.via_poke {
        // the write cycle of LD (HL),A would end 7 T-states from `start`: stop the machine there
        // (one instruction is executed first — DI at LOOP+1 — so that the machine really stands at
        // this moment of the frame, with everything before it rendered, as after a breakpoint stop)
        mach::set_regs(&mut e, &RegFile { pc: LOOP + 1, sp: 0xBF00, ..Default::default() });
        mach::step_over(&mut e, 1)?;
        e.execute_poke(OnePoke(vec![PokeAction::mem(window + off as u16, value)]));
        rec.class("beam:byte-poked-by-the-host");
    } else {
        mach::step_over(&mut e, 1)?;
    }
    if c.same_latch_rewritten && machine == Machine::K128 {
        let (latch, _, _) = e.verif_paging();
        mach::poke_bytes(&mut e, &mut mm, LOOP + 0x10, &[0x01, 0xFD, 0x7F, 0x3E, latch, 0xED, 0x79]);
        mach::set_regs(&mut e, &RegFile { pc: LOOP + 0x10, sp: 0xBF00, ..Default::default() });
        mach::step_over(&mut e, 3)?;
        mach::step_over(&mut e, 2)?;
        mach::step_over(&mut e, 2)?;
        mach::set_regs(&mut e, &RegFile { pc: LOOP + 1, sp: 0xBF00, ..Default::default() });
        rec.class("beam:same-latch-rewritten-after-the-write");
    }
    let mut mem_before = vec![0u8; 6912];
    for b in mem_before[6144..].iter_mut() {
        *b = 0x38;
    }
    let mut mem_after = mem_before.clone();
    mem_after[off] = value;
    // finish this frame
    let f0 = e.verif_total_frames();
    mach::run_frames(&mut e, 1)?;
    if e.verif_total_frames() != f0 + 1 {
        return Err("harness: frame accounting".into());
    }
    rec.eval();
    let want = decode(if before { &mem_after } else { &mem_before }, false);
    if e.screen_buffer().px[..] != want[..] {
        let pos = e.screen_buffer().px.iter().zip(want.iter()).position(|(a, b)| a != b).unwrap();
        return Err(format!(
            "byte at offset {:#06x} written {} T {} the ULA reaches it: the frame in progress shows pixel ({}, {}) = {:#04x}, expected {:#04x} ({})",
            off, c.margin.abs(), if before { "before" } else { "after" }, pos % 256, pos / 256, e.screen_buffer().px[pos], want[pos],
            if before { "the new byte must appear in the current frame" } else { "the old byte must still be shown in the current frame" }
        ));
    }
    mach::run_frames(&mut e, 1)?;
    let want = decode(&mem_after, false);
    if e.screen_buffer().px[..] != want[..] {
        return Err(format!("byte at offset {:#06x}: the next frame does not show the new byte", off));
    }
    rec.class(if before { "written-before-beam" } else { "written-after-beam" });
    rec.class(if off < 6144 { "bitmap-byte" } else { "attribute-byte" });
    rec.class(if machine == Machine::K48 { "beam:48k" } else if shadow { "beam:128k-bank7-through-0xC000" } else { "beam:128k-bank5" });
    rec.nontrivial(fnv(format!("{:?}", c).as_bytes()));
    Ok(())
}

pub fn case_strategy() -> impl Strategy<Value = Case> {
    (
        prop_oneof![Just(Machine::K48), Just(Machine::K128)],
        any::<bool>(),
        prop_oneof![
            Just(Path::Ldir4000),
            prop_oneof![Just(Path::LdirC000(5)), Just(Path::LdirC000(7))],
            Just(Path::Poke),
            prop_oneof![Just(Path::PokeC000(5)), Just(Path::PokeC000(7))],
            Just(Path::Scr),
            Just(Path::Sna),
            Just(Path::SzxStored),
            Just(Path::SzxZlib),
            Just(Path::TapeFastLoad),
            prop_oneof![Just(Path::TapeFastLoadC000(5)), Just(Path::TapeFastLoadC000(7))],
        ],
        0u8..5,
        any::<u64>(),
        prop_oneof![3 => 1u8..6, 1 => 34u8..40],
        prop_oneof![
            1 => Just(Vec::new()),
            2 => proptest::collection::vec(prop_oneof![Just(0x00u8), Just(0x08), Just(0x20), Just(0x28), Just(0x07), Just(0x0F), any::<u8>()], 1..=4),
        ],
    )
        .prop_map(|(machine, shadow, path, kind, seed, frames, paging_writes)| {
            let save_with_sp_in_screen = if machine == Machine::K48 && seed % 3 == 0 { Some((seed >> 8) as u16) } else { None };
            let path = match (machine, path) {
                (Machine::K48, Path::LdirC000(_)) => Path::Ldir4000,
                (Machine::K48, Path::PokeC000(_)) => Path::Poke,
                (Machine::K48, Path::TapeFastLoadC000(_)) => Path::TapeFastLoad,
                (_, p) => p,
            };
            let paging_writes = if machine == Machine::K128 { paging_writes } else { Vec::new() };
            Case { machine, shadow: shadow && machine == Machine::K128, path, kind, seed, frames, paging_writes, save_with_sp_in_screen }
        })
}

/// A snapshot or screen-file load that fails part-way (dead asset from a generated call on, or an
/// SZX file cut short inside a later chunk): whatever bytes reached screen memory got there by the
/// loader, and the frames after it must show them.
#[derive(Clone, Debug, Serialize, Deserialize)]
pub struct FailCase {
    pub machine: Machine,
    pub shadow: bool,
    /// 0 SNA, 1 SZX stored pages, 2 SZX zlib pages, 3 SCR, 4 SZX cut short (no asset fault)
    pub format: u8,
    pub kind: u8,
    pub seed: u64,
    /// the asset fails at this call (reads and seeks counted together) and stays dead
    pub at_call: u16,
    /// index into the bytes-per-read table [unlimited, 1000, 4096, 16384]
    pub chunk: u8,
    pub frames: u8,
}

fn failing_file(c: &FailCase, bytes: &[u8]) -> Vec<u8> {
    let machine = c.machine;
    let latch_shadow = if c.shadow { 0x08 } else { 0x00 };
    if c.format == 3 {
        return bytes.to_vec();
    }
    let nb = machine.ram_banks() as usize;
    let mut ram: Vec<Vec<u8>> = (0..nb).map(|_| vec![0u8; mach::PAGE]).collect();
    let vb = visible_bank(machine, c.shadow) as usize;
    ram[vb][..6912].copy_from_slice(bytes);
    let code_bank = if machine == Machine::K48 { 1 } else { 2 };
    ram[code_bank][0..3].copy_from_slice(&[0xF3, 0x18, 0xFE]);
    let mut regs = RegFile { pc: LOOP, sp: 0xBF00, im: 1, ..Default::default() };
    if c.format == 0 {
        if machine == Machine::K48 {
            regs.sp = 0xBEFE;
            ram[1][0x3EFE] = LOOP as u8;
            ram[1][0x3EFF] = (LOOP >> 8) as u8;
            sna::write_48k(&sna::SnaState { regs, border: 1, latch: 0, is_128k: false }, &ram)
        } else {
            sna::write_128k(&sna::SnaState { regs, border: 1, latch: latch_shadow, is_128k: true }, &ram)
        }
    } else {
        let st = szx::SzxState {
            machine_id: if machine == Machine::K48 { 1 } else { 2 },
            regs,
            memptr: 0,
            cycles: 0,
            halted: false,
            ei_last: false,
            f_set: false,
            border: 1,
            latch: latch_shadow,
            fe: 1,
            ay: None,
            kempston_joystick: None,
            mouse: None,
        };
        let mut layout = szx::Layout::default();
        if c.format == 2 {
            layout.compress_pages = vec![true; 8];
        }
        // screen pages early in the file in half of the cases, so that a late failure finds them applied
        layout.ramp_page_order_reversed = c.seed & 1 == 0;
        let mut f = szx::write(&st, &ram, &layout);
        if c.format == 4 {
            let cut = 1 + (c.seed >> 8) as usize % 12_000.min(f.len() - 64);
            f.truncate(f.len() - cut);
        }
        f
    }
}

pub fn check_failing_load(c: &FailCase, rec: &mut Rec) -> Result<(), String> {
    let machine = c.machine;
    let mut e = mk_emu(&EmuOpts::new(machine));
    let mut mm = MemModel::new(machine, mach::rom_images(machine));
    let bytes = content(c.kind, c.seed);
    let other = content(c.kind.wrapping_add(1), c.seed ^ 0x5555);
    let screen_banks: Vec<u8> = if machine == Machine::K48 { vec![0] } else { vec![5, 7] };
    for b in &screen_banks {
        e.verif_ram_page_mut(*b)[..6912].copy_from_slice(&other);
    }
    e.verif_refresh_memory_dependent_devices();
    mach::poke_bytes(&mut e, &mut mm, LOOP, &[0xF3, 0x18, 0xFE]);
    mach::set_regs(&mut e, &RegFile { pc: LOOP, sp: 0xBF00, ..Default::default() });
    if machine == Machine::K128 {
        e.verif_set_paging(if c.shadow { 0x08 } else { 0x00 });
    }
    mach::run_frames(&mut e, 2)?;
    let file = failing_file(c, &bytes);
    let res = if c.format == 4 {
        let asset = MemAsset::chunked(file, [0usize, 1000, 4096, 16384][(c.chunk & 3) as usize]);
        e.load_snapshot(Snapshot::Szx(asset)).map_err(|x| format!("{:?}", x))
    } else {
        let mut asset = crate::host::FaultAsset::new(file, c.at_call as usize, crate::host::Fault::Err, true);
        asset.inner.chunk = [0usize, 1000, 4096, 16384][(c.chunk & 3) as usize];
        match c.format {
            0 => e.load_snapshot(Snapshot::Sna(asset)).map_err(|x| format!("{:?}", x)),
            3 => e.load_screen(Screen::Scr(asset)).map_err(|x| format!("{:?}", x)),
            _ => e.load_snapshot(Snapshot::Szx(asset)).map_err(|x| format!("{:?}", x)),
        }
    };
    // whatever the outcome, the program from here on is DI; JR $ in a bank no loader output is judged in
    mach::poke_bytes(&mut e, &mut mm, LOOP, &[0xF3, 0x18, 0xFE]);
    mach::set_regs(&mut e, &RegFile { pc: LOOP, sp: 0xBF00, ..Default::default() });
    let changed = screen_banks.iter().any(|b| e.verif_ram_page(*b)[..6912] != other[..]);
    let vb = if machine == Machine::K48 { 0 } else if e.verif_paging().0 & 8 != 0 { 7 } else { 5 };
    let vis: Vec<u8> = e.verif_ram_page(vb)[..6912].to_vec();
    mach::run_frames(&mut e, 1)?;
    let (d0, d1) = (decode(&vis, false), decode(&vis, true));
    for k in 0..c.frames {
        mach::run_frames(&mut e, 1)?;
        rec.eval();
        if e.verif_ram_page(vb)[..6912] != vis[..] {
            return Err("harness: screen memory changed during the idle frames".into());
        }
        let px = &e.screen_buffer().px;
        if px[..] != d0[..] && px[..] != d1[..] {
            let pos = px.iter().zip(d0.iter()).position(|(a, b)| a != b).unwrap();
            return Err(format!(
                "load (format {}, asset dead from call {}) returned {:?}; frame {} after it: canvas pixel ({}, {}) shows {:#04x}; decode of the ULA-visible bank {} gives {:#04x}; memory was unchanged for the whole frame",
                c.format, c.at_call, res, k, pos % 256, pos / 256, px[pos], vb, d0[pos]
            ));
        }
    }
    if machine == Machine::K128 {
        let (latch, _, _) = e.verif_paging();
        e.verif_set_paging((latch ^ 0x08) & !0x20);
        let ob = if (latch ^ 0x08) & 8 != 0 { 7 } else { 5 };
        let other_mem: Vec<u8> = e.verif_ram_page(ob)[..6912].to_vec();
        mach::run_frames(&mut e, 2)?;
        rec.eval();
        let (o0, o1) = (decode(&other_mem, false), decode(&other_mem, true));
        let px = &e.screen_buffer().px;
        if px[..] != o0[..] && px[..] != o1[..] {
            let pos = px.iter().zip(o0.iter()).position(|(a, b)| a != b).unwrap();
            return Err(format!(
                "load (format {}, asset dead from call {}) returned {:?}; after switching the display to bank {} (memory untouched) canvas pixel ({}, {}) shows {:#04x}; the decode of bank {} gives {:#04x}",
                c.format, c.at_call, res, ob, pos % 256, pos / 256, px[pos], ob, o0[pos]
            ));
        }
    }
    rec.class(&format!("failing-load:format-{}", c.format));
    rec.class(match (&res, changed) {
        (Ok(_), _) => "failing-load:completed-before-the-fault",
        (Err(_), false) => "failing-load:failed-before-screen-memory-changed",
        (Err(_), true) => "failing-load:failed-after-screen-memory-changed",
    });
    if res.is_err() && changed {
        rec.nontrivial(fnv(format!("{:?}", c).as_bytes()));
    }
    Ok(())
}

pub fn fail_strategy() -> impl Strategy<Value = FailCase> {
    (
        prop_oneof![Just(Machine::K48), Just(Machine::K128)],
        any::<bool>(),
        0u8..5,
        0u8..5,
        any::<u64>(),
        prop_oneof![0u16..24, 0u16..200],
        0u8..4,
        1u8..4,
    )
        .prop_map(|(machine, shadow, format, kind, seed, at_call, chunk, frames)| FailCase { machine, shadow: shadow && machine == Machine::K128, format, kind, seed, at_call, chunk, frames })
}

pub fn beam_strategy() -> impl Strategy<Value = BeamCase> {
    (
        prop_oneof![Just(Machine::K48), Just(Machine::K128)],
        0u16..6912,
        any::<u8>(),
        prop_oneof![(64i32..400), (64i32..400).prop_map(|m| -m), Just(64), Just(-64)],
        (any::<bool>(), any::<bool>()),
    )
        .prop_map(|(machine, offset, value, margin, (shadow, rewrite))| BeamCase { machine, offset, value, margin, shadow: shadow && machine == Machine::K128, same_latch_rewritten: rewrite && machine == Machine::K128, via_poke: offset % 4 == 0 })
}

pub fn run(run: &mut Run) {
    let known = crate::driver::Known::load();
    let _ = known;
    let t = run.tier;
    run.explore("paths", t.pick(6_000, 120_000), case_strategy, check);
    run.explore("beam-relative", t.pick(12_000, 300_000), beam_strategy, check_beam);
    run.explore("failing-load", t.pick(3_000, 60_000), fail_strategy, check_failing_load);
}

pub fn replay(run: &mut Run, phase: &str, case: &serde_json::Value) -> Result<(), String> {
    match phase {
        "paths" => run.replay_one::<Case, _>(phase, case, check),
        "beam-relative" => run.replay_one::<BeamCase, _>(phase, case, check_beam),
        "failing-load" => run.replay_one::<FailCase, _>(phase, case, check_failing_load),
        _ => Err(format!("unknown phase {}", phase)),
    }
}

pub const LEVEL: &str = "exploration";
pub const RULE: &str = "paths: 6912-byte screen contents (uniform; single bits with every attribute value; per-third address-bit patterns; BRIGHT+FLASH everywhere; sparse) delivered by one of {CPU LDIR through 0x4000, CPU LDIR through 0xC000 with bank 5/7 paged, execute_poke through 0x4000 or through 0xC000 with bank 5/7 paged, SCR load, SNA load, SZX load with stored or zlib pages, ROM LD-BYTES served by fast load to 0x4000 or to 0xC000 with bank 5/7 paged} on 48K/128K with either 128K screen bank displayed, after different content had been on screen; then 1..40 frames with the CPU in DI;JR $ — every delivered canvas must equal the independent standard decode of the bank the ULA displays, with one FLASH phase per frame that toggles in runs of exactly 16 frames (also across a reload of the same SCR file in the middle of a long run); on the 128K the other screen bank is then shown by flipping the screen-select bit, and after a generated history of 1..4 real paging-port writes (lock values included) the bank selected by the last accepted write must be displayed; on the 48K a SNA snapshot taken with SP inside the display file (the format parks PC below SP and restores the bytes) must leave the picture as it was. beam-relative: one byte written by LD (HL),A (through 0x4000, or on the 128K through 0xC000 into the displayed bank 7) at a chosen T >= 64 T before (after) the ULA reaches it (on the 128K optionally followed by a paging write of the value already latched; in a quarter of the cases the byte is poked by the host with the machine stopped at that moment instead) must (must not) appear in the frame in progress and must appear in the next. failing-load: a SNA, SZX (stored or zlib pages, screen pages early or late in the file) or SCR file offered through an asset that dies at a generated call (reads of at most 1000/4096/16384 bytes or unlimited), or an SZX file cut short inside a later chunk, over a machine showing other content; whatever the load returns, the following 1..3 frames (CPU in DI;JR $) must show the decode of the screen memory as the loader left it, for the displayed bank and on the 128K for the other bank after a flip. non-trivial = content with >= 64 distinct byte values delivered by a path other than plain LDIR through 0x4000 (beam phase: every case; failing-load: the load returned Err after screen memory had changed); distinct = hash of the case";
pub const ASSUMPTIONS: &[&str] = &[
    "SCR, SNA and SZX files are delivered all at once or in short reads (1, 33/100, nearly-whole) depending on the case seed",
    "decoder is written from the formula in the property; canvas read from the harness FrameBuffer after each completed frame",
    "ULA reaches byte (line y, column c) at T = first-pixel T + y * line length + 4c; only writes at least 64 T away are judged",
    "which 128K bank is displayed is taken from the machine's paging latch (hook), so a loader that mis-sets the latch is C14's finding, not C08's",
];
