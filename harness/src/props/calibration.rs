//! Oracle calibration gate: the reference Z80 must pass zexall + z80test on its own before
//! it is allowed to judge. Result is cached in target/ keyed by a hash of the refz80 sources.

use crate::driver::{fnv, verif_root, Run, Tier};
use std::process::Command;

fn sources_hash() -> u64 {
    let dir = format!("{}/refz80/src", verif_root());
    let mut files: Vec<_> = std::fs::read_dir(&dir)
        .map(|rd| rd.filter_map(|e| e.ok()).map(|e| e.path()).collect())
        .unwrap_or_default();
    files.sort();
    let mut all = Vec::new();
    for f in files {
        if f.extension().map(|e| e == "rs").unwrap_or(false) {
            all.extend(std::fs::read(&f).unwrap_or_default());
        }
    }
    fnv(&all)
}

pub fn stamp_path() -> String {
    format!("{}/target/refz80-calibration.stamp", verif_root())
}

pub fn run_calibration() -> Result<String, String> {
    let root = verif_root();
    let st = Command::new("cargo")
        .args(["build", "--release", "-p", "refz80"])
        .current_dir(&root)
        .env("CARGO_NET_OFFLINE", "true")
        .output()
        .map_err(|e| format!("cannot run cargo: {}", e))?;
    if !st.status.success() {
        return Err(format!("refz80 does not build: {}", String::from_utf8_lossy(&st.stderr)));
    }
    let out = Command::new(format!("{}/target/release/calibrate", root))
        .current_dir(&root)
        .output()
        .map_err(|e| format!("cannot run calibrate: {}", e))?;
    let text = String::from_utf8_lossy(&out.stdout).to_string();
    if !out.status.success() {
        return Err(format!("calibration failed:\n{}", text));
    }
    let summary: Vec<&str> = text.lines().filter(|l| l.starts_with("CALIBRATION")).collect();
    let summary = summary.join("; ");
    let _ = std::fs::write(stamp_path(), format!("{:016x}\n{}\n", sources_hash(), summary));
    Ok(summary)
}

/// Returns true if the reference may judge. Otherwise marks the run as an infrastructure failure.
pub fn ensure(run: &mut Run) -> bool {
    let want = format!("{:016x}", sources_hash());
    let cached = std::fs::read_to_string(stamp_path()).ok();
    let fresh = run.tier == Tier::Thorough && std::env::var("VERIF_SKIP_RECALIBRATION").is_err();
    if !fresh {
        if let Some(s) = &cached {
            let mut lines = s.lines();
            if lines.next() == Some(want.as_str()) {
                run.note(format!("reference calibration (cached): {}", lines.next().unwrap_or("")));
                return true;
            }
        }
    }
    match run_calibration() {
        Ok(summary) => {
            run.note(format!("reference calibration (run now): {}", summary));
            true
        }
        Err(e) => {
            run.infra_error = Some(format!("oracle not trusted: {}", e));
            false
        }
    }
}
