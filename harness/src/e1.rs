//! Engine E1 — trace bus shared by the implementation (`rustzx_z80::Z80`) and the reference
//! (`refz80::RefZ80`), and the lock-step comparer with its three projections.

use crate::mach::RegFile;
use refz80::{RBus, RefZ80, StepInfo, StepKind};
use rustzx_z80::{Opcode, Prefix, Z80Bus, Z80};
use serde::{Deserialize, Serialize};
use std::cell::Cell;
use std::collections::VecDeque;

#[derive(Clone, Copy, Debug, PartialEq, Eq)]
pub enum Evt {
    /// timed memory cycle (wait + access)
    Mem { addr: u16, clk: u8, write: bool, data: u8 },
    /// one T-state with `addr` on the bus, no MREQ
    Delay { addr: u16 },
    /// T-states without address significance (interrupt acknowledge)
    Internal { n: u8 },
    In { port: u16, data: u8 },
    Out { port: u16, data: u8 },
    /// data-bus byte read during INT acknowledge
    IntAck { data: u8 },
    /// bus protocol anomaly (untimed access, wait without access)
    Anomaly(&'static str),
}

impl Evt {
    pub fn tstates(&self) -> u32 {
        match self {
            Evt::Mem { clk, .. } => *clk as u32,
            Evt::Delay { .. } => 1,
            Evt::Internal { n } => *n as u32,
            Evt::In { .. } | Evt::Out { .. } => 4,
            Evt::IntAck { .. } | Evt::Anomaly(_) => 0,
        }
    }
    pub fn is_cycle(&self) -> bool {
        matches!(self, Evt::Mem { .. } | Evt::In { .. } | Evt::Out { .. })
    }
}

/// INT/NMI activity expressed over the *memory/IO cycle index* (number of Mem/In/Out events so
/// far), which implementation and reference share whenever their bus activity agrees — so an
/// interrupt-sequencing check does not depend on T-state accounting.
#[derive(Clone, Debug, Default, Serialize, Deserialize)]
pub struct Sched {
    /// INT asserted while start <= k < start+len
    pub int_pulses: Vec<(u32, u32)>,
    pub int_always: bool,
    /// NMI edges: latched when k >= value
    pub nmi_edges: Vec<u32>,
}

pub struct TBus {
    pub mem: Box<[u8; 65536]>,
    pub q: VecDeque<Evt>,
    pub total_events: u64,
    pub cycles: u32,
    pub clocks: u64,
    pub io_reads: u32,
    pub port_seed: u64,
    pub int_byte: u8,
    pub sched: Sched,
    nmi_next: Cell<usize>,
    pending_mreq: Option<(u16, usize)>,
    pub record_timing: bool,
    pub unknown_opcodes: u32,
    pub halt_calls: Vec<bool>,
    pub reti_calls: u32,
    pub pc_callbacks: u64,
}

pub fn port_value(seed: u64, port: u16, n: u32) -> u8 {
    let mut x = seed ^ ((port as u64) << 32) ^ (n as u64).wrapping_mul(0x9E3779B97F4A7C15);
    x ^= x >> 31;
    x = x.wrapping_mul(0xD6E8FEB86659FD93);
    x ^= x >> 29;
    (x >> 11) as u8
}

impl TBus {
    pub fn new(mem: Box<[u8; 65536]>, port_seed: u64, int_byte: u8, sched: Sched, record_timing: bool) -> Self {
        Self {
            mem,
            q: VecDeque::new(),
            total_events: 0,
            cycles: 0,
            clocks: 0,
            io_reads: 0,
            port_seed,
            int_byte,
            sched,
            nmi_next: Cell::new(0),
            pending_mreq: None,
            record_timing,
            unknown_opcodes: 0,
            halt_calls: Vec::new(),
            reti_calls: 0,
            pc_callbacks: 0,
        }
    }
    fn push(&mut self, e: Evt) {
        self.clocks += e.tstates() as u64;
        if e.is_cycle() {
            self.cycles += 1;
        }
        let timing_only = matches!(e, Evt::Delay { .. } | Evt::Internal { .. });
        if timing_only && !self.record_timing {
            return;
        }
        self.total_events += 1;
        self.q.push_back(e);
    }
    fn flush_pending(&mut self) {
        if self.pending_mreq.take().is_some() {
            self.push(Evt::Anomaly("wait_mreq without a following access"));
        }
    }
    pub fn int_level(&self) -> bool {
        if self.sched.int_always {
            return true;
        }
        let k = self.cycles;
        self.sched.int_pulses.iter().any(|(s, l)| k >= *s && k < s.saturating_add(*l))
    }
    fn nmi_poll(&self) -> bool {
        let i = self.nmi_next.get();
        if i < self.sched.nmi_edges.len() && self.cycles >= self.sched.nmi_edges[i] {
            self.nmi_next.set(i + 1);
            true
        } else {
            false
        }
    }
    /// Is an NMI edge latched and not yet taken (without consuming it)?
    pub fn nmi_pending(&self) -> bool {
        let i = self.nmi_next.get();
        i < self.sched.nmi_edges.len() && self.cycles >= self.sched.nmi_edges[i]
    }
}

impl Z80Bus for TBus {
    fn read_internal(&mut self, addr: u16) -> u8 {
        let data = self.mem[addr as usize];
        match self.pending_mreq.take() {
            Some((a, clk)) if a == addr => self.push(Evt::Mem { addr, clk: clk.min(255) as u8, write: false, data }),
            Some(_) => {
                self.push(Evt::Anomaly("access address differs from wait_mreq address"));
                self.push(Evt::Mem { addr, clk: 0, write: false, data });
            }
            None => {
                self.push(Evt::Anomaly("untimed memory read"));
                self.push(Evt::Mem { addr, clk: 0, write: false, data });
            }
        }
        data
    }
    fn write_internal(&mut self, addr: u16, data: u8) {
        self.mem[addr as usize] = data;
        match self.pending_mreq.take() {
            Some((a, clk)) if a == addr => self.push(Evt::Mem { addr, clk: clk.min(255) as u8, write: true, data }),
            Some(_) => {
                self.push(Evt::Anomaly("access address differs from wait_mreq address"));
                self.push(Evt::Mem { addr, clk: 0, write: true, data });
            }
            None => {
                self.push(Evt::Anomaly("untimed memory write"));
                self.push(Evt::Mem { addr, clk: 0, write: true, data });
            }
        }
    }
    fn wait_mreq(&mut self, addr: u16, clk: usize) {
        self.flush_pending();
        self.pending_mreq = Some((addr, clk));
    }
    fn wait_no_mreq(&mut self, addr: u16, clk: usize) {
        self.flush_pending();
        // internal T-states are presented to the machine one by one (each can be contended on its
        // own): a lump of several T-states is not the documented cycle shape
        if clk != 1 && self.record_timing {
            self.push(Evt::Anomaly("internal delay of more than one T-state presented as a single bus call (wait_no_mreq with clk != 1)"));
        }
        for _ in 0..clk {
            self.push(Evt::Delay { addr });
        }
    }
    fn wait_internal(&mut self, clk: usize) {
        self.flush_pending();
        self.push(Evt::Internal { n: clk.min(255) as u8 });
    }
    fn read_io(&mut self, port: u16) -> u8 {
        self.flush_pending();
        let data = port_value(self.port_seed, port, self.io_reads);
        self.io_reads += 1;
        self.push(Evt::In { port, data });
        data
    }
    fn write_io(&mut self, port: u16, data: u8) {
        self.flush_pending();
        self.push(Evt::Out { port, data });
    }
    fn read_interrupt(&mut self) -> u8 {
        let data = self.int_byte;
        self.push(Evt::IntAck { data });
        data
    }
    fn reti(&mut self) {
        self.reti_calls += 1;
    }
    fn halt(&mut self, halted: bool) {
        self.halt_calls.push(halted);
    }
    fn int_active(&self) -> bool {
        self.int_level()
    }
    fn nmi_active(&self) -> bool {
        // Z80::emulate accepts an NMI whenever it sees this true, so seeing it = taking it
        self.nmi_poll()
    }
    fn pc_callback(&mut self, _addr: u16) {
        self.pc_callbacks += 1;
    }
    fn process_unknown_opcode(&mut self, _prefix: Prefix, _opcode: Opcode) {
        self.unknown_opcodes += 1;
    }
}

impl RBus for TBus {
    fn m1(&mut self, addr: u16) -> u8 {
        let data = self.mem[addr as usize];
        self.push(Evt::Mem { addr, clk: 4, write: false, data });
        data
    }
    fn read(&mut self, addr: u16) -> u8 {
        let data = self.mem[addr as usize];
        self.push(Evt::Mem { addr, clk: 3, write: false, data });
        data
    }
    fn write(&mut self, addr: u16, val: u8) {
        self.mem[addr as usize] = val;
        self.push(Evt::Mem { addr, clk: 3, write: true, data: val });
    }
    fn delay(&mut self, addr: u16, t: u32) {
        for _ in 0..t {
            self.push(Evt::Delay { addr });
        }
    }
    fn input(&mut self, port: u16) -> u8 {
        let data = port_value(self.port_seed, port, self.io_reads);
        self.io_reads += 1;
        self.push(Evt::In { port, data });
        data
    }
    fn output(&mut self, port: u16, val: u8) {
        self.push(Evt::Out { port, data: val });
    }
    fn ack(&mut self, t: u32) {
        self.push(Evt::Internal { n: t.min(255) as u8 });
    }
    fn int_vector(&mut self) -> u8 {
        let data = self.int_byte;
        self.push(Evt::IntAck { data });
        data
    }
    fn int_line(&mut self) -> bool {
        self.int_level()
    }
    fn nmi_take(&mut self) -> bool {
        self.nmi_poll()
    }
}

// ---------------------------------------------------------------------------------------

#[derive(Clone, Debug, Default, PartialEq, Eq, Serialize, Deserialize)]
pub struct CpuState {
    pub regs: RegFile,
    pub memptr: u16,
    /// Q latch holds F (the previous instruction wrote flags) or 0
    pub q_is_f: bool,
    pub halted: bool,
    /// previous instruction was EI/DI: no INT at the first boundary
    pub no_int: bool,
}

pub fn set_cpu(cpu: &mut Z80, s: &CpuState) {
    let r = &s.regs;
    cpu.regs.set_bc(r.bc_);
    cpu.regs.set_de(r.de_);
    cpu.regs.set_hl(r.hl_);
    cpu.regs.exx();
    cpu.regs.set_af(r.af_);
    cpu.regs.swap_af_alt();
    cpu.regs.set_af(r.af);
    cpu.regs.set_bc(r.bc);
    cpu.regs.set_de(r.de);
    cpu.regs.set_hl(r.hl);
    cpu.regs.set_ix(r.ix);
    cpu.regs.set_iy(r.iy);
    cpu.regs.set_sp(r.sp);
    cpu.regs.set_pc(r.pc);
    cpu.regs.set_i(r.i);
    cpu.regs.set_r(r.r);
    cpu.regs.set_iff1(r.iff1);
    cpu.regs.set_iff2(r.iff2);
    cpu.set_im(r.im % 3);
    cpu.regs.set_mem_ptr(s.memptr);
    // Q: set_flags latches Q = F; clear_q makes it 0
    cpu.regs.set_flags(r.af as u8);
    if !s.q_is_f {
        cpu.regs.clear_q();
    }
    cpu.halted = s.halted;
    cpu.skip_interrupt = s.no_int;
}

pub fn get_cpu_regs(cpu: &mut Z80) -> RegFile {
    let mut r = RegFile {
        af: cpu.regs.get_af(),
        bc: cpu.regs.get_bc(),
        de: cpu.regs.get_de(),
        hl: cpu.regs.get_hl(),
        ix: cpu.regs.get_ix(),
        iy: cpu.regs.get_iy(),
        sp: cpu.regs.get_sp(),
        pc: cpu.regs.get_pc(),
        i: cpu.regs.get_i(),
        r: cpu.regs.get_r(),
        iff1: cpu.regs.get_iff1(),
        iff2: cpu.regs.get_iff2(),
        im: cpu.get_im().into(),
        ..Default::default()
    };
    cpu.regs.exx();
    cpu.regs.swap_af_alt();
    r.af_ = cpu.regs.get_af();
    r.bc_ = cpu.regs.get_bc();
    r.de_ = cpu.regs.get_de();
    r.hl_ = cpu.regs.get_hl();
    cpu.regs.exx();
    cpu.regs.swap_af_alt();
    r
}

pub fn set_ref(c: &mut RefZ80, s: &CpuState) {
    let r = &s.regs;
    [c.a, c.f] = r.af.to_be_bytes();
    [c.b, c.c] = r.bc.to_be_bytes();
    [c.d, c.e] = r.de.to_be_bytes();
    [c.h, c.l] = r.hl.to_be_bytes();
    [c.a_, c.f_] = r.af_.to_be_bytes();
    [c.b_, c.c_] = r.bc_.to_be_bytes();
    [c.d_, c.e_] = r.de_.to_be_bytes();
    [c.h_, c.l_] = r.hl_.to_be_bytes();
    c.ix = r.ix;
    c.iy = r.iy;
    c.sp = r.sp;
    c.pc = r.pc;
    c.i = r.i;
    c.r = r.r;
    c.iff1 = r.iff1;
    c.iff2 = r.iff2;
    c.im = r.im % 3;
    c.memptr = s.memptr;
    c.q = if s.q_is_f { c.f } else { 0 };
    c.halted = s.halted;
    c.no_int = s.no_int;
    c.index = refz80::Index::HL;
}

pub fn get_ref_regs(c: &RefZ80) -> RegFile {
    RegFile {
        af: u16::from_be_bytes([c.a, c.f]),
        bc: u16::from_be_bytes([c.b, c.c]),
        de: u16::from_be_bytes([c.d, c.e]),
        hl: u16::from_be_bytes([c.h, c.l]),
        af_: u16::from_be_bytes([c.a_, c.f_]),
        bc_: u16::from_be_bytes([c.b_, c.c_]),
        de_: u16::from_be_bytes([c.d_, c.e_]),
        hl_: u16::from_be_bytes([c.h_, c.l_]),
        ix: c.ix,
        iy: c.iy,
        sp: c.sp,
        pc: c.pc,
        i: c.i,
        r: c.r,
        iff1: c.iff1,
        iff2: c.iff2,
        im: c.im,
    }
}

#[derive(Clone, Copy, Debug, PartialEq, Eq)]
pub enum Proj {
    /// C01: registers, memory, ordered memory/port accesses with data; no timing
    Arch,
    /// C02: interrupt acceptance, pushed words, vector reads, IFFs, HALT; no timing, no flags
    Int,
    /// C03: (kind, clocks, address) skeleton incl. every delay T-state; no data, no registers
    Timing,
}

pub struct Diff {
    pub cpu: Z80,
    pub bus: TBus,
    pub rcpu: RefZ80,
    pub rbus: TBus,
    pub proj: Proj,
    pub steps: u64,
    pub havoc_memptr: u64,
    pub havoc_halt_addr: u64,
    pub syncs: u64,
    pub emulate_calls: u64,
    /// the previous step was a repeating block iteration: the Q latch is not judged
    q_unknown: bool,
    pub havoc_q_after_repeat: u64,
    pub havoc_nmi_after_entry: u64,
}

#[derive(Clone, Debug)]
pub struct StepReport {
    pub info: StepInfo,
    pub events: Vec<Evt>,
    pub synced: bool,
    /// nothing was executed: the next instruction would observe a state that is not judged
    /// (SCF/CCF directly after a repeating block iteration whose opcode was overwritten)
    pub stopped_unjudged: bool,
}

impl Diff {
    pub fn new(mem: &[u8; 65536], state: &CpuState, port_seed: u64, int_byte: u8, sched: Sched, proj: Proj) -> Self {
        let timing = proj == Proj::Timing;
        let mut cpu = Z80::default();
        set_cpu(&mut cpu, state);
        let mut rcpu = RefZ80::new();
        set_ref(&mut rcpu, state);
        Self {
            cpu,
            bus: TBus::new(Box::new(*mem), port_seed, int_byte, sched.clone(), timing),
            rcpu,
            rbus: TBus::new(Box::new(*mem), port_seed, int_byte, sched, timing),
            proj,
            steps: 0,
            havoc_memptr: 0,
            havoc_halt_addr: 0,
            syncs: 0,
            emulate_calls: 0,
            q_unknown: false,
            havoc_q_after_repeat: 0,
            havoc_nmi_after_entry: 0,
        }
    }

    fn pull_impl(&mut self) -> Result<Evt, String> {
        let mut tries = 0;
        while self.bus.q.is_empty() {
            if tries >= 4 {
                return Err("implementation produced no bus activity in 4 emulate() calls".into());
            }
            self.cpu.emulate(&mut self.bus);
            self.emulate_calls += 1;
            tries += 1;
        }
        Ok(self.bus.q.pop_front().unwrap())
    }

    fn evt_eq(&self, r: &Evt, i: &Evt) -> bool {
        match self.proj {
            Proj::Arch | Proj::Int => r == i || matches!((r, i), (Evt::Mem { addr: a1, write: w1, data: d1, .. }, Evt::Mem { addr: a2, write: w2, data: d2, .. }) if a1 == a2 && w1 == w2 && d1 == d2),
            Proj::Timing => match (r, i) {
                (Evt::Mem { addr: a1, clk: c1, write: w1, .. }, Evt::Mem { addr: a2, clk: c2, write: w2, .. }) => a1 == a2 && c1 == c2 && w1 == w2,
                (Evt::In { port: p1, .. }, Evt::In { port: p2, .. }) => p1 == p2,
                (Evt::Out { port: p1, .. }, Evt::Out { port: p2, .. }) => p1 == p2,
                (Evt::IntAck { .. }, Evt::IntAck { .. }) => true,
                _ => r == i,
            },
        }
    }

    /// One reference step and the matching implementation activity.
    pub fn step(&mut self) -> Result<StepReport, String> {
        if self.q_unknown {
            self.q_unknown = false;
            // which opcode comes next (skipping DD/FD, which leave Q alone)?
            let mut a = self.rcpu.pc;
            let mut n = 0;
            while matches!(self.rbus.mem[a as usize], 0xDD | 0xFD) && n < 16 {
                a = a.wrapping_add(1);
                n += 1;
            }
            if matches!(self.rbus.mem[a as usize], 0x37 | 0x3F) {
                self.havoc_q_after_repeat += 1;
                return Ok(StepReport {
                    info: StepInfo { kind: StepKind::Instr, table: refz80::Table::None_, opcode: 0, repeated: false },
                    events: Vec::new(),
                    synced: false,
                    stopped_unjudged: true,
                });
            }
        }
        self.rbus.q.clear();
        let before = self.rcpu.clone();
        let info = self.rcpu.step(&mut self.rbus);
        let events: Vec<Evt> = self.rbus.q.drain(..).collect();
        self.steps += 1;
        let ctx = |s: &Self| {
            format!(
                "step {} ({:?} table {:?} opcode {:#04x} at pc {:#06x}{})",
                s.steps,
                info.kind,
                info.table,
                info.opcode,
                before.pc,
                if info.repeated { ", repeating" } else { "" }
            )
        };
        match info.kind {
            StepKind::Int | StepKind::Nmi => {
                // Compare the memory cycles in order, the acknowledge byte and the T total; where
                // the 7/5 acknowledge T-states sit inside the entry is not judged.
                let want_t: u32 = events.iter().map(|e| e.tstates()).sum();
                let want_cycles: Vec<Evt> = events.iter().copied().filter(|e| e.is_cycle() || matches!(e, Evt::IntAck { .. })).collect();
                let mut got: Vec<Evt> = Vec::new();
                if self.proj == Proj::Timing {
                    let mut t = 0;
                    while t < want_t {
                        let e = self.pull_impl().map_err(|m| format!("{}: {}", ctx(self), m))?;
                        t += e.tstates();
                        got.push(e);
                        if got.len() > 64 {
                            break;
                        }
                    }
                    if t != want_t {
                        return Err(format!("{}: interrupt entry took {} T-states in bus events {:?}, documented total is {}", ctx(self), t, got, want_t));
                    }
                } else {
                    // no timing events recorded: take as many cycle events as the reference produced
                    while got.len() < want_cycles.len() {
                        let e = self.pull_impl().map_err(|m| format!("{}: {}", ctx(self), m))?;
                        got.push(e);
                    }
                }
                // memory cycles in order; the acknowledge byte separately (where inside the entry
                // the data bus is sampled is not judged)
                let acks = |v: &[Evt]| -> Vec<u8> { v.iter().filter_map(|e| if let Evt::IntAck { data } = e { Some(*data) } else { None }).collect() };
                let cyc = |v: &[Evt]| -> Vec<Evt> { v.iter().copied().filter(|e| e.is_cycle()).collect() };
                // The acknowledge is an M1-type cycle with PC on the address bus: an implementation
                // that presents its acknowledge T-states as addressed delay T-states must give them
                // the address execution would have continued at — the word that is pushed (HALT+1
                // when halted). Unaddressed acknowledge T-states (wait_internal) are accepted.
                if self.proj == Proj::Timing {
                    let pushed: Vec<u8> = events.iter().filter_map(|e| if let Evt::Mem { write: true, data, .. } = e { Some(*data) } else { None }).collect();
                    if pushed.len() == 2 {
                        let ret = u16::from_be_bytes([pushed[0], pushed[1]]);
                        if let Some(Evt::Delay { addr }) = got.iter().find(|e| matches!(e, Evt::Delay { addr } if *addr != ret)) {
                            return Err(format!(
                                "{}: interrupt acknowledge T-state carries address {:#06x}; the acknowledge cycle presents the return address {:#06x} (the word pushed); implementation events {:?}",
                                ctx(self),
                                addr,
                                ret,
                                got
                            ));
                        }
                    }
                }
                let (gc, wc) = (cyc(&got), cyc(&want_cycles));
                if gc.len() != wc.len() || !wc.iter().zip(gc.iter()).all(|(r, i)| self.evt_eq(r, i)) || acks(&got) != acks(&want_cycles) {
                    return Err(format!(
                        "{}: interrupt entry bus cycles differ: implementation {:?}, reference {:?}",
                        ctx(self),
                        got,
                        want_cycles
                    ));
                }
            }
            _ => {
                for (n, r) in events.iter().enumerate() {
                    let i = self.pull_impl().map_err(|m| format!("{}: {}", ctx(self), m))?;
                    let mut ok = self.evt_eq(r, &i);
                    if !ok && info.kind == StepKind::HaltCycle {
                        // the address presented during HALT refetch is not judged (PC or PC+1)
                        if let (Evt::Mem { addr: a1, clk: c1, write: false, .. }, Evt::Mem { addr: a2, clk: c2, write: false, .. }) = (r, &i) {
                            if *a2 == a1.wrapping_add(1) && (self.proj != Proj::Timing || c1 == c2) {
                                ok = true;
                                self.havoc_halt_addr += 1;
                            }
                        }
                    }
                    if !ok {
                        return Err(format!(
                            "{}: bus event {} differs: implementation {:?}, reference {:?} (reference events of this step: {:?})",
                            ctx(self),
                            n,
                            i,
                            r,
                            events
                        ));
                    }
                }
            }
        }
        if info.repeated {
            self.q_unknown = true;
        }
        if matches!(info.kind, StepKind::Int | StepKind::Nmi) && self.rbus.nmi_pending() {
            // an NMI edge latched during an interrupt entry: whether it is taken before or after
            // the handler's first instruction is not judged; follow the implementation (after)
            self.rcpu.no_int = true;
            self.havoc_nmi_after_entry += 1;
        }
        // synchronisation point: the implementation has no bus activity beyond this step
        let synced = self.bus.q.is_empty();
        if synced {
            self.syncs += 1;
            if info.repeated && info.table == refz80::Table::ED && matches!(info.opcode, 0xB2 | 0xB3 | 0xBA | 0xBB) {
                // MEMPTR after a repeating INIR/INDR/OTIR/OTDR iteration: not judged
                let m = self.cpu.regs.get_mem_ptr();
                if m != self.rcpu.memptr {
                    self.rcpu.memptr = m;
                    self.havoc_memptr += 1;
                }
            }
            if self.proj != Proj::Timing {
                self.compare_state().map_err(|m| format!("{}: after the step {}", ctx(self), m))?;
            }
        }
        Ok(StepReport { info, events, synced, stopped_unjudged: false })
    }

    pub fn compare_state(&mut self) -> Result<(), String> {
        let mut a = get_cpu_regs(&mut self.cpu);
        let mut b = get_ref_regs(&self.rcpu);
        let mut i_mem = self.cpu.regs.get_mem_ptr();
        let mut r_mem = self.rcpu.memptr;
        if self.proj == Proj::Int {
            // flags and data registers are C01's business
            for r in [&mut a, &mut b] {
                r.af = 0;
                r.af_ = 0;
                r.bc = 0;
                r.bc_ = 0;
                r.de = 0;
                r.de_ = 0;
                r.hl = 0;
                r.hl_ = 0;
                r.ix = 0;
                r.iy = 0;
            }
            i_mem = 0;
            r_mem = 0;
        }
        if a != b {
            return Err(format!("registers differ: implementation {:x?}, reference {:x?}", a, b));
        }
        if i_mem != r_mem {
            return Err(format!("MEMPTR differs: implementation {:#06x}, reference {:#06x}", i_mem, r_mem));
        }
        if self.cpu.halted != self.rcpu.halted {
            return Err(format!("halted differs: implementation {}, reference {}", self.cpu.halted, self.rcpu.halted));
        }
        Ok(())
    }

    /// Full memory comparison (C01 end of case).
    pub fn compare_memory(&self) -> Result<(), String> {
        if self.bus.mem[..] != self.rbus.mem[..] {
            let pos = self.bus.mem.iter().zip(self.rbus.mem.iter()).position(|(a, b)| a != b).unwrap();
            return Err(format!(
                "memory differs at {:#06x}: implementation {:#04x}, reference {:#04x}",
                pos, self.bus.mem[pos], self.rbus.mem[pos]
            ));
        }
        Ok(())
    }
}
