//! Engine E4 — tape models written from the ROM listing and the TAP/standard-loader
//! waveform definition: LD-BYTES semantic model, waveform synthesiser, tolerant edge decoder.

use serde::{Deserialize, Serialize};

#[derive(Clone, Debug, PartialEq, Eq, Serialize, Deserialize)]
pub struct Request {
    pub a: u8,
    /// carry set = LOAD, reset = VERIFY
    pub load: bool,
    pub ix: u16,
    pub de: u16,
}

#[derive(Clone, Debug, PartialEq, Eq)]
pub enum Outcome {
    Ok,
    FlagMismatch,
    VerifyMismatch,
    /// block ended before the request was satisfied (ROM: edge time-out)
    Short,
    /// parity (XOR of all bytes incl. the one taken as checksum) non-zero
    Parity,
}

#[derive(Clone, Debug, PartialEq, Eq)]
pub struct LdResult {
    pub ix: u16,
    pub de: u16,
    pub carry: bool,
    pub outcome: Outcome,
    /// (address, value) stores performed, in order
    pub stores: Vec<(u16, u8)>,
    /// how many bytes of the block were consumed (read from tape) before returning
    pub consumed: usize,
}

/// ROM LD-BYTES (0x0556..0x05E2) semantics on one block's byte stream.
/// `read_mem` gives the byte currently at an address (for VERIFY).
pub fn ld_bytes(block: &[u8], rq: &Request, read_mem: &mut dyn FnMut(u16) -> u8) -> LdResult {
    let mut ix = rq.ix;
    let mut de = rq.de;
    let mut stores = Vec::new();
    // INC D / EX AF,AF' / DEC D: the Z flag kept in AF' is set only when D was 0xFF, and Z set
    // means "flag byte already dealt with"
    let mut flag_done = (rq.de >> 8) as u8 == 0xFF;
    let mut h: u8 = 0;
    let mut pos = 0usize;
    macro_rules! ret {
        ($carry:expr, $o:expr) => {
            return LdResult { ix, de, carry: $carry, outcome: $o, stores, consumed: pos }
        };
    }
    // LD-MARKER: first byte
    if block.is_empty() {
        ret!(false, Outcome::Short);
    }
    let mut l = block[0];
    pos = 1;
    h ^= l;
    loop {
        // LD A,D / OR E / JR NZ,LD-LOOP ; else LD A,H / CP 1 / RET
        if de == 0 {
            let ok = h == 0;
            ret!(ok, if ok { Outcome::Ok } else { Outcome::Parity });
        }
        if !flag_done {
            // LD-FLAG: XOR L / RET NZ
            if rq.a ^ l != 0 {
                ret!(false, Outcome::FlagMismatch);
            }
            flag_done = true;
            // INC DE ... DEC DE: unchanged
        } else if rq.load {
            stores.push((ix, l));
            ix = ix.wrapping_add(1);
            de = de.wrapping_sub(1);
        } else {
            // LD-VERIFY: LD A,(IX+0) / XOR L / RET NZ  (before INC IX / DEC DE)
            let cur = stores.iter().rev().find(|(a, _)| *a == ix).map(|(_, v)| *v).unwrap_or_else(|| read_mem(ix));
            if cur ^ l != 0 {
                ret!(false, Outcome::VerifyMismatch);
            }
            ix = ix.wrapping_add(1);
            de = de.wrapping_sub(1);
        }
        // next byte from tape (8 x LD-EDGE-2; time-out → RET NC)
        if pos >= block.len() {
            ret!(false, Outcome::Short);
        }
        l = block[pos];
        pos += 1;
        h ^= l;
    }
}

// ---------------------------------------------------------------------------------------
// standard waveform

pub const PILOT: u32 = 2168;
pub const SYNC1: u32 = 667;
pub const SYNC2: u32 = 735;
pub const BIT0: u32 = 855;
pub const BIT1: u32 = 1710;
pub const PILOT_HEADER: usize = 8063;
pub const PILOT_DATA: usize = 3223;

#[derive(Clone, Copy, Debug, PartialEq, Eq)]
pub enum PulseKind {
    Pilot,
    Sync1,
    Sync2,
    Bit(bool),
}

/// Nominal pulse list of one block (without the pause).
pub fn block_pulses(block: &[u8]) -> Vec<(PulseKind, u32)> {
    let mut v = Vec::new();
    let n = if block.first() == Some(&0) { PILOT_HEADER } else { PILOT_DATA };
    for _ in 0..n {
        v.push((PulseKind::Pilot, PILOT));
    }
    v.push((PulseKind::Sync1, SYNC1));
    v.push((PulseKind::Sync2, SYNC2));
    for b in block {
        for bit in (0..8).rev() {
            let one = (b >> bit) & 1 == 1;
            let len = if one { BIT1 } else { BIT0 };
            v.push((PulseKind::Bit(one), len));
            v.push((PulseKind::Bit(one), len));
        }
    }
    v
}

/// Tolerant decoder: turns a list of pulse lengths (time between successive EAR edges) into
/// blocks. Pilot = a run of >= 256 pulses of about 2168 T, then two sync pulses, then bit
/// pulse pairs until a pulse that is neither 855- nor 1710-like.
pub fn decode_pulses(pulses: &[u64]) -> Vec<Vec<u8>> {
    let near = |p: u64, nominal: u32| p + 0 >= nominal as u64 - 120 && p <= nominal as u64 + 120;
    let mut blocks = Vec::new();
    let mut i = 0;
    while i < pulses.len() {
        // find pilot
        let mut n = 0;
        while i + n < pulses.len() && near(pulses[i + n], PILOT) {
            n += 1;
        }
        if n < 256 {
            i += n.max(1);
            continue;
        }
        i += n;
        if i + 1 >= pulses.len() || !near(pulses[i], SYNC1) || !near(pulses[i + 1], SYNC2) {
            continue;
        }
        i += 2;
        let mut bytes = Vec::new();
        let mut cur = 0u8;
        let mut nbits = 0;
        while i + 1 < pulses.len() {
            let (a, b) = (pulses[i], pulses[i + 1]);
            let bit = if near(a, BIT0) && near(b, BIT0) {
                0
            } else if near(a, BIT1) && near(b, BIT1) {
                1
            } else {
                break;
            };
            cur = (cur << 1) | bit;
            nbits += 1;
            if nbits == 8 {
                bytes.push(cur);
                cur = 0;
                nbits = 0;
            }
            i += 2;
        }
        blocks.push(bytes);
    }
    blocks
}
