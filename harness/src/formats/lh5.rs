//! Minimal LH5 (LHA "-lh5-") *encoder* producing literal-only blocks.
//!
//! Format of one block (bit stream, MSB first):
//!   16 bits  number of codes in the block
//!   T tree   5 bits n; n == 0 → 5 bits: the single symbol of the tree
//!   C tree   9 bits n; then n code lengths, each coded with the T tree (symbol = length + 2)
//!   P tree   4 bits n; n == 0 → 4 bits: the single symbol
//!   codes
//! With a T tree consisting of the single symbol 10 every C length is 8 and costs zero bits;
//! 256 literal symbols of length 8 form a complete canonical Huffman code in which the code
//! of byte b is b itself. The P (match position) tree is never used.

pub struct BitWriter {
    pub out: Vec<u8>,
    acc: u64,
    nbits: u32,
}

impl BitWriter {
    pub fn new() -> Self {
        Self { out: Vec::new(), acc: 0, nbits: 0 }
    }
    pub fn put(&mut self, value: u32, bits: u32) {
        debug_assert!(bits <= 32);
        self.acc = (self.acc << bits) | (value as u64 & ((1u64 << bits) - 1));
        self.nbits += bits;
        while self.nbits >= 8 {
            self.nbits -= 8;
            self.out.push((self.acc >> self.nbits) as u8);
        }
    }
    pub fn finish(mut self) -> Vec<u8> {
        if self.nbits > 0 {
            let pad = 8 - self.nbits;
            self.put(0, pad);
        }
        self.out
    }
}

pub fn encode_literal(data: &[u8]) -> Vec<u8> {
    let mut w = BitWriter::new();
    for block in data.chunks(0xFFFF) {
        w.put(block.len() as u32, 16);
        w.put(0, 5);
        w.put(10, 5);
        w.put(256, 9);
        w.put(0, 4);
        w.put(0, 4);
        for b in block {
            w.put(*b as u32, 8);
        }
    }
    let mut out = w.finish();
    // a decoder may prefetch; harmless padding
    out.extend_from_slice(&[0, 0, 0, 0]);
    out
}
