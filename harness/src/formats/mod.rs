//! Independent, spec-based writers and parsers for the file formats rustzx reads.
pub mod lh5;
pub mod sna;
pub mod szx;
pub mod tap;
pub mod vtx;
