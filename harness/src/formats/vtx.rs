//! VTX file writer (header + five NUL-terminated strings + LH5 of register-major data).

use super::lh5;

#[derive(Clone, Debug, serde::Serialize, serde::Deserialize)]
pub struct VtxSpec {
    pub ym: bool,
    pub stereo: u8,
    pub loop_frame: u16,
    pub frequency: u32,
    pub player_frequency: u8,
    pub year: u16,
    pub strings: [String; 5],
    /// frame-major: frames × 14 register bytes
    pub frames: Vec<[u8; 14]>,
}

pub fn transpose_to_register_major(frames: &[[u8; 14]]) -> Vec<u8> {
    let n = frames.len();
    let mut out = vec![0u8; n * 14];
    for (k, f) in frames.iter().enumerate() {
        for r in 0..14 {
            out[r * n + k] = f[r];
        }
    }
    out
}

pub fn header(spec: &VtxSpec, declared_size: u32) -> Vec<u8> {
    let mut out = Vec::new();
    out.extend_from_slice(if spec.ym { b"ym" } else { b"ay" });
    out.push(spec.stereo);
    out.extend_from_slice(&spec.loop_frame.to_le_bytes());
    out.extend_from_slice(&spec.frequency.to_le_bytes());
    out.push(spec.player_frequency);
    out.extend_from_slice(&spec.year.to_le_bytes());
    out.extend_from_slice(&declared_size.to_le_bytes());
    for s in &spec.strings {
        out.extend_from_slice(s.as_bytes());
        out.push(0);
    }
    out
}

pub fn write(spec: &VtxSpec) -> Vec<u8> {
    let data = transpose_to_register_major(&spec.frames);
    let mut out = header(spec, data.len() as u32);
    out.extend_from_slice(&lh5::encode_literal(&data));
    out
}
