//! SZX (zx-state) snapshot writer written from the format specification
//! (Spectaculator's "ZX-State" 1.4/1.5): 8-byte header, then chunks id(4) size(4) data.

use crate::mach::RegFile;
use serde::{Deserialize, Serialize};

#[derive(Clone, Debug, PartialEq, Eq, Serialize, Deserialize)]
pub struct SzxState {
    /// 1 = 48K, 2 = 128K
    pub machine_id: u8,
    pub regs: RegFile,
    pub memptr: u16,
    pub cycles: u32,
    pub halted: bool,
    pub ei_last: bool,
    pub f_set: bool,
    pub border: u8,
    pub latch: u8,
    pub fe: u8,
    pub ay: Option<AyChunk>,
    pub kempston_joystick: Option<bool>,
    pub mouse: Option<u8>,
}

#[derive(Clone, Debug, PartialEq, Eq, Serialize, Deserialize)]
pub struct AyChunk {
    pub flags: u8,
    pub current: u8,
    pub regs: [u8; 16],
}

#[derive(Clone, Debug, Serialize, Deserialize)]
pub struct Layout {
    /// order of the chunk kinds: 0 CRTR, 1 Z80R, 2 SPCR, 3 RAMP*, 4 AY, 5 KEYB, 6 AMXM
    pub order: Vec<u8>,
    pub compress_pages: Vec<bool>,
    /// insert an unknown chunk / zero-length unknown chunk after chunk index i
    pub unknown_after: Vec<(u8, u32)>,
    pub lowercase_ids: bool,
    pub ramp_page_order_reversed: bool,
}

impl Default for Layout {
    fn default() -> Self {
        Self {
            order: vec![0, 1, 2, 3, 4, 5, 6],
            compress_pages: vec![false; 8],
            unknown_after: vec![],
            lowercase_ids: false,
            ramp_page_order_reversed: false,
        }
    }
}

pub fn chunk(id: &[u8; 4], data: &[u8]) -> Vec<u8> {
    let mut out = id.to_vec();
    out.extend_from_slice(&(data.len() as u32).to_le_bytes());
    out.extend_from_slice(data);
    out
}

pub fn zlib(data: &[u8]) -> Vec<u8> {
    use flate2::{write::ZlibEncoder, Compression};
    use std::io::Write;
    let mut e = ZlibEncoder::new(Vec::new(), Compression::new(6));
    e.write_all(data).unwrap();
    e.finish().unwrap()
}

pub fn z80r(s: &SzxState) -> Vec<u8> {
    let r = &s.regs;
    let mut d = Vec::with_capacity(37);
    for w in [r.af, r.bc, r.de, r.hl, r.af_, r.bc_, r.de_, r.hl_, r.ix, r.iy, r.sp, r.pc] {
        d.extend_from_slice(&w.to_le_bytes());
    }
    d.push(r.i);
    d.push(r.r);
    d.push(r.iff1 as u8);
    d.push(r.iff2 as u8);
    d.push(r.im);
    d.extend_from_slice(&s.cycles.to_le_bytes());
    // chHoldIntReqCycles: how long the writing emulator holds INT; informational (the frame position is dwCyclesStart)
    d.push(if s.cycles % 3 == 0 { 0 } else { (s.cycles % 37) as u8 });
    d.push((s.ei_last as u8) | ((s.halted as u8) << 1) | ((s.f_set as u8) << 2));
    d.extend_from_slice(&s.memptr.to_le_bytes());
    d
}

pub fn spcr(s: &SzxState) -> Vec<u8> {
    vec![s.border, s.latch, 0, s.fe, 0, 0, 0, 0]
}

pub fn ramp(page: u8, data: &[u8], compressed: bool) -> Vec<u8> {
    let mut d = Vec::new();
    d.extend_from_slice(&(compressed as u16).to_le_bytes());
    d.push(page);
    if compressed {
        d.extend_from_slice(&zlib(data));
    } else {
        d.extend_from_slice(data);
    }
    d
}

pub fn crtr() -> Vec<u8> {
    let mut d = vec![0u8; 32];
    d[..12].copy_from_slice(b"rzxv harness");
    d.extend_from_slice(&1u16.to_le_bytes());
    d.extend_from_slice(&0u16.to_le_bytes());
    d.push(0); // chData[1]
    d
}

/// `ram`: 48K → 3 pages in CPU order (0x4000, 0x8000, 0xC000) stored as SZX pages 5, 2, 0;
/// 128K → 8 banks stored as pages 0..7.
pub fn write(s: &SzxState, ram: &[Vec<u8>], layout: &Layout) -> Vec<u8> {
    let mut out = b"ZXST".to_vec();
    out.push(1);
    out.push(4);
    out.push(s.machine_id);
    out.push(0);
    let id = |name: &[u8; 4]| -> [u8; 4] {
        let mut n = *name;
        if layout.lowercase_ids {
            for b in n.iter_mut() {
                *b = b.to_ascii_lowercase();
            }
        }
        n
    };
    let mut emitted = 0u8;
    let mut emit = |out: &mut Vec<u8>, c: Vec<u8>| {
        out.extend_from_slice(&c);
        for (after, len) in &layout.unknown_after {
            if *after == emitted {
                out.extend_from_slice(&chunk(b"XUNK", &vec![0xA5u8; *len as usize]));
            }
        }
        emitted += 1;
    };
    for kind in &layout.order {
        match kind {
            0 => emit(&mut out, chunk(&id(b"CRTR"), &crtr())),
            1 => emit(&mut out, chunk(&id(b"Z80R"), &z80r(s))),
            2 => emit(&mut out, chunk(&id(b"SPCR"), &spcr(s))),
            3 => {
                let pages: Vec<(u8, &Vec<u8>)> = if s.machine_id < 2 {
                    vec![(5, &ram[0]), (2, &ram[1]), (0, &ram[2])]
                } else {
                    (0..8u8).map(|b| (b, &ram[b as usize])).collect()
                };
                let mut pages = pages;
                if layout.ramp_page_order_reversed {
                    pages.reverse();
                }
                for (n, data) in pages {
                    let comp = layout.compress_pages.get(n as usize).copied().unwrap_or(false);
                    emit(&mut out, chunk(&id(b"RAMP"), &ramp(n, data, comp)));
                }
            }
            4 => {
                if let Some(ay) = &s.ay {
                    let mut d = vec![ay.flags, ay.current];
                    d.extend_from_slice(&ay.regs);
                    emit(&mut out, chunk(b"AY\0\0", &d));
                }
            }
            5 => {
                if let Some(k) = s.kempston_joystick {
                    let mut d = 0u32.to_le_bytes().to_vec();
                    d.push(if k { 0 } else { 8 }); // ZXSKJT_KEMPSTON = 0 … ZXSKJT_NONE = 8
                    emit(&mut out, chunk(&id(b"KEYB"), &d));
                }
            }
            _ => {
                if let Some(m) = s.mouse {
                    let mut d = vec![m];
                    d.extend_from_slice(&[0; 6]);
                    emit(&mut out, chunk(&id(b"AMXM"), &d));
                }
            }
        }
    }
    out
}
