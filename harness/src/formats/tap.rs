//! TAP tape image: sequence of blocks, each: 16-bit little-endian length, then `length`
//! bytes (flag byte, payload, XOR checksum).

pub fn block(flag: u8, payload: &[u8], good_checksum: bool) -> Vec<u8> {
    let mut b = vec![flag];
    b.extend_from_slice(payload);
    let mut x = 0u8;
    for v in &b {
        x ^= *v;
    }
    b.push(if good_checksum { x } else { x ^ 0x5A });
    b
}

pub fn write(blocks: &[Vec<u8>]) -> Vec<u8> {
    let mut out = Vec::new();
    for b in blocks {
        out.extend_from_slice(&(b.len() as u16).to_le_bytes());
        out.extend_from_slice(b);
    }
    out
}
