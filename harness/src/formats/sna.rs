//! SNA snapshot format — writer and parser written from the format description
//! (27-byte header; 48K: 49152 bytes of RAM with PC on the stack; 128K: banks 5, 2, n, then
//! PC, port 0x7FFD, TR-DOS flag, then the remaining banks in ascending order).

use crate::mach::RegFile;
use serde::{Deserialize, Serialize};

#[derive(Clone, Debug, PartialEq, Eq, Serialize, Deserialize)]
pub struct SnaState {
    pub regs: RegFile,
    pub border: u8,
    /// 128K only
    pub latch: u8,
    pub is_128k: bool,
}

pub fn header(s: &SnaState) -> [u8; 27] {
    let r = &s.regs;
    let mut h = [0u8; 27];
    h[0] = r.i;
    h[1..3].copy_from_slice(&r.hl_.to_le_bytes());
    h[3..5].copy_from_slice(&r.de_.to_le_bytes());
    h[5..7].copy_from_slice(&r.bc_.to_le_bytes());
    h[7..9].copy_from_slice(&r.af_.to_le_bytes());
    h[9..11].copy_from_slice(&r.hl.to_le_bytes());
    h[11..13].copy_from_slice(&r.de.to_le_bytes());
    h[13..15].copy_from_slice(&r.bc.to_le_bytes());
    h[15..17].copy_from_slice(&r.iy.to_le_bytes());
    h[17..19].copy_from_slice(&r.ix.to_le_bytes());
    h[19] = if r.iff2 { 0x04 } else { 0 };
    h[20] = r.r;
    h[21..23].copy_from_slice(&r.af.to_le_bytes());
    h[23..25].copy_from_slice(&r.sp.to_le_bytes());
    h[25] = r.im;
    h[26] = s.border;
    h
}

/// 48K: `ram` = 3 pages (0x4000, 0x8000, 0xC000). The caller has already pushed PC
/// (regs.sp points at it) — this writer does not touch memory.
pub fn write_48k(s: &SnaState, ram: &[Vec<u8>]) -> Vec<u8> {
    let mut out = header(s).to_vec();
    for p in ram.iter().take(3) {
        out.extend_from_slice(p);
    }
    out
}

/// 128K: `ram` = 8 banks.
pub fn write_128k(s: &SnaState, ram: &[Vec<u8>]) -> Vec<u8> {
    let mut out = header(s).to_vec();
    let n = (s.latch & 7) as usize;
    out.extend_from_slice(&ram[5]);
    out.extend_from_slice(&ram[2]);
    out.extend_from_slice(&ram[n]);
    out.extend_from_slice(&s.regs.pc.to_le_bytes());
    out.push(s.latch);
    out.push(0);
    for b in 0..8 {
        if b == 5 || b == 2 || b == n {
            continue;
        }
        out.extend_from_slice(&ram[b]);
    }
    out
}

pub struct Parsed {
    pub state: SnaState,
    /// 48K: 3 pages; 128K: 8 banks
    pub ram: Vec<Vec<u8>>,
}

pub fn parse(data: &[u8]) -> Result<Parsed, String> {
    if data.len() < 49179 {
        return Err(format!("too short for SNA: {}", data.len()));
    }
    let w = |o: usize| u16::from_le_bytes([data[o], data[o + 1]]);
    let mut regs = RegFile {
        i: data[0],
        hl_: w(1),
        de_: w(3),
        bc_: w(5),
        af_: w(7),
        hl: w(9),
        de: w(11),
        bc: w(13),
        iy: w(15),
        ix: w(17),
        iff2: data[19] & 4 != 0,
        iff1: data[19] & 4 != 0,
        r: data[20],
        af: w(21),
        sp: w(23),
        im: data[25],
        ..Default::default()
    };
    let border = data[26];
    if data.len() == 49179 {
        let ram: Vec<Vec<u8>> = (0..3).map(|i| data[27 + i * 16384..27 + (i + 1) * 16384].to_vec()).collect();
        // PC is on the stack
        let sp = regs.sp;
        let rd = |a: u16| -> Option<u8> {
            if a < 0x4000 {
                None
            } else {
                Some(ram[(a as usize - 0x4000) / 16384][(a as usize - 0x4000) % 16384])
            }
        };
        if let (Some(lo), Some(hi)) = (rd(sp), rd(sp.wrapping_add(1))) {
            regs.pc = u16::from_le_bytes([lo, hi]);
        }
        regs.sp = sp.wrapping_add(2);
        return Ok(Parsed { state: SnaState { regs, border, latch: 0, is_128k: false }, ram });
    }
    if data.len() != 131103 && data.len() != 147487 {
        return Err(format!("not a SNA length: {}", data.len()));
    }
    regs.pc = w(49179);
    let latch = data[49181];
    let n = (latch & 7) as usize;
    let mut ram = vec![Vec::new(); 8];
    ram[5] = data[27..27 + 16384].to_vec();
    ram[2] = data[27 + 16384..27 + 32768].to_vec();
    let paged = data[27 + 32768..27 + 49152].to_vec();
    let mut off = 49183;
    for b in 0..8 {
        if b == 5 || b == 2 || b == n {
            continue;
        }
        if off + 16384 > data.len() {
            return Err("128K SNA bank list too short".into());
        }
        ram[b] = data[off..off + 16384].to_vec();
        off += 16384;
    }
    if n != 5 && n != 2 {
        ram[n] = paged;
    } else if paged != ram[n] {
        return Err(format!("128K SNA: the copy of paged bank {} differs from its fixed-position copy", n));
    }
    if off != data.len() {
        return Err(format!("128K SNA: {} trailing bytes", data.len() - off));
    }
    Ok(Parsed { state: SnaState { regs, border, latch, is_128k: true }, ram })
}
