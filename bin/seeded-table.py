#!/usr/bin/env python3
"""Rewrites the table of independently written breaking changes in DESIGN.md from seeded/*/meta.json."""
import json, glob, os, re
ROOT = os.path.dirname(os.path.dirname(os.path.abspath(__file__)))
rows = []
ANN = json.load(open(os.path.join(ROOT, "seeded", "annotations.json")))
def esc(t):
    return t.replace("|", "\\|")
for f in sorted(glob.glob(os.path.join(ROOT, "seeded", "*", "meta.json"))):
    m = json.load(open(f))
    name = os.path.basename(os.path.dirname(f))
    a = ANN.get(name, {})
    what = esc(a.get("summary", m.get("summary", "")))
    needs = esc(a.get("needs", m.get("needs", "")))
    hist = esc(a.get("history", ""))
    res = []
    for c, r in m.get("checks_run_against_patch", {}).items():
        res.append(f"{c}: {'caught' if r['exit'] == 1 else ('not caught' if r['exit'] == 0 else 'exit ' + str(r['exit']))}")
    rows.append(f"| {name} | {what} | {needs} | {'; '.join(res)}{' — ' + hist if hist else ''} |")
table = "| id | change | needs to manifest | quick checks run against it |\n|---|---|---|---|\n" + "\n".join(rows) + "\n"
p = os.path.join(ROOT, "DESIGN.md")
s = open(p).read()
begin, end = "<!-- SEEDED-TABLE-BEGIN -->", "<!-- SEEDED-TABLE-END -->"
if begin not in s:
    s += f"\n{begin}\n{end}\n"
s = re.sub(re.escape(begin) + ".*?" + re.escape(end), begin + "\n" + table + end, s, flags=re.S)
open(p, "w").write(s)
print(len(rows), "rows")
