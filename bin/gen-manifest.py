#!/usr/bin/env python3
"""Regenerates /verif/MANIFEST.json from the table below (single source of truth)."""
import json, os, subprocess

ROOT = os.path.dirname(os.path.dirname(os.path.abspath(__file__)))

# id -> (technique, category, level text, level note, design ref, engine)
CHECKS = {
    "C20": (
        "property-based testing (proptest): recording-backend schedule oracle + chunking metamorphic relation + writer/loader round trip",
        "exploration",
        "Generated search over register logs, rates, player frequencies and output partitions. Frame k's register writes must occur exactly at sample k*floor(rate/pf) (observed through a recording AymBackend), the total sample count and end-of-stream report must be exact, the real generator's i16/f32 streams must be bit-identical for any partition, and Vtx::load of an independently written file must return the log byte for byte. Sampling, not proof.",
        "Trusted: the harness' VTX writer and literal-only LH5 encoder; AymBackend as observation seam. Domain: pf 1..255, rate 8000..96000, 0..400 frames (5000 in decode).",
        "DESIGN.md section 5, C20",
        "E3 formats + proptest driver",
    ),
}

# properties not claimed yet: id -> reason
NOT_APPLICABLE = {
}

def main():
    props = [json.loads(l) for l in open(os.path.join(ROOT, "properties.jsonl"))]
    ids = [p["id"] for p in props]
    hook_commits = []
    try:
        out = subprocess.check_output(
            ["git", "-C", "/repo", "log", "--format=%H %s"], text=True)
        for line in out.splitlines():
            h, s = line.split(" ", 1)
            if "rustzx_verif" in s:
                hook_commits.append(h)
    except Exception:
        pass
    checks = []
    for pid in ids:
        if pid not in CHECKS:
            continue
        tech, cat, text, note, ref, engine = CHECKS[pid]
        checks.append({
            "property_id": pid,
            "quick_cmd": f"bin/check {pid} quick",
            "thorough_cmd": f"bin/check {pid} thorough",
            "evidence_file": f"/verif/evidence/{pid}.json",
            "replay_cmd_template": f"bin/check {pid} --replay {{path}}",
            "engine": engine,
            "level_claimed": {"category": cat, "text": text, "design_ref": ref},
            "level_note": note,
            "technique": tech,
        })
    na = []
    for pid in ids:
        if pid in CHECKS:
            continue
        na.append({"property_id": pid,
                   "reason": NOT_APPLICABLE.get(pid, "check under construction in this round; not claimed until it is built and shown silent on the unchanged tree")})
    manifest = {
        "version": 1,
        "setup_cmd": "bin/setup",
        "hooks": {
            "guard": "rustzx_verif",
            "enable": "RUSTFLAGS=--cfg rustzx_verif (set in /verif/.cargo/config.toml [build] rustflags; the harness path-depends on /repo crates)",
            "baseline_off_cmd": "cd /repo && cargo test --workspace --no-fail-fast --offline",
            "source_commits": hook_commits,
            "add_only": True,
        },
        "engines": [
            {"name": "rzxv", "path": "/verif/harness", "serves_properties": [c["property_id"] for c in checks],
             "kind_free_text": "cargo binary crate; proptest TestRunner with seeded shards, deterministic enumeration loops, reference models, independent codecs"},
            {"name": "refz80", "path": "/verif/refz80", "serves_properties": ["C01", "C02", "C03", "C04", "C05"],
             "kind_free_text": "independently written reference Z80 with bus-cycle trace, calibrated on zexall and z80test CRCs"},
        ],
        "checks": checks,
        "not_applicable": na,
        "notes": "All commands run from /verif. VERIF_SEED seeds every generator; VERIF_TIER or the second argument selects the tier. Exit 2 = infrastructure/inconclusive, never a violation. known_findings.txt lists open and fixed findings.",
    }
    with open(os.path.join(ROOT, "MANIFEST.json"), "w") as f:
        json.dump(manifest, f, indent=1)
        f.write("\n")

if __name__ == "__main__":
    main()
