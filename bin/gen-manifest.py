#!/usr/bin/env python3
"""Regenerates /verif/MANIFEST.json from the table below (single source of truth)."""
import json, os, subprocess

ROOT = os.path.dirname(os.path.dirname(os.path.abspath(__file__)))

# id -> (technique, category, level text, level note, design ref, engine)
REF = "Trusted: refz80 after calibration on zexall (67/67) and the real-hardware CRCs of z80test 1.0 (z80full, z80memptr, z80ccf) run on the reference alone; harness trace bus. "
CHECKS = {
    "C01": (
        "property-based differential testing (proptest) against an independently written, hardware-calibrated reference Z80; metamorphic relations on the implementation alone",
        "exploration",
        "Every generated CPU state is applied to all 1792 encodings and executed on rustzx-z80 and on the reference; ordered memory/port accesses with data, every register incl. alternates/I/R/IFF/IM/MEMPTR and whole memory are compared, and the Q latch is exposed by a SCF/CCF probe; instruction sequences carry state across 2..64 instructions. DD/FD-before-non-HL and undefined-ED-as-NOP are also checked without the reference. Sampling of the state space with exhaustive coverage of encodings. Built with overflow checks and debug assertions on (cargo profile `checked`): a panic inside the implementation is a violation.",
        REF + "Not judged: MEMPTR after repeating INxR/OTxR, Q right after a repeating block iteration.",
        "DESIGN.md sections 3 and 5 (C01)",
        "E1 reference Z80 + trace bus",
    ),
    "C02": (
        "property-based differential testing (proptest) of generated programs x INT/NMI schedules against the reference Z80",
        "exploration",
        "Generated flag-independent programs with EI/DI/HALT/IM/RETN/RETI/prefix chains run in lock-step on implementation and reference under generated INT pulse schedules and NMI edges; acceptance decision at every boundary, pushed return address, vector reads, new PC, IFF1/IFF2, HALT release and RETN/RETI IFF copy are compared. Built with overflow checks and debug assertions on (cargo profile `checked`): a panic inside the implementation is a violation.",
        REF + "INT/NMI are scheduled over the memory-cycle index (independent of T-state accounting). Not judged: NMI directly after EI/DI/prefix, NMI edge latched during an interrupt entry, HALT refetch address.",
        "DESIGN.md sections 3 and 5 (C02)",
        "E1 reference Z80 + trace bus",
    ),
    "C03": (
        "property-based differential testing (proptest): timing skeleton of every encoding x timing variant against the reference Z80's bus-cycle breakdown",
        "exploration",
        "For generated states biased to select every timing variant, all 1792 encodings are executed on both models and the ordered (kind, clocks, address) skeleton including every single delay T-state and the T total is compared; interrupt entry (IM 0/1/2, NMI) and HALT refetch totals and memory cycles likewise. Coverage of 17 named variants and 5 entry kinds is asserted (a generator hole is exit 2). Acknowledge T-states presented as addressed delays must carry the return address; an internal delay of several T-states in one bus call is an anomaly; compare instructions meet A-(HL) in {0, 1, 0xFF, 0x10}. Built with overflow checks and debug assertions on (cargo profile `checked`): a panic inside the implementation is a violation.",
        REF + "The reference breakdown follows the published Spectrum contention tables and has its own documented-T-state self-check.",
        "DESIGN.md sections 3 and 5 (C03)",
        "E1 reference Z80 + trace bus",
    ),
    "C04": (
        "property-based differential testing (proptest): single instructions at generated frame positions and memory placements against reference Z80 bus cycles + contention model",
        "exploration",
        "Each sub-case places one of the 1792 encodings, its operands, stack, I register and port address in contended/uncontended memory (both machines, any 128K paging), sets the frame clock through the hook with forced coverage of every residue mod 8 and the window/line/frame edges, executes it on the emulator and on the reference machine and compares the end T-state (incl. frame wraps) exactly; registers and written memory as side condition. Half of the 128K sub-cases set the latch by a real OUT, a third of those lock it and then issue an ignored write; a quarter of the cases run with a host I/O extender claiming a port class (claimed ports are timed like any other).",
        REF + "Contention model transcribed from the property text (per-line restart of the pattern on the 128K, see DESIGN.md section 8) and self-checked; floating-bus/AY read data not modelled (time still compared).",
        "DESIGN.md sections 4 and 5 (C04)",
        "E2 reference machine + emulator lock-step",
    ),
    "C05": (
        "property-based differential testing (proptest) of generated interrupt-driven programs against a time-conserving reference machine; exhaustive enumeration of boundary T-states around the INT pulse",
        "exploration",
        "Generated programs (busy, HALT-driven, EI/DI toggling, short re-entrant and long self-counting handlers, IM 0/1/2, code in contended/uncontended/paged RAM) run for 1..200 frames per emulate_frames call; after every call frame counter, frame clock, registers and HALT state must equal a reference machine whose time is one monotone T counter with INT asserted iff T mod frame length < 32; RAM compared at the end. The boundary T-states 0..79 and the last 40 of the frame are enumerated exhaustively for acceptance. Further stages: paging-port writes (lock included) in the programs, a host I/O extender claiming the programs' ports, a host poke into contended RAM with the machine stopped mid-frame (takes no time), and a phase with a tape playing in real time, including a tape error after which the host carries on.",
        REF + "Programs avoid prefix chains and unclaimed-port reads so that one emulate() = optional interrupt entry + one instruction.",
        "DESIGN.md sections 4 and 5 (C05)",
        "E2 reference machine + emulator lock-step",
    ),
    "C06": (
        "property-based testing (proptest) of port-write/memory-access histories against a reference memory map executed by the emulated CPU",
        "exploration",
        "Histories of paging writes (all values, before and after lock, near-miss ports) and reads/writes at window-edge-biased addresses are executed instruction by instruction on the emulator; every read, then all 65536 addresses, every RAM bank and the paging state are compared with a 40-line reference memory map, with embedded and host-supplied ROM images. Host-supplied ROM sets arrive all at once or in short reads, and load_rom of another ROM set is an operation of the history.",
        "Trusted: the reference memory map written from the property text; RAM/paging hooks. Even paging-class addresses (also ULA) are not generated.",
        "DESIGN.md section 5 (C06)",
        "E2 memory model + emulator lock-step",
    ),
    "C07": (
        "exhaustive enumeration of all 65536 port addresses x read/write per device configuration with a decode oracle; property-based testing (proptest) of floating-bus reads",
        "exploration",
        "All 65536 addresses are read and written by the emulated CPU on six device configurations plus generated I/O-extender claim predicates; routing is judged where the property's decode predicates select exactly one device (or none), every access also checks that no other device changed state and that the extender log holds exactly the claimed accesses. Unclaimed reads at generated beam positions must be 0xFF outside the fetch windows and otherwise 0xFF or a display/attribute byte of the line being fetched in the displayed bank. Well inside a fetch window one of eight consecutive start times must show a fetched byte. A further phase changes the extender's claims between accesses of the same port. Also: two unclaimed reads at the same position within two different picture lines are both 0xFF or both a fetched byte.",
        "Trusted: decode predicates from the property text (conservative reading of the mouse decode), state observation through border_color(), paging hook and unclaimed AY helper ports. EAR polarity belongs to C11.",
        "DESIGN.md section 5 (C07)",
        "E2 emulator lock-step",
    ),
    "C08": (
        "property-based testing (proptest) with an independent screen decoder; metamorphic over delivery paths",
        "exploration",
        "Generated screen contents are delivered through CPU writes via 0x4000 and 0xC000 (bank 5/7), execute_poke, SCR, SNA, SZX (stored/zlib) and fast tape load, on both machines and both 128K screen banks, over 1..40 idle frames; every delivered canvas must equal the independent standard decode with a flash phase that toggles in runs of exactly 16 frames; single bytes written clearly before/after the beam must appear in the current/next frame. Further paths and stages: poke and fast load through 0xC000, files delivered in short reads, 128K screen-bank flip, a history of real paging-port writes after delivery (lock included), a 48K SNA save with SP inside the display file, and in the beam phase writes into a displayed bank 7 and a rewrite of the latched value after the byte write. Phase failing-load: SNA/SZX/SCR loads that fail part-way (asset dead from a generated call, SZX cut short) must still be displayed as the loader left screen memory.",
        "Trusted: decoder written from the property formula; harness FrameBuffer; the harness' SNA/SZX/TAP writers.",
        "DESIGN.md section 5 (C08)",
        "E3 formats + emulator",
    ),
    "C09": (
        "property-based differential testing (proptest): generated OUT programs timestamped by the reference machine vs. every border pixel",
        "exploration",
        "Looping programs of delays and OUTs to even ports run on emulator and reference machine; after every completed frame each of the 27648 border pixels must show a colour that was current within 8 T-states of its beam time, border_color() must equal the last written low bits, frames without writes show the current colour, and a loaded snapshot's border is reported and shown. A quarter of the programs run with an unrelated I/O extender attached; the snapshot phase also loads SZX files whose port-0xFE field differs from the border field and lets the loaded program write the byte written last before the load.",
        REF + "Border raster geometry from the property text.",
        "DESIGN.md section 5 (C09)",
        "E2 reference machine + emulator",
    ),
    "C10": (
        "property-based testing (proptest) of TAP images x LD-BYTES request sequences against a ROM-listing model of LD-BYTES",
        "exploration",
        "The ROM routine at 0x0556 is called from a RAM stub with generated A/carry/IX/DE against generated TAP images (buffer-boundary lengths, wrong checksums, truncated tails), several requests in sequence and past the end of the tape; carry, IX, DE and all RAM (outside system variables and stack) are compared with an LD-BYTES model written from the ROM disassembly; past the end the routine must not succeed and CPU state must stay intact. Preludes: an SZX loaded first, latch locked then an ignored paging write, PLAY+STOP, fast loading switched on / off at run time; a fifth of the cases with a debugger breakpoint on the trap address; a phase where PLAY is pressed while a request waits at the end of the tape; in a third of the sequences the host rewinds the tape before a generated request, which must meet block 0 again.",
        "Trusted: LD-BYTES model (cross-checked against the real ROM running in real time by C11).",
        "DESIGN.md section 5 (C10)",
        "E4 tape models + emulator",
    ),
    "C11": (
        "property-based testing (proptest): pulse generator under generated time-step schedules vs. a synthesised nominal waveform; real ROM loader in real time vs. LD-BYTES model",
        "exploration",
        "Component level: every interval between EAR edges, for any partition of time into 1..16 T steps, must lie in [nominal, nominal+32] with exact count and order (pilot 8063 / >= 3223, sync 667+735, two pulses per bit MSB first, ~1 s pause). System level: the real ROM LD-BYTES loads the playing tape and must return the carry, IX, DE and memory the block's bytes imply. Tape assets deliver all at once or in short reads; half of the real-time loads run with the host's fast-load setting on and a third after an SZX with a KEYB chunk; a further phase checks the EAR bit on generated ULA addresses against bracketing reads of 0x7FFE. In part of the real-time cases the first block is consumed by a fast-load request (possibly leaving it early) before PLAY is pressed.",
        "Trusted: waveform synthesiser and LD-BYTES model written from the format/ROM documentation; Tap re-export hook.",
        "DESIGN.md section 5 (C11)",
        "E4 tape models + emulator",
    ),
    "C12": (
        "property-based testing (proptest) of play/stop/rewind/advance command histories against a deck model with a waveform-prefix oracle",
        "exploration",
        "Generated command histories drive the pulse generator; no edge may occur while stopped, and the edge stream over playing time, cut at rewinds and complete passes, must always be a prefix of the nominal waveform of the whole tape (clean pilot, every pulse in tolerance), so blocks appear once and in order; a replay after the end needs a play command. Further phases: long blocks around the 128-byte buffer multiples, assets with short reads or handed over at a non-zero offset, and an emulator-level phase in which a stopped deck must stay frozen across save_snapshot, load_screen, pokes and setting calls. The emulator-level deck phase also issues further PLAY/STOP/REWIND commands before the STOP it observes.",
        "Trusted: deck model and nominal waveform; Tap re-export hook. Short data-flag blocks only.",
        "DESIGN.md section 5 (C12)",
        "E4 tape models",
    ),
    "C13": (
        "property-based testing (proptest): save/load round trip + frame condition + independent parser + behavioural continuation against the reference machine",
        "exploration",
        "Arbitrary machine states (registers, latch incl. lock, border, RAM) are built through hooks; save_snapshot must leave registers, every RAM bank, latch and border untouched and produce a file that the harness' own SNA parser reads back to that state; loading it into the same emulator after scrambling, or a fresh / halted / mid-prefix / paging-locked / EI-pending one, must restore every carried item and all CPU-visible memory, and the following instructions (with an interrupt on the way) must match the reference machine continuing from the saved state. Also: SP at page boundaries, halted saved machines, a recorder taking a few bytes per call, a recorder that fails (the failed save must leave the machine as it was), INT active when the loaded machine starts, receivers stopped mid-frame, and a second generation (the restored machine saved again and loaded into a fresh one).",
        REF + "48K proviso (two bytes below SP in RAM) applied as a counted generator skip.",
        "DESIGN.md section 5 (C13)",
        "E3 formats + E2 reference machine",
    ),
    "C14": (
        "property-based testing (proptest) with independent SNA/SZX/SCR writers: direct state comparison, lock-step behaviour, metamorphic equality across encodings, mismatch rejection",
        "exploration",
        "Abstract states are encoded as SNA, SZX stored/zlib and 'fancy' SZX (permuted chunks, unknown chunks, lower-case ids) and loaded into receivers in six prior states; registers, RAM, latch, border, cycle counter, MEMPTR, HALTED and EILAST behaviour, AY read-back and audible tone, mouse presence and the displayed picture are compared with the described state; all encodings of one state must behave identically; files of the other model must be rejected or applied with the right layout; repository SNA assets cross-check the harness parser. Also: files delivered in short reads, unknown chunks bigger than a page, chFe different from chBorder, AMX mouse type, receivers with the AY off or with a mouse of their own or stopped mid-frame, both screen banks displayed, and the file's one-shot envelope must start again when the same file is loaded a second time.",
        REF + "Only well-formed files are generated here (C15 owns malformed input).",
        "DESIGN.md section 5 (C14)",
        "E3 formats + E2 reference machine",
    ),
    "C15": (
        "fault enumeration at every asset call index + property-based structure-aware corruption (proptest) + coverage-guided fuzzing (libFuzzer) with a totality monitor",
        "fault_enumeration",
        "Every loader (SNA, SZX, SCR, TAP incl. fast-load request and real-time playing, ROM, gzip, VTX incl. playing) is exercised on both machines with: a fault (error / short read / premature EOF, one-shot or sticky) at every read/seek index of a successful load; valid files with field/structure mutations; explicit adversarial SZX chunk lists and VTX headers; uniform bytes up to 160 KiB; the committed corpus. The monitor catches panics with overflow checks and debug assertions on (profile `checked`), counts allocations (single request > max(16 MiB, 64x input) is a violation), detects read-after-EOF loops deterministically, and requires 3 more frames of emulation afterwards. Thorough adds a libFuzzer campaign (16 workers) on the same oracle. Also: every length within a few bytes of each structural boundary of every format, gzip and SZX-zlib inputs of high ratio, chunk bodies of 64-70 KiB really present, fast loads to the top of memory, receiving emulators stopped mid-frame.",
        "Trusted: the monitor (catch_unwind, counting allocator, work counter). Open known finding: panic inside the pinned delharc LH5 decoder (tolerated by signature, probed on every run).",
        "DESIGN.md section 5 (C15)",
        "E3 formats + fault-injecting assets + libFuzzer target",
    ),
    "C16": (
        "property-based metamorphic testing (proptest): the same scenario under different host drivings and asset implementations must reach identical state hashes",
        "exploration",
        "Generated interrupt-driven programs with AY/beeper/paging/screen/keyboard/joystick/mouse/tape activity and frame-indexed input scripts are run one frame per call (reference) and again under a partition into FrameCount(n) calls, maximum-speed mode with scripted stopwatch readings, breakpoint stops with resumption, undrained audio, sound switched off, and with the initial file delivered through BufferCursor, FileAsset, GzipAsset or 1..255-byte short reads; hashes of registers, all RAM, paging, frame clock, canvas and border must agree at every common frame count; repeated runs must also agree on audio bit for bit. The tape image and (with short reads) the ROM images travel through the asset kinds too; 128K snapshots have any bank paged (long SNA layout); sound is switched on and off between frames in one driving. An enumerated phase places the fast loader's trap address on the instruction that crosses a frame end (calibrated delay, 32 paddings, both machines, five drivings). Every FrameCount(n) call of a partition must complete exactly n frames under scripted stopwatch readings far beyond or jumping across the time limit. One driving runs the first frames in maximum-speed mode and compares the drained audio of every frame with the reference run's. In the breakpoint drivings a resumed FrameCount(1) call reports Completed exactly when one frame ended during it.",
        "Trusted: frame-counter hook for alignment; inputs applied between calls at equal frame indices.",
        "DESIGN.md section 5 (C16)",
        "emulator metamorphic driver",
    ),
    "C17": (
        "property-based testing (proptest) of input event histories against a set model, read back through emulated IN instructions",
        "exploration",
        "After every event of a generated press/release/move history the emulated CPU reads all 8 half-rows, generated multi-row selectors, the Kempston port and the three mouse ports; values are compared with a per-source set model (matrix, compound keys with shared CAPS SHIFT, Sinclair mapping from the property text, Kempston OR, active-low buttons, 4-bit wheel, X += dx, Y -= dy). One selector is also read right before and right after every event, as a program polling one row does.",
        "Trusted: keyboard matrix/compound/Sinclair tables written from hardware documentation. Known finding: Sinclair joystick 2 'down' (excluded by construction while its probe reproduces it).",
        "DESIGN.md section 5 (C17)",
        "E2 emulator lock-step",
    ),
    "C18": (
        "property-based testing (proptest) with signal-feature oracles (crossing counts, ramp contours, levels) on the sound generator; emulated port read-back",
        "exploration",
        "Register programmes over chip type, clock 1-2 MHz, sample rate 8-384 kHz and stereo mode are rendered and judged by features with stated tolerances: tone frequency f_clk/(16 TP) by hysteresis crossing count (write order permuted), noise clock by transition rate and its halving when NP doubles, all 16 envelope shapes by the contour of the first four ramps of length 256 EP/f_clk, volume monotonicity, mixer gating, panning per mode, finiteness and bounds under arbitrary write/generate interleavings; AY port read-back and register numbers modulo 16 through the emulated CPU. Thorough sweeps all 4095 periods x 3 channels. The period is also measured edge to edge; integer presentations of samples must equal the clipped full-scale product; a ports-to-sound phase compares the chip behind the Spectrum ports sample for sample with the same register history written directly.",
        "Trusted: feature extractors and tolerances stated in the evidence. Open known finding: tone period 1 renders as a flat level (tolerated only in that class).",
        "DESIGN.md section 5 (C18)",
        "E5 audio feature extractors",
    ),
    "C19": (
        "property-based differential testing (proptest): sample counts and per-sample speaker levels against the reference machine's timestamped ULA writes",
        "exploration",
        "Generated speaker-toggling programs at rates 8000-384000, volumes, enable combinations and drain behaviours: cumulative sample count must be frames x floor(rate/50); with the beeper alone every sample must equal the level of a speaker/MIC state current within one sample period of its frame time (levels measured on a calibration machine, states and times from the reference machine); monotone in EAR then MIC, left = right, linear in volume, volume 0 silent, finite; undrained queues stay below two frames. The per-frame count is exact; in a third of the cases the host re-asserts its settings mid-run. In part of the runs the host switches sound off before one frame and on again before a later one; the frames from there on are judged as before. In a third of the cases program and CPU state are delivered as an SZX snapshot loaded at a frame boundary.",
        REF,
        "DESIGN.md section 5 (C19)",
        "E2 reference machine + emulator",
    ),
    "C20": (
        "property-based testing (proptest): recording-backend schedule oracle + chunking metamorphic relation + writer/loader round trip",
        "exploration",
        "Generated search over register logs, rates, player frequencies and output partitions. Frame k's register writes must occur exactly at sample k*floor(rate/pf) (observed through a recording AymBackend), the total sample count and end-of-stream report must be exact, the real generator's i16/f32 streams must be bit-identical for any partition, and Vtx::load of an independently written file must return the log byte for byte. Sampling, not proof. Decoding goes through readers with short reads as well.",
        "Trusted: the harness' VTX writer and literal-only LH5 encoder; AymBackend as observation seam. Domain: pf 1..255, rate 8000..96000, 0..400 frames (5000 in decode).",
        "DESIGN.md section 5, C20",
        "E3 formats + proptest driver",
    ),
}

# properties not claimed yet: id -> reason
NOT_APPLICABLE = {
}

def main():
    props = [json.loads(l) for l in open(os.path.join(ROOT, "properties.jsonl"))]
    ids = [p["id"] for p in props]
    hook_commits = []
    try:
        out = subprocess.check_output(
            ["git", "-C", "/repo", "log", "--format=%H %s"], text=True)
        for line in out.splitlines():
            h, s = line.split(" ", 1)
            if "rustzx_verif" in s:
                hook_commits.append(h)
    except Exception:
        pass
    checks = []
    for pid in ids:
        if pid not in CHECKS:
            continue
        tech, cat, text, note, ref, engine = CHECKS[pid]
        checks.append({
            "property_id": pid,
            "quick_cmd": f"bin/check {pid} quick",
            "thorough_cmd": f"bin/check {pid} thorough",
            "evidence_file": f"/verif/evidence/{pid}.json",
            "replay_cmd_template": f"bin/check {pid} --replay {{path}}",
            "engine": engine,
            "level_claimed": {"category": cat, "text": text, "design_ref": ref},
            "level_note": note,
            "technique": tech,
        })
    na = []
    for pid in ids:
        if pid in CHECKS:
            continue
        na.append({"property_id": pid,
                   "reason": NOT_APPLICABLE.get(pid, "check under construction in this round; not claimed until it is built and shown silent on the unchanged tree")})
    manifest = {
        "version": 1,
        "setup_cmd": "bin/setup",
        "hooks": {
            "guard": "rustzx_verif",
            "enable": "RUSTFLAGS=--cfg rustzx_verif (set in /verif/.cargo/config.toml [build] rustflags; the harness path-depends on /repo crates)",
            "baseline_off_cmd": "cd /repo && cargo test --workspace --no-fail-fast --offline",
            "source_commits": hook_commits,
            "add_only": True,
        },
        "engines": [
            {"name": "rzxv", "path": "/verif/harness", "serves_properties": [c["property_id"] for c in checks],
             "kind_free_text": "cargo binary crate; proptest TestRunner with seeded shards, deterministic enumeration loops, reference models, independent codecs"},
            {"name": "refz80", "path": "/verif/refz80", "serves_properties": ["C01", "C02", "C03", "C04", "C05"],
             "kind_free_text": "independently written reference Z80 with bus-cycle trace, calibrated on zexall and z80test CRCs"},
        ],
        "checks": checks,
        "not_applicable": na,
        "notes": "All commands run from /verif. VERIF_SEED seeds every generator; VERIF_TIER or the second argument selects the tier. Exit 2 = infrastructure/inconclusive, never a violation. known_findings.txt lists open and fixed findings.",
    }
    with open(os.path.join(ROOT, "MANIFEST.json"), "w") as f:
        json.dump(manifest, f, indent=1)
        f.write("\n")

if __name__ == "__main__":
    main()
